"""C01  Parsing and regenerating Fortran preserves program behaviour.

ENUM + gfortran differential.  Space: the MF kernel stream (vf/mfgen.py): every statement
sequence of length <= L over ~60 statement forms (scalars, arrays with lower bound 0, derived
type, counted/while/labelled/named loops with EXIT/CYCLE [name], IF/ELSE IF, one-line IF,
SELECT CASE with ranges, WHERE/ELSEWHERE, ASSOCIATE, internal procedure + function, module
procedure calls, intrinsics, PRINT, OPEN/WRITE/READ/CLOSE), plus every compound form x every
inner statement (nesting <= 2), each executed on a 9-point input grid.
Oracle: Sourcefile.from_source(text, frontend=FP).to_fortran() compiles and the regenerated
batch prints exactly what the original prints for every (kernel, input).  The MF reference
interpreter must agree with gfortran on the original (conformance; disagreement = HARNESS-ERROR).
"""
import logging

from vf import mf, mfgen, mfbatch

PROPERTY = 'C01'
LEVEL = 'exploration'
META = dict(
    engine='enum',
    technique='bounded-exhaustive program enumeration (statement sequences <= L, nesting <= 2) + gfortran differential run',
    level_text='every MF kernel up to the stated length/nesting bound, on the whole input grid: FP-parse + fgen output '
               'compiles and prints the same as the original; exhaustive for the bound',
    level_note='gfortran 12 -O0 -fcheck=bounds is the semantics; MF interpreter cross-validated against gfortran on every '
               'kernel; only kernels that are fully defined on every input are kept',
)

BATCH = 40


def _quiet():
    logging.disable(logging.CRITICAL)
    try:
        import loki.logging as ll
        ll.set_log_level('ERROR')
    except Exception:  # pylint: disable=broad-except
        pass


def regen(text):
    from loki import Sourcefile, Frontend
    return Sourcefile.from_source(text, frontend=Frontend.FP).to_fortran()


def module_of(sub):
    return mf.module_text('kmod', [(k, body) for k, (name, body, outs) in sub])[0]


def judge_batch(batch):
    """batch: list of (kname, (name, body, expected_outs)).  Returns list of (kname, verdict, detail)
    verdict in ok | loki-exception | regen-compile-error | regen-run-error | output-differs | HARNESS"""
    _quiet()
    out = []
    base = judge_batch.base
    orig = mfbatch.run_batch_bisect(batch, module_of, base=base)
    good = []
    for k, payload in batch:
        st = orig[k]
        if st[0] != 'ok':
            out.append((k, 'HARNESS', f'original kernel does not {st[0]}: {st[1][-300:]}'))
            continue
        exp = payload[2]
        bad = next((g for g, e in enumerate(exp, start=1) if st[1].get(g) != e), None)
        if bad is not None:
            out.append((k, 'HARNESS', f'interpreter disagrees with gfortran on input {bad}: '
                                       f'{exp[bad - 1]} vs {st[1].get(bad)}'))
            continue
        good.append((k, payload, st[1]))

    # regenerate through Loki, batch first, bisect on exception
    def loki_text(sub):
        return regen(module_of([(k, p) for k, p, _ in sub]))

    def attempt(sub):
        if not sub:
            return
        try:
            text = loki_text(sub)
        except Exception as ex:  # pylint: disable=broad-except
            if len(sub) == 1:
                out.append((sub[0][0], 'loki-exception', f'{type(ex).__name__}: {str(ex)[:300]}'))
                return
            mid = len(sub) // 2
            attempt(sub[:mid])
            attempt(sub[mid:])
            return
        # compile regenerated text; bisect on compile/run errors by regenerating sub-batches
        ok, stage, data = mfbatch.build_and_run(text, [k for k, _, _ in sub], base=base)
        if not ok and len(sub) > 1:
            mid = len(sub) // 2
            attempt(sub[:mid])
            attempt(sub[mid:])
            return
        if not ok:
            k = sub[0][0]
            if stage == 'compile':
                out.append((k, 'regen-compile-error', data[-700:]))
            else:
                out.append((k, 'regen-run-error', data[1][-400:]))
            return
        for k, p, o in sub:
            got = {g: v for (kn, g), v in data.items() if kn == k}
            bad = next((g for g in sorted(o) if got.get(g) != o[g]), None)
            if bad is None:
                out.append((k, 'ok', ''))
            else:
                out.append((k, 'output-differs', f'input #{bad}: original prints {o[bad]}, regenerated prints {got.get(bad)}'))
    attempt(good)
    return out


judge_batch.base = None


def run(ctx):
    L, nest = (1, 2) if ctx.quick else (2, 2)
    kernels = list(mfgen.valid_stream(L, nest))
    total = sum(1 for _ in mfgen.stream(L, nest))
    named = [(f'k{n:05d}', payload) for n, payload in enumerate(kernels)]
    from vf.explore import seeded_order
    order = seeded_order(named, ctx.seed)
    batches = [order[s:s + BATCH] for s in range(0, len(order), BATCH)]
    judge_batch.base = str(ctx.scratch)
    ctx.reset_pool()
    results = ctx.pmap(judge_batch, batches, chunksize=1)
    byname = dict(named)
    verdicts = {}
    for res in results:
        for k, v, d in res:
            verdicts[k] = (v, d)
    harness = [(k, d) for k, (v, d) in verdicts.items() if v == 'HARNESS']
    ctx.require(not harness, f'{len(harness)} harness errors, first: {byname[harness[0][0]][0] if harness else ""} '
                             f'{harness[0][1] if harness else ""}')
    # signatures: a failing single form explains longer sequences that contain it
    single_fail = {}
    for k, (name, body, outs) in named:
        v, d = verdicts[k]
        if v != 'ok' and '+' not in name:
            single_fail[name] = v
    distinct_out = set()
    for k, (name, body, outs) in named:
        distinct_out.add(repr(outs))
        v, d = verdicts[k]
        if v == 'ok':
            continue
        parts = [p.split('[')[0] for p in name.split('+')]
        culprit = next((p for p in parts if p in single_fail and single_fail[p] == v), None)
        sig = f'{v} form={culprit}' if culprit else f'{v} forms={name}'
        ctx.violation(sig, dict(name=name, body=body), d)
    nontrivial = len(distinct_out)
    ctx.require(nontrivial > 50, f'vacuous: only {nontrivial} distinct output vectors')
    ctx.cov.update(
        evaluations=len(named) * len(mf.input_grid()), programs=len(named), distinct_nontrivial=nontrivial,
        candidates_enumerated=total, dropped_invalid=total - len(named),
        traces_validated_against_impl=len(named), exhaustive=True,
        rule=f'all statement sequences of length <= {L} over {len(mfgen.base_alphabet())} forms + every compound form x '
             f'every inner statement (nesting <= {max(nest, 1) + 0}); kernels undefined on any grid input dropped; '
             'non-trivial/distinct = distinct 9-input output vectors; traces_validated = kernels on which the '
             'reference interpreter equals gfortran on all inputs',
        samples=[dict(name=named[0][1][0], text=mf.kernel_text('k', named[0][1][1])[0][9:]),
                 dict(name=named[len(named) // 2][1][0], text=mf.kernel_text('k', named[len(named) // 2][1][1])[0][9:])],
        bound=dict(L=L, nest=nest, inputs=len(mf.input_grid())),
    )
    ctx.assumptions += ['gfortran 12.2 -O0 -fcheck=bounds defines program behaviour',
                        'small-scope: nothing is claimed beyond the statement alphabet and length/nesting bound']


def replay(case):
    _quiet()
    body = case['body']
    outs = mf.valid_on_grid(body)
    if outs is None:
        return None
    judge_batch.base = None
    res = judge_batch([('k00000', (case['name'], body, outs))])
    k, v, d = res[0]
    if v == 'HARNESS':
        raise RuntimeError(d)
    return None if v == 'ok' else f'{v}: {d}'
