"""C27  Dependency queries report every actual loop-carried or read-after-write value.

ENUM + reference interpreter, same kernel stream and trace machinery as C26.
  * loop-carried: a storage location written in iteration p of a loop and read in an iteration
    q > p of the same loop instance with no write in between  =>  its variable must be in
    loop_carried_dependencies(loop), for every loop at every nesting level (the loop's own
    control variable is exempt: its increment belongs to loop control, not to an iteration body).
  * read-after-write: for every statement node N that executes at most once per run (i.e. is not
    inside a loop), a location written by the routine before N starts and read at or after N's
    start with no intervening write  =>  its variable must be in read_after_write_vars(body, N).
Only omissions are violations (the statement is one-directional); over-reporting is counted as
precision in the evidence and not judged.
"""
import logging

from vf import mf, mfgen, dfa_trace
from checks.c26_dataflow_sets import assoc_maps, translate, covered, stmt_at, _collect_if1, _stmt_head, var_kind

PROPERTY = 'C27'
LEVEL = 'exploration'
META = dict(
    engine='enum',
    technique='bounded-exhaustive program enumeration; actual loop-carried / read-after-write flows from a gfortran-validated reference interpreter vs the dependency queries',
    level_text='every MF kernel up to the length/nesting bound x 9 inputs: every actual loop-carried flow is in '
               'loop_carried_dependencies(loop) for every loop, every actual read-after-write flow across every once-executed '
               'statement is in read_after_write_vars; exhaustive for the bound',
    level_note='element-granular flows from the reference interpreter (validated against gfortran in C01); over-reporting not judged',
)
BATCH = 25


def _quiet():
    logging.disable(logging.CRITICAL)


def loop_paths(body, path=(), acc=None):
    acc = {} if acc is None else acc
    for i, s in enumerate(body):
        p = path + (i,)
        k = s[0]
        if k == 'do':
            acc[p] = s[1]
            loop_paths(s[5], p, acc)
        elif k == 'while':
            acc[p] = None
            loop_paths(s[2], p, acc)
        elif k == 'assoc':
            loop_paths(s[2], p, acc)
        elif k == 'if':
            for n, (c, b) in enumerate(s[1]):
                loop_paths(b, p + (('b', n),), acc)
            if s[2] is not None:
                loop_paths(s[2], p + (('b', 'else'),), acc)
        elif k == 'select':
            for n, (c, b) in enumerate(s[2]):
                loop_paths(b, p + (('b', n),), acc)
            if s[3] is not None:
                loop_paths(s[3], p + (('b', 'default'),), acc)
    return acc


def judge_batch(batch):
    _quiet()
    from loki import Sourcefile, Frontend, ir, FindNodes
    from loki.analyse import dataflow_analysis_attached, loop_carried_dependencies, read_after_write_vars
    text, info = mf.module_text('kmod', [(k, body) for k, (name, body) in batch])
    sf = Sourcefile.from_source(text, frontend=Frontend.FP)
    routines = {r.name.lower(): r for r in sf.all_subroutines}
    grid = mf.input_grid()
    out = []
    for k, (name, body) in batch:
        routine = routines[k]
        off, line_of = info[k]
        line2path = {ln: p for p, ln in line_of.items()}
        if1 = set()
        _collect_if1(body, (), if1)
        lps = loop_paths(body)
        carried_q, raw_q, cls_of = {}, {}, {}
        with dataflow_analysis_attached(routine):
            for node in FindNodes(ir.Node).visit(routine.body):
                if isinstance(node, (ir.Section, ir.Comment, ir.CommentBlock, ir.Pragma)) or node.source is None:
                    continue
                path = line2path.get(node.source.lines[0])
                if path is None:
                    continue
                if path in if1 and not isinstance(node, ir.Conditional):
                    path = path + (0,)
                if path in cls_of:
                    continue
                cls_of[path] = type(node).__name__
                if isinstance(node, (ir.Loop, ir.WhileLoop)) and path in lps:
                    try:
                        carried_q[path] = ({s.name.lower() for s in loop_carried_dependencies(node)},
                                           {s.name.lower() for s in node.defines_symbols},
                                           {s.name.lower() for s in node.uses_symbols})
                    except Exception as ex:  # pylint: disable=broad-except
                        carried_q[path] = ex
                inside_loop = any(path[:n] in lps for n in range(1, len(path)))
                if not inside_loop:
                    try:
                        raw_q[path] = {s.name.lower() for s in read_after_write_vars(routine.body, node)}
                    except Exception as ex:  # pylint: disable=broad-except
                        raw_q[path] = ex
        viols = {}
        nq = nflows = nover = 0
        actual_c, actual_r = {}, {}
        for inp in grid:
            _, trace = mf.run_kernel(body, inp, trace=True)
            for p, names in dfa_trace.carried(trace, lps).items():
                actual_c.setdefault(p, set()).update(names)
            for p, names in dfa_trace.raw_across(trace).items():
                actual_r.setdefault(p, set()).update(names)
        for p, q in carried_q.items():
            nq += 1
            st = stmt_at(body, p)
            if isinstance(q, Exception):
                viols.setdefault(f'loop_carried_dependencies raises {type(q).__name__}', f'{q} on `{_stmt_head(st)}`')
                continue
            have, dfn, use = (translate(x, assoc_maps(body, p)) for x in q)
            act = actual_c.get(p, set())
            nflows += len(act)
            nover += len([v for v in have if v not in act])
            for var in sorted(act):
                if not covered(var, have):
                    why = ('defined-not-used' if covered(var, dfn) and not covered(var, use) else
                           'used-not-defined' if covered(var, use) and not covered(var, dfn) else
                           'neither' if not covered(var, use) else 'both')
                    viols.setdefault(f'loop_carried_dependencies lacks {var_kind(var)}: loop sets say {why}',
                                     f'loop `{_stmt_head(st)}` at MF path {list(p)}: a value of {var!r} written in one iteration '
                                     f'is read in a later one, query returned {sorted(have)}')
        for p, q in raw_q.items():
            if p not in actual_r:
                continue
            nq += 1
            st = stmt_at(body, p)
            if isinstance(q, Exception):
                viols.setdefault(f'read_after_write_vars raises {type(q).__name__}', f'{q} on `{_stmt_head(st)}`')
                continue
            have = translate(q, assoc_maps(body, p))
            act = actual_r[p]
            nflows += len(act)
            nover += len([v for v in have if v not in act])
            for var in sorted(act):
                if not covered(var, have):
                    viols.setdefault(f'read_after_write_vars lacks {var_kind(var)}: inspection node={cls_of.get(p)} stmt={st[0] if st else "?"}',
                                     f'inspection point `{_stmt_head(st)}` at MF path {list(p)}: {var!r} is written before it and '
                                     f'read at/after it, query returned {sorted(have)}')
        out.append((k, sorted(viols.items()), nq, nflows, nover))
    return out


def run(ctx):
    L, nest = (1, 2) if ctx.quick else (2, 2)
    # PRINT and unit I/O are outside the property's quantifier (scalars/arrays, loops, conditionals, SELECT CASE, WHERE,
    # ASSOCIATE, calls): kernels containing them are not part of this stream
    kernels = [(f'k{n:05d}', (name, body)) for n, (name, body, _) in enumerate(mfgen.valid_stream(L, nest))
               if "'iounit'" not in repr(body) and "'print'" not in repr(body)]
    from vf.explore import seeded_order
    order = seeded_order(kernels, ctx.seed)
    batches = [order[s:s + BATCH] for s in range(0, len(order), BATCH)]
    results = ctx.pmap(judge_batch, batches, chunksize=1)
    byk = dict(kernels)
    nq = nflows = nover = 0
    for res in results:
        for k, viols, a, b, c in res:
            nq, nflows, nover = nq + a, nflows + b, nover + c
            name, body = byk[k]
            for sig, det in viols:
                ctx.violation(sig, dict(name=name, body=body, signature=sig), det)
    ctx.require(nq > 300 and nflows > 200, f'vacuous: {nq} queries, {nflows} actual flows')
    ctx.cov.update(
        evaluations=nq, distinct_nontrivial=nflows, programs=len(kernels), over_reported=nover, exhaustive=True,
        rule=f'MF kernel stream L<={L}, nesting<={nest}, 9 inputs; evaluations = (loop | inspection point) queries judged, '
             'distinct_nontrivial = actual (query, variable) flows observed in the traces',
        samples=[dict(kernel=kernels[0][1][0]), dict(kernel=kernels[-1][1][0])],
        bound=dict(L=L, nest=nest, inputs=9),
    )
    ctx.assumptions += ['interpreter trace is ground truth (validated against gfortran in C01)',
                        'inspection points restricted to statements that execute at most once per run']


def replay(case):
    res = judge_batch([('k00000', (case['name'], case['body']))])
    want = case.get('signature')
    for k, viols, *_ in res:
        for sig, det in viols:
            if want is None or sig == want:
                return det
    return None
