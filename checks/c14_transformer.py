"""C14  The tree transformer applies exactly the requested node mapping.

ENUM.  Every control-flow tree (a root `Section` holding a forest) with at most N nodes over the
alphabet

    leaves    a = Assignment(a = 1)   b = Assignment(b = 2)   c = Comment   f = CallStatement
              (every occurrence is its own object, so two `a` are *equal by value* but distinct)
    internal  L[..] Loop   S[..] Section   X[..] Associate (scoped)   C[..|..] Conditional with else
              M[..|..|..] MultiConditional (two cases + default)

x every mapping over <= 2 keys (keys = nodes of the tree, one per distinct value) with targets
{None, fresh leaf, fresh internal node, (n1, n2), (key, n1), (n1, key), (), relabelled copy of key}
x `Transformer` / `NestedTransformer` x inplace x rebuild_scopes x invalidate_source, and
x `MaskedTransformer` / `NestedMaskedTransformer` with start / stop over all node subsets up to the
stated size, `active`, `require_all_start`, `greedy_stop`, optional single-key mapping.

Oracle: an independent recursive rebuild on a nested-tuple mirror of the tree, written from the
class docstrings (not from the code):

 * Transformer: the mapping is applied before visiting children; None drops the node; a node
   replaces it (the replacement is not visited); an iterable is spliced into the tuple containing the
   node (an occurrence of the key inside its own iterable is kept and its children are processed);
   keys match by value equality (mapper is a dict); every other node keeps content and order.
 * NestedTransformer: children first; None drops; a handle that is a copy of the key with another
   non-traversable attribute (label) replaces the key and receives the rebuilt children of the
   original (the only documented/used form; other handle shapes are outside its space).
 * MaskedTransformer: pre-order traversal with the documented on/off switch (start included, stop
   excluded, start wins over stop unless greedy_stop, require_all_start consumes start nodes, greedy_stop
   ends everything); a node is included iff the switch is on when it is visited; an internal node that is
   not included contributes the included nodes of its bodies to the enclosing tuple.
 * NestedMaskedTransformer: leaves as above; an internal node is included iff its body keeps a node;
   a Conditional without body is replaced by its else-body; MultiConditional loses cases whose body
   vanished and is replaced by its default body when no case is left.
 * without `inplace` the original tree (mirror snapshot) is unchanged - except `ScopedNode`s when
   `rebuild_scopes` is off, which are documented to be updated in place; with `inplace` the result is the
   root object itself;
 * `rebuilt` has an entry, located in the new tree and of the same class, for every original node that
   survives as itself (weaker reading: nodes inside replaced sub-trees and one-to-many keys are exempt).

Not judged (counted as `unspecified`): a key with a single-node replacement that is met while a masked
transformer is switched off (the two documented rules conflict); keys / start / stop nodes that have an equal-by-value duplicate
in the tree when `inplace=True` (the in-place update mutates the key object, so whether the later duplicate
still matches is an accident of hashing).
"""
import itertools
from functools import lru_cache

from vf.explore import seeded_order

PROPERTY = 'C14'
LEVEL = 'exploration'
META = dict(
    engine='enum',
    technique='bounded-exhaustive enumeration of IR trees x node mappings x transformer classes x flags; independent '
              'reference rebuild on a nested-tuple mirror written from the docstrings',
    level_text='every tree up to the node bound over {2 assignments (repeatable => equal-by-value duplicates), comment, call, '
               'Loop, Section, Associate, Conditional+else, MultiConditional}, every mapping over <= 2 keys with 8 target '
               'shapes, 4 transformer classes and their flags: result == reference rebuild, original unchanged unless '
               'inplace, rebuilt covers surviving nodes; exhaustive for the stated bound',
    level_note='reference = harness-owned recursive rebuild on tuples (shares no code with loki.ir.transformer); '
               'nodes are built directly (no frontend); value equality of nodes = dataclass equality',
)

LEAF_ASSIGN = {'a': ('a', 1), 'b': ('b', 2), 'p': ('p', 3), 'q': ('q', 4), 'r': ('r', 5),
               'u': ('u', 6), 'v': ('v', 7), 'w': ('w', 8), 'z': ('z', 9)}
ARITY = {'L': 1, 'S': 1, 'X': 1, 'C': 2, 'M': 3}
FRESH = [('p', 'q', 'r'), ('u', 'v', 'w')]      # fresh leaves for key 0 / key 1
T_TARGETS = ['none', 'leaf', 'node', 'pair', 'key_n1', 'n1_key', 'empty', 'relabel']
N_TARGETS = ['none', 'relabel']
M_TARGETS = ['none', 'leaf']


# ------------------------------------------------------------------ spec trees: (kind, label, lists, vals)
def leaf(k, label=None):
    return (k, label, (), ())


def inner(k, lists, label=None):
    return (k, label, tuple(tuple(l) for l in lists), (1, 2) if k == 'M' else ())


@lru_cache(maxsize=None)
def _forests(n, leaves, internals):
    """all forests (tuples of trees) with exactly n nodes"""
    if n == 0:
        return ((),)
    out = []
    for k in range(1, n + 1):
        for t in _trees(k, leaves, internals):
            for rest in _forests(n - k, leaves, internals):
                out.append((t,) + rest)
    return tuple(out)


@lru_cache(maxsize=None)
def _trees(n, leaves, internals):
    out = []
    if n == 1:
        out.extend(leaf(k) for k in leaves)
    for k in internals:
        ar = ARITY[k]
        for split in _compositions(n - 1, ar):
            for lists in itertools.product(*[_forests(m, leaves, internals) for m in split]):
                out.append(inner(k, lists))
    return tuple(out)


def _compositions(total, parts):
    if parts == 1:
        return [(total,)]
    return [(i,) + rest for i in range(total + 1) for rest in _compositions(total - i, parts - 1)]


def all_roots(maxn, leaves, internals):
    for n in range(0, maxn + 1):
        for f in _forests(n, leaves, internals):
            yield inner('S', [f])


def text(n):
    kind, label, lists, _ = n
    s = kind + (f'@{label}' if label else '')
    if kind in ARITY or lists:
        s += '[' + '|'.join(' '.join(text(c) for c in l) for l in lists) + ']'
    return s


def preorder(root):
    """list of nodes in pre-order, root first"""
    out = []

    def walk(n):
        out.append(n)
        for l in n[2]:
            for c in l:
                walk(c)
    walk(root)
    return out


def remove_pos(root, pos):
    """tree without the node at pre-order position pos (and its subtree); returns (tree, map old pos -> new pos)"""
    counter = [0]
    newpos = {}
    ncount = [0]

    def walk(n, dead):
        p = counter[0]
        counter[0] += 1
        dead = dead or p == pos
        if not dead:
            newpos[p] = ncount[0]
            ncount[0] += 1
        lists = tuple(tuple(x for x in (walk(c, dead) for c in l) if x is not None) for l in n[2])
        return None if dead else (n[0], n[1], lists, n[3])
    return walk(root, False), newpos


def replace_kind(root, pos, kind):
    counter = [0]

    def walk(n):
        p = counter[0]
        counter[0] += 1
        lists = tuple(tuple(walk(c) for c in l) for l in n[2])
        return (kind if p == pos else n[0], n[1], lists, n[3])
    return walk(root)


# ------------------------------------------------------------------ reference semantics on positioned nodes
# positioned node: (kind, label, lists, vals, pos)   pos = pre-order position in the original or None (fresh)
def positioned(root):
    counter = [0]

    def walk(n):
        p = counter[0]
        counter[0] += 1
        return (n[0], n[1], tuple(tuple(walk(c) for c in l) for l in n[2]), n[3], p)
    return walk(root)


def val(n):
    return (n[0], n[1], tuple(tuple(val(c) for c in l) for l in n[2]), n[3])


def fresh_pos(n):
    return (n[0], n[1], tuple(tuple(fresh_pos(c) for c in l) for l in n[2]), n[3], None)


def target_spec(target, keyval, j):
    """('none',) | ('node', spec) | ('tuple', (spec...))   -- spec values (no positions); `keyval` stands for the key"""
    n1, n2, n3 = (leaf(k) for k in FRESH[j])
    if target == 'none':
        return ('none',)
    if target == 'leaf':
        return ('node', n1)
    if target == 'node':
        return ('node', inner('L', [[n3]]))
    if target == 'pair':
        return ('tuple', (n1, n2))
    if target == 'key_n1':
        return ('tuple', (keyval, n1))
    if target == 'n1_key':
        return ('tuple', (n1, keyval))
    if target == 'empty':
        return ('tuple', ())
    if target == 'relabel':
        return ('node', (keyval[0], '7', keyval[2], keyval[3]))
    raise ValueError(target)


class Unspecified(Exception):
    pass


def rb(n, lists):
    return (n[0], n[1], tuple(lists), n[3], n[4])


def ref_transformer(root, M):
    def node(n):
        v = val(n)
        if v in M:
            h = M[v]
            if h[0] == 'none':
                return []
            if h[0] == 'node':
                return [fresh_pos(h[1])]
        return [rb(n, [lst(l) for l in n[2]])]

    def lst(l):
        out = []
        for e in l:
            v = val(e)
            h = M.get(v)
            if h is not None and h[0] == 'tuple':
                for x in h[1]:
                    if x == v:
                        out.append(rb(e, [lst(l2) for l2 in e[2]]))
                    else:
                        out.extend(node(fresh_pos(x)))
            else:
                out.extend(node(e))
        return tuple(out)
    return node(root)


def ref_nested(root, M):
    def node(n):
        v = val(n)
        h = M.get(v)
        if h is not None and h[0] == 'none':
            return []
        lists = [tuple(x for c in l for x in node(c)) for l in n[2]]
        if h is not None:
            # relabelled copy of the key: gets the rebuilt children of the original
            return [(h[1][0], h[1][1], tuple(lists), n[3], n[4])]
        return [rb(n, lists)]
    return node(root)


class Mask:
    def __init__(self, start, stop, active, ras, gs):
        self.start, self.stop, self.active, self.ras, self.gs = set(start), set(stop), active, ras, gs

    def meet(self, v):
        if self.ras:
            if v in self.start:
                self.start.discard(v)
                self.active = self.active or not self.start
            else:
                self.active = self.active and v not in self.stop
        else:
            self.active = (self.active and v not in self.stop) or v in self.start
        if self.gs and v in self.stop:
            self.start.clear()
            self.active = False


def _mapped(n, M, mask):
    """common handling of a mapped key in the masked transformers; returns list or None (= not mapped)"""
    v = val(n)
    h = M.get(v)
    if h is None:
        return None
    if h[0] == 'none':
        return []
    if not mask.active:
        raise Unspecified('single-node replacement met while switched off')
    return [fresh_pos(h[1])]


def ref_masked(root, M, mask):
    def node(n):
        mask.meet(val(n))
        r = _mapped(n, M, mask)
        if r is not None:
            return r
        pa = mask.active
        lists = [tuple(x for c in l for x in node(c)) for l in n[2]]
        if pa:
            return [rb(n, lists)]
        return [x for l in lists for x in l]
    return node(root)


def ref_nested_masked(root, M, mask):
    def node(n):
        mask.meet(val(n))
        r = _mapped(n, M, mask)
        if r is not None:
            return r
        kind = n[0]
        if kind not in ARITY:
            return [n] if mask.active else []
        lists = [tuple(x for c in l for x in node(c)) for l in n[2]]
        if kind == 'M':
            keep = [(cv, b) for cv, b in zip(n[3], lists[:-1]) if b]
            if not keep:
                return list(lists[-1])
            return [(n[0], n[1], tuple(b for _, b in keep) + (lists[-1],), tuple(cv for cv, _ in keep), n[4])]
        if kind == 'C':
            if not lists[0]:
                return list(lists[1])
            return [rb(n, lists)]
        if not lists[0]:
            return []
        return [rb(n, lists)]
    return node(root)


def strip(n):
    return val(n)


def positions(nodes):
    out = set()

    def walk(n):
        if n[4] is not None:
            out.add(n[4])
        for l in n[2]:
            for c in l:
                walk(c)
    for n in nodes:
        walk(n)
    return out


# ------------------------------------------------------------------ real trees
_R = {}


def _loki():
    if not _R:
        from loki import ir
        from loki.expression import symbols as sym
        from loki.frontend.source import Source
        from loki.types import Scope
        from loki.ir import transformer as tr
        _R.update(ir=ir, sym=sym, Source=Source, Scope=Scope, tr=tr, keep=[])
    return _R


def build(root):
    """real tree for a spec; returns (root object, objects in pre-order)"""
    g = _loki()
    ir, sym, Source = g['ir'], g['sym'], g['Source']
    V, L = (lambda n: sym.Variable(name=n)), sym.IntLiteral
    scope = g['Scope']()
    objs = []

    def mk(n, fresh=False):
        kind, label, lists, vals = n
        idx = len(objs)
        objs.append(None)
        kids = [tuple(mk(c, fresh) for c in l) for l in lists]
        kw = dict(label=label, source=None if fresh else Source(lines=(1, 1)))
        if kind in LEAF_ASSIGN:
            lhs, rhs = LEAF_ASSIGN[kind]
            o = ir.Assignment(lhs=V(lhs), rhs=L(rhs), **kw)
        elif kind == 'c':
            o = ir.Comment(text='! c', **kw)
        elif kind == 'f':
            o = ir.CallStatement(name=V('f'), arguments=(), **kw)
        elif kind == 'L':
            o = ir.Loop(variable=V('i'), bounds=sym.LoopRange((L(1), L(2))), body=kids[0], **kw)
        elif kind == 'S':
            o = ir.Section(body=kids[0], **kw)
        elif kind == 'X':
            o = ir.Associate(associations=((V('x'), V('y')),), body=kids[0], parent=scope, **kw)  # pylint: disable=unexpected-keyword-arg
        elif kind == 'C':
            o = ir.Conditional(condition=V('flag'), body=kids[0], else_body=kids[1], **kw)
        elif kind == 'M':
            o = ir.MultiConditional(expr=V('k'), values=tuple((L(v),) for v in vals), bodies=tuple(kids[:-1]),
                                    else_body=kids[-1], **kw)
        else:
            raise ValueError(kind)
        objs[idx] = o
        return o
    r = mk(root)
    return r, objs, scope, mk


_REV_ASSIGN = {(v[0], v[1]): k for k, v in LEAF_ASSIGN.items()}
BAD = lambda what: (f'BAD:{what}', None, (), ())   # noqa: E731
EMPTYTUPLE = ('EMPTYTUPLE', None, (), ())


def _is_empty_nest(x):
    return isinstance(x, (tuple, list)) and all(_is_empty_nest(y) for y in x)


def mirror(o):
    """nested-tuple mirror (kind, label, lists, vals) of a real node; anything unexpected becomes visible"""
    ir = _R['ir']
    if not isinstance(o, ir.Node):
        return BAD(type(o).__name__)

    def ml(body):
        if not isinstance(body, tuple):
            return (BAD('LIST-' + type(body).__name__),)
        return tuple(mirror(c) if not isinstance(c, (tuple, list)) else (EMPTYTUPLE if _is_empty_nest(c) else nest(c))
                     for c in body)

    def nest(c):
        # a tuple inside a body (never legal): keep its flattened content so that it can be compared modulo nesting
        flat = []

        def walk(x):
            for y in x:
                if isinstance(y, (tuple, list)):
                    walk(y)
                else:
                    flat.append(mirror(y))
        walk(c)
        return ('NEST', None, (tuple(flat),), ())
    t = type(o)
    try:
        if t is ir.Assignment:
            k = _REV_ASSIGN.get((o.lhs.name, o.rhs.value), None) or f'?{o.lhs}={o.rhs}'
            return (k, o.label, (), ())
        if t is ir.Comment:
            return ('c' if o.text == '! c' else f'?c{o.text}', o.label, (), ())
        if t is ir.CallStatement:
            ok = o.name.name == 'f' and o.arguments == () and o.kwarguments == ()
            return ('f' if ok else f'?f{o.name}{o.arguments}{o.kwarguments}', o.label, (), ())
        if t is ir.Loop:
            ok = o.variable.name == 'i' and o.bounds.start.value == 1 and o.bounds.stop.value == 2 and o.bounds.step is None
            return ('L' if ok else f'?L{o.variable}={o.bounds}', o.label, (ml(o.body),), ())
        if t is ir.Section:
            return ('S', o.label, (ml(o.body),), ())
        if t is ir.Associate:
            ok = len(o.associations) == 1 and o.associations[0][0].name == 'x' and o.associations[0][1].name == 'y'
            return ('X' if ok else f'?X{o.associations}', o.label, (ml(o.body),), ())
        if t is ir.Conditional:
            ok = o.condition.name == 'flag'
            return ('C' if ok else f'?C{o.condition}', o.label, (ml(o.body), ml(o.else_body)), ())
        if t is ir.MultiConditional:
            vals = tuple(v[0].value if len(v) == 1 else f'?{v}' for v in o.values)
            ok = o.expr.name == 'k'
            bodies = o.bodies if isinstance(o.bodies, tuple) else (o.bodies,)
            return ('M' if ok else f'?M{o.expr}', o.label, tuple(ml(b) for b in bodies) + (ml(o.else_body),), vals)
    except (AttributeError, TypeError, IndexError) as e:
        return (f'?{t.__name__}:{type(e).__name__}', getattr(o, 'label', None), (), ())
    return (f'?{t.__name__}', getattr(o, 'label', None), (), ())


def mirror_result(res):
    """result of visit(): node, tuple (possibly nested), or None -> tuple of mirrors"""
    ir = _R['ir']
    if res is None:
        return ()
    if isinstance(res, ir.Node):
        return (mirror(res),)
    if isinstance(res, (tuple, list)):
        out = ()
        for x in res:
            out += mirror_result(x)
        return out
    return (BAD(type(res).__name__),)


def opaque_scoped(m):
    if m[0] == 'X':
        return ('X*', None, (), ())
    return (m[0], m[1], tuple(tuple(opaque_scoped(c) for c in l) for l in m[2]), m[3])


def result_ids(res):
    ir = _R['ir']
    ids = set()

    def walk(o):
        if isinstance(o, ir.Node):
            ids.add(id(o))
            for f in ('body', 'else_body', 'bodies'):
                if hasattr(o, f):
                    walk(getattr(o, f))
        elif isinstance(o, (tuple, list)):
            for x in o:
                walk(x)
    walk(res)
    return ids


# -- the root causes already known on the pinned tree, as transformations of the mirror ---------------------
def without_empty_case_bodies(m):
    """both sides modulo RC1: every empty body of a MultiConditional removed"""
    lists = tuple(tuple(without_empty_case_bodies(c) for c in l) for l in m[2])
    if m[0] == 'M':
        lists = tuple(b for b in lists[:-1] if b) + (lists[-1],)
    return (m[0], m[1], lists, m[3])


def drop_empty_tuples(m):
    """RC4 seen from the result side: bodies that contain nested tuples (empty ones vanish, others are spliced)"""
    lists = []
    for l in m[2]:
        out = []
        for c in l:
            if c == EMPTYTUPLE:
                continue
            if c[0] == 'NEST':
                out.extend(drop_empty_tuples(x) for x in c[2][0])
            else:
                out.append(drop_empty_tuples(c))
        lists.append(tuple(out))
    return (m[0], m[1], tuple(lists), m[3])


SIG_RC1 = ('result: visit_tuple strips the empty bodies of a MultiConditional, its `values` and `bodies` no longer line up '
           '(minimal: Transformer({}) on SELECT CASE with an empty CASE body)')
SIG_RC2 = ('exception:RecursionError: NestedMaskedTransformer with a Conditional/MultiConditional key in its mapper recurses '
           'forever (visit_Conditional -> super().visit(o) -> visit_Conditional)')
SIG_RC3 = ('NestedMaskedTransformer treats an Associate with MaskedTransformer.visit_ScopedNode instead of as an InternalNode '
           '(empty Associate kept, Associate dropped although a child is kept, associations leak into the parent body -> '
           'ValidationError); the same tree with a Section instead passes')
SIG_RC4 = ('result: a body updated in place (Associate, or any node with inplace=True) keeps the nested tuples that a '
           'switched-off child returns; bodies are no longer flat tuples of nodes')
FIXED = (SIG_RC1, SIG_RC2, SIG_RC3, SIG_RC4)


# ------------------------------------------------------------------ one case
def case_key(case):
    return repr(sorted(case.items()))


def run_case(case):
    st, cat, det, _ = execute(case)
    return st, cat, det


def execute(case, classify=True):
    """case: dict(tree=spec, cls, mapping=[[pos, target], ...], inplace, rebuild_scopes, invalidate_source,
                  start=[pos], stop=[pos], active, ras, gs)
    Returns (status, category, detail, fixed signatures): status in ok | unspecified | refused | violation."""
    import sys
    g = _loki()
    tr = g['tr']
    spec = case['tree']
    cls = case['cls']
    root, objs, scope, mk = build(spec)
    pnodes = preorder(positioned(spec))
    mapping = case.get('mapping') or []
    # the real mapper and the reference mapping (dict semantics: later entry of an equal key wins)
    mapper, M = {}, {}
    for j, (pos, target) in enumerate(mapping):
        key = objs[pos]
        kv = val(pnodes[pos])
        ts = target_spec(target, kv, j)
        M[kv] = ts
        if ts[0] == 'none':
            mapper[key] = None
        elif ts[0] == 'node':
            if target == 'relabel':
                mapper[key] = key._rebuild(label='7')  # pylint: disable=protected-access
            else:
                mapper[key] = mk(ts[1], fresh=True)
        else:
            mapper[key] = tuple(key if x == kv else mk(x, fresh=True) for x in ts[1])
    del objs[len(pnodes):]
    inplace = bool(case.get('inplace'))
    if inplace:
        # in-place updates legitimately mutate the key / start / stop object itself (e.g. its source status), after which
        # equal-by-value duplicates met later no longer compare equal to it: by-value matching of duplicates is not
        # defined under inplace
        vals = [val(n) for n in pnodes]
        marked = list(M) + [vals[p] for p in (case.get('start') or []) + (case.get('stop') or [])]
        if any(vals.count(v) > 1 for v in marked):
            return ('unspecified', None, '', ())
    kwargs = dict(mapper=mapper, inplace=inplace, invalidate_source=bool(case.get('invalidate_source', True)))
    proot = pnodes[0]
    try:
        if cls in ('T', 'N'):
            rs = bool(case.get('rebuild_scopes'))
            t = (tr.Transformer if cls == 'T' else tr.NestedTransformer)(rebuild_scopes=rs, **kwargs)
            ref = (ref_transformer if cls == 'T' else ref_nested)(proot, M)
        else:
            rs = True
            start = [objs[p] for p in case.get('start') or []]
            stop = [objs[p] for p in case.get('stop') or []]
            t = (tr.MaskedTransformer if cls == 'M' else tr.NestedMaskedTransformer)(
                start=start, stop=stop, active=bool(case.get('active')), require_all_start=bool(case.get('ras')),
                greedy_stop=bool(case.get('gs')), **kwargs)
            mask = Mask([val(pnodes[p]) for p in case.get('start') or []], [val(pnodes[p]) for p in case.get('stop') or []],
                        bool(case.get('active')), bool(case.get('ras')), bool(case.get('gs')))
            ref = (ref_masked if cls == 'M' else ref_nested_masked)(proot, M, mask)
    except Unspecified:
        return ('unspecified', None, '', ())
    exp = tuple(strip(x) for x in ref)
    exptxt = " ".join(text(x) for x in exp) or "(nothing)"
    snap0 = mirror(root)

    def x_specific():
        """RC3: NestedMaskedTransformer, an Associate in the tree, and the same case with Sections instead passes"""
        if not (classify and cls == 'NM' and any(n[0] == 'X' for n in pnodes)):
            return False
        alt = dict(case, tree=_swap_kind(spec, 'X', 'S'))
        return execute(alt, classify=False)[0] in ('ok', 'unspecified')

    def empty_case_specific():
        """RC1 by differential: the same case with a filler statement in every empty CASE body passes"""
        if not classify:
            return False
        f = fill_empty_case_bodies(spec)
        if f is None:
            return False
        return execute(_renumber(case, *f), classify=False)[0] in ('ok', 'unspecified')

    old = sys.getrecursionlimit()
    try:
        sys.setrecursionlimit(_depth() + RECURSION_HEADROOM)
        res = t.visit(root)
    except NotImplementedError as e:
        return ('refused', None, str(e), ())
    except RecursionError as e:
        sys.setrecursionlimit(old)
        fixed = ()
        if cls == 'NM' and any(k[0] in ('C', 'M') for k in M):
            fixed = (SIG_RC2,)
        return ('violation', 'exception:RecursionError', f'RecursionError; reference result {exptxt}', fixed)
    except Exception as e:  # pylint: disable=broad-except
        sys.setrecursionlimit(old)
        msg = str(e).split('\n')[0][:160]
        return ('violation', f'exception:{type(e).__name__}', f'{type(e).__name__}: {msg}; reference result {exptxt}',
                (SIG_RC3,) if x_specific() else ())
    finally:
        sys.setrecursionlimit(old)
    got = mirror_result(res)
    if got != exp:
        fixed = ()
        if classify:
            exp1 = tuple(without_empty_case_bodies(x) for x in exp)
            got4 = tuple(drop_empty_tuples(x) for x in got)
            if tuple(without_empty_case_bodies(x) for x in got) == exp1:
                fixed = (SIG_RC1,)
            elif got4 == exp:
                fixed = (SIG_RC4,)
            elif tuple(without_empty_case_bodies(x) for x in got4) == exp1:
                fixed = (SIG_RC1, SIG_RC4)
            elif x_specific():
                fixed = (SIG_RC3,)
            elif empty_case_specific():
                fixed = (SIG_RC1,)
        return ('violation', 'result', f'result {" ".join(text(x) for x in got) or "(nothing)"}, reference {exptxt}', fixed)
    if not inplace:
        snap1 = mirror(root)
        a, b = (snap0, snap1) if rs else (opaque_scoped(snap0), opaque_scoped(snap1))
        if a != b:
            return ('violation', 'original-changed', f'original was {text(snap0)}, is now {text(snap1)}', ())
        if cls in ('T', 'N'):
            ids = result_ids(res)
            for p in sorted(positions(ref)):
                o = objs[p]
                if not rs and isinstance(o, g['ir'].Associate):
                    continue
                if o not in t.rebuilt:
                    return ('violation', 'rebuilt-missing', f'node {text(val(pnodes[p]))} at position {p} survives but has no '
                                                            f'entry in `rebuilt`', ())
                r = t.rebuilt[o]
                if type(r) is not type(o) or id(r) not in ids:
                    return ('violation', 'rebuilt-wrong', f'rebuilt[{text(val(pnodes[p]))}] is {type(r).__name__}, not a node of '
                                                          f'the new tree', ())
    else:
        if cls in ('T', 'N') and res is not root:
            return ('violation', 'inplace-root', 'with inplace=True the result is not the original root object', ())
    return ('ok', None, '', ())


def fill_empty_case_bodies(root):
    """the tree with a filler leaf `z` in every empty CASE body; returns (tree, map old pos -> new pos) or None"""
    counter = [0]
    newpos = {}
    ncount = [0]
    filled = [0]

    def walk(n):
        newpos[counter[0]] = ncount[0]
        counter[0] += 1
        ncount[0] += 1
        lists = []
        for j, l in enumerate(n[2]):
            if n[0] == 'M' and j < len(n[2]) - 1 and not l:
                ncount[0] += 1
                filled[0] += 1
                lists.append((leaf('z'),))
            else:
                lists.append(tuple(walk(c) for c in l))
        return (n[0], n[1], tuple(lists), n[3])
    t = walk(root)
    return (t, newpos) if filled[0] else None


RECURSION_HEADROOM = 160     # the deepest legitimate traversal of a 5-level tree needs ~70 frames


def _depth():
    import sys
    f, d = sys._getframe(), 0  # pylint: disable=protected-access
    while f is not None:
        d += 1
        f = f.f_back
    return d


def _swap_kind(n, old, new):
    return (new if n[0] == old else n[0], n[1], tuple(tuple(_swap_kind(c, old, new) for c in l) for l in n[2]), n[3])


# ------------------------------------------------------------------ shrinking -> signature
_MEMO = {}


def _category(case):
    k = case_key(case)
    if k not in _MEMO:
        if len(_MEMO) > 200000:
            _MEMO.clear()
        st, cat, _, fixed = execute(case)
        _MEMO[k] = (cat, fixed) if st == 'violation' else None
    return _MEMO[k]


def hoist_pos(root, pos):
    """tree in which the internal node at pos is replaced by the concatenation of its bodies;
    returns (tree, map old pos -> new pos)"""
    counter = [0]
    newpos = {}
    ncount = [0]

    def walk(n):
        p = counter[0]
        counter[0] += 1
        if p == pos:
            out = []
            for l in n[2]:
                for c in l:
                    out.extend(walk(c))
            return out
        newpos[p] = ncount[0]
        ncount[0] += 1
        lists = tuple(tuple(x for c in l for x in walk(c)) for l in n[2])
        return [(n[0], n[1], lists, n[3])]
    return walk(root)[0], newpos


def _renumber(case, t2, newpos):
    c = dict(case, tree=t2)
    c['mapping'] = [[newpos[p], t] for p, t in (case.get('mapping') or []) if p in newpos]
    for fl in ('start', 'stop'):
        if case.get(fl):
            c[fl] = [newpos[p] for p in case[fl] if p in newpos]
    return c


def _candidates(case):
    spec = case['tree']
    nodes = preorder(spec)
    n = len(nodes)
    # drop mapping entries / simplify targets / reset flags first (cheap, keeps the tree)
    mapping = case.get('mapping') or []
    for i in range(len(mapping)):
        yield dict(case, mapping=mapping[:i] + mapping[i + 1:])
    for i, (p, t) in enumerate(mapping):
        if t != 'none':
            yield dict(case, mapping=mapping[:i] + [[p, 'none']] + mapping[i + 1:])
    for fl in ('inplace', 'rebuild_scopes', 'active', 'ras', 'gs'):
        if case.get(fl):
            yield dict(case, **{fl: False})
    if case.get('invalidate_source', True) is False:
        yield dict(case, invalidate_source=True)
    for fl in ('start', 'stop'):
        lst = case.get(fl) or []
        for i in range(len(lst)):
            yield dict(case, **{fl: lst[:i] + lst[i + 1:]})
    # remove a node (with its subtree) / replace an internal node by its children
    for pos in range(n - 1, 0, -1):
        yield _renumber(case, *remove_pos(spec, pos))
    for pos in range(1, n):
        if nodes[pos][0] in ARITY and any(nodes[pos][2]):
            yield _renumber(case, *hoist_pos(spec, pos))
    # canonical kinds: leaves -> a, single-body internal nodes -> L
    for pos in range(1, n):
        if nodes[pos][0] in ('b', 'c', 'f'):
            yield dict(case, tree=replace_kind(spec, pos, 'a'))
        if nodes[pos][0] in ('S', 'X'):
            yield dict(case, tree=replace_kind(spec, pos, 'L'))


def shrink_case(case, cat, budget=120):
    n = 0
    progress = True
    while progress and n < budget:
        progress = False
        for c in _candidates(case):
            n += 1
            if n > budget:
                break
            r = _category(c)
            if r is not None and r[0] == cat and not r[1]:
                case = c
                progress = True
                break
    return case


def case_text(case):
    s = f"{case['cls']} tree={text(case['tree'])}"
    nodes = preorder(case['tree'])
    if case.get('mapping'):
        s += ' map={' + ', '.join(f'{text(nodes[p])}#{p}: {t}' for p, t in case['mapping']) + '}'
    for fl in ('start', 'stop'):
        if case.get(fl):
            s += f' {fl}=[' + ', '.join(f'{text(nodes[p])}#{p}' for p in case[fl]) + ']'
    for fl in ('inplace', 'rebuild_scopes', 'active', 'ras', 'gs'):
        if case.get(fl):
            s += f' {fl}'
    if case.get('invalidate_source', True) is False:
        s += ' invalidate_source=False'
    return s


def case_size(case):
    return (len(preorder(case['tree'])), len(case.get('mapping') or []), len(case.get('start') or []) +
            len(case.get('stop') or []), sum(bool(case.get(f)) for f in ('inplace', 'rebuild_scopes', 'active', 'ras', 'gs')),
            case_text(case))


# ------------------------------------------------------------------ enumeration of the cases of one tree
_CFG = {}


def distinct_positions(spec):
    """one position per distinct node value (the root excluded)"""
    seen, out = set(), []
    for p, n in enumerate(preorder(spec)):
        if p == 0 or n in seen:
            continue
        seen.add(n)
        out.append(p)
    return out


def subsets(items, k):
    for r in range(0, k + 1):
        yield from (list(c) for c in itertools.combinations(items, r))


def cases_of(item, cfg):
    spec, mode = item
    nodes = preorder(spec)
    n = len(nodes) - 1
    keys = distinct_positions(spec)
    has_scoped = any(x[0] == 'X' for x in nodes)
    for cls, targets in (('T', T_TARGETS), ('N', N_TARGETS)):
        c = cfg[cls] if mode == 'full' else cfg['extra4'][cls]
        if n > c['maxn']:
            continue
        maps = [[]]
        maps += [[[p, t]] for p in keys for t in targets]
        if n <= c['maxn2']:
            t2 = [t for t in targets if t not in c.get('skip2', ())]
            maps += [[[p1, a], [p2, b]] for p1, p2 in itertools.combinations(keys, 2) for a in t2 for b in t2]
        flagsets = [dict(inplace=ip, rebuild_scopes=rs, invalidate_source=isrc)
                    for ip in (False, True) for rs in ((False, True) if has_scoped else (False,))
                    for isrc in ((True, False) if n <= cfg['isrc_maxn'] else (True,))]
        for m in maps:
            for fl in flagsets:
                yield dict(tree=spec, cls=cls, mapping=m, **fl)
    if mode != 'full':
        return
    c = cfg['M']
    for cls in ('M', 'NM'):
        if n > c['maxn']:
            continue
        allpos = list(range(1, n + 1))
        k = c['subset'] if n <= c['subset_maxn'] else 1
        for start in subsets(allpos, k):
            for stop in subsets(allpos, k):
                for active in (False, True):
                    for ras in (False, True):
                        for gs in (False, True):
                            base = dict(tree=spec, cls=cls, start=start, stop=stop, active=active, ras=ras, gs=gs)
                            yield dict(base, mapping=[])
                            if n <= c['map_maxn'] and len(start) <= 1 and len(stop) <= 1:
                                for p in keys:
                                    for t in M_TARGETS:
                                        yield dict(base, mapping=[[p, t]])
                                if c.get('inplace'):
                                    yield dict(base, mapping=[], inplace=True)


def work_tree(item):
    cfg = _CFG
    _loki()
    stats = dict(cases=0, ok=0, unspecified=0, refused=0, violations=0, changed=0, by_cls={})
    found = {}     # signature -> [count, smallest case, detail]

    def record(sig, case, det):
        e = found.get(sig)
        if e is None:
            found[sig] = [1, case, det]
        else:
            e[0] += 1
            if case_size(case) < case_size(e[1]):
                e[1], e[2] = case, det
    for case in cases_of(item, cfg):
        stats['cases'] += 1
        st, cat, det, fixed = execute(case)
        stats['by_cls'][case['cls']] = stats['by_cls'].get(case['cls'], 0) + 1
        if st == 'ok':
            stats['ok'] += 1
            if case.get('mapping') or case['cls'] in ('M', 'NM'):
                stats['changed'] += 1
            continue
        if st in ('unspecified', 'refused'):
            stats[st] += 1
            continue
        stats['violations'] += 1
        if fixed:
            for sig in fixed:
                record(sig, case, det)
            continue
        _MEMO[case_key(case)] = (cat, ())
        core = shrink_case(case, cat)
        st2, cat2, det2, _ = execute(core)
        record(f'{cat}: {case_text(core)}', core, det2 if st2 == 'violation' else det)
    return stats, found


FULL = dict(leaves=('a', 'b', 'c', 'f'), internals=('L', 'S', 'X', 'C', 'M'))


def config(quick):
    if quick:
        return dict(FULL, maxn=3, isrc_maxn=2,
                    T=dict(maxn=3, maxn2=2), N=dict(maxn=3, maxn2=2),
                    M=dict(maxn=2, subset=2, subset_maxn=2, map_maxn=2, inplace=False), extra4=None)
    return dict(FULL, maxn=3, isrc_maxn=2,
                T=dict(maxn=3, maxn2=3, skip2=('relabel',)), N=dict(maxn=3, maxn2=3),
                M=dict(maxn=3, subset=2, subset_maxn=2, map_maxn=2, inplace=True),
                extra4=dict(leaves=('a', 'b'), internals=('L', 'X', 'C'), n=4,
                            T=dict(maxn=4, maxn2=0), N=dict(maxn=4, maxn2=0)))


def work_items(cfg):
    items = [(r, 'full') for r in all_roots(cfg['maxn'], cfg['leaves'], cfg['internals'])]
    x = cfg.get('extra4')
    if x:
        items += [(inner('S', [f]), 'extra4') for f in _forests(x['n'], x['leaves'], x['internals'])]
    return items


def run(ctx):
    import logging
    logging.disable(logging.CRITICAL)
    cfg = config(ctx.quick)
    _CFG.clear()
    _CFG.update(cfg)
    ctx.reset_pool()
    roots = seeded_order(work_items(cfg), ctx.seed)
    total = dict(cases=0, ok=0, unspecified=0, refused=0, violations=0, changed=0)
    by_cls = {}
    sigs = {}
    for stats, found in ctx.pmap(work_tree, roots, chunksize=4, ordered=False):
        for k in total:
            total[k] += stats[k]
        for k, v in stats['by_cls'].items():
            by_cls[k] = by_cls.get(k, 0) + v
        for sig, (cnt, case, det) in found.items():
            e = sigs.get(sig)
            if e is None:
                sigs[sig] = [cnt, case, det]
            else:
                e[0] += cnt
                if case_size(case) < case_size(e[1]):
                    e[1], e[2] = case, det
    for sig in sorted(sigs):
        cnt, case, det = sigs[sig]
        ctx.violation(sig, case, f'{case_text(case)}: {det}  [{cnt} enumerated cases with this signature]')
    ctx.require(total['changed'] > total['cases'] // 4, f'vacuity: only {total["changed"]} non-identity cases passed')
    ctx.require(all(by_cls.get(c, 0) > 0 for c in ('T', 'N', 'M', 'NM')), f'vacuity: a transformer class was never run: {by_cls}')
    ctx.cov.update(
        evaluations=total['cases'], distinct_nontrivial=total['changed'], exhaustive=True,
        rule='every root Section over every forest with <= maxn nodes of the full alphabet (+ in thorough every forest with '
             'exactly 4 nodes over the reduced alphabet `extra4`); Transformer/NestedTransformer: every mapping over <= 1 key '
             '(<= 2 keys for trees up to maxn2 nodes), one key per distinct node value, all target shapes, inplace x '
             'rebuild_scopes (only if a scoped node is present) x invalidate_source (trees up to isrc_maxn); '
             'MaskedTransformer/NestedMaskedTransformer (trees up to M.maxn): start/stop over all position subsets up to '
             'M.subset (1 above subset_maxn nodes), active x require_all_start x greedy_stop, optional single-key mapping '
             '(None / fresh leaf); non-trivial = a case with a non-empty mapping or a mask that passed the oracle',
        samples=[dict(tree=text(roots[0][0]), cls='T', mapping=[]),
                 dict(tree='S[a L[a b]]', cls='T', mapping=[[1, 'key_n1'], [4, 'none']]),
                 dict(tree='S[M[a|b|]]', cls='NM', start=[3], stop=[], ras=True)],
        bound=dict(cfg, trees=len(roots)),
        cases_by_class=by_cls, unspecified=total['unspecified'], refused=total['refused'],
        violating_cases_total=total['violations'],
        violating_cases_by_signature=dict(sorted(((k[:100], v[0]) for k, v in sigs.items()), key=lambda kv: -kv[1])[:40]),
    )
    ctx.assumptions += [
        'value equality of IR nodes (dataclass equality) decides whether a node is a key / start / stop node, as in a dict',
        'NestedTransformer is only judged on None and relabelled-copy handles (its documented use); other handle shapes are '
        'outside the enumerated space',
        'a single-node replacement met while a masked transformer is switched off is not judged (documentation conflict)',
        'with inplace=True a key / start / stop node that has an equal-by-value duplicate in the tree is not judged',
        'source objects are not compared (invalidate_source only selects the code path)',
    ]


def replay(case):
    import logging
    logging.disable(logging.CRITICAL)
    case = dict(case)
    case['tree'] = _tuplify(case['tree'])
    st, cat, det, _ = execute(case)
    return f'{cat}: {det}' if st == 'violation' else None


def _tuplify(x):
    if isinstance(x, list):
        return tuple(_tuplify(y) for y in x)
    return x
