"""C37  Single-column (SCC) pipelines preserve driver and kernel results.

ENUM (deviation-bounded) + gfortran differential.  A driver (block loop calling a kernel) + kernel
(+ nested vector-level kernel `inner`, + nested per-column routine `inner_col` marked `!$loki routine seq`)
is assembled from feature blocks, written to a scratch directory, processed by a *real* `Scheduler`
(SchedulerConfig: default role kernel, routine `driver` role driver, stub module `parkind1` ignored and passed
as `definitions`, as in the repository's own SCC / allocator tests) with one of the four SCC pipelines
(`directive` left at its default False: plain Fortran, `!$loki` pragmas stay comments), and the processed routines are built with
gfortran -O0 -fcheck=bounds against the same harness-owned PROGRAM as the original.

Switches - one per branch visible in loki/transformations/single_column/*.py:
  base                explicit horizontal loop (RemoveLoopTransformer / extract_vector_sections / wrap_vector_section)
  vecnot              horizontal range `q(start:end, k)` statement (SCCBase -> resolve_vector_dimension); base+vecnot = both forms
  vecnot_tmp_full     `zv(:) = ..` on a horizontal *local* array (full-range on the horizontal; elements outside
                      start:end are never read, so restricting the range is invisible)
  vert_outside        vertical loop around the horizontal loop, recurrence q(jl,jk) <- q(jl,jk-1)
  vert_inside         horizontal loop around the vertical loop, same recurrence
  tmp1                rank-1 horizontal temporary used in two loops of one vector section (SCCDemote: demoted)
  tmp1_buf            rank-1 horizontal temporary written before and read after a nested kernel call (not demotable)
  tmp2                rank-2 temporary (nlon, nz) (not demotable; hoisted by the Hoist pipelines)
  tmp2_const          rank-2 temporary (nlon, 2) (demotable to a 2-element array: `is_dimension_constant` branch)
  scalar_tmp          scalar temporary assigned and used inside the horizontal loop
  scalar_update       horizontal-invariant scalar initialised as the first statement of the kernel and updated
                      (`zc = zc + 1`) *between* two horizontal loops further down
  branch_inv          IF on a horizontal-invariant condition with horizontal loops in both branches
  branch_var          IF on a horizontal-variant condition inside the horizontal loop
  multicond           SELECT CASE on an invariant with horizontal loops in the cases (MultiConditional separator branch)
  call_outside        nested vector-level kernel called between horizontal loops (call = section separator)
  call_in_branch      nested kernel call inside an invariant IF (separator = outermost enclosing conditional)
  call_inside_seq     per-column routine marked `!$loki routine seq` called inside the horizontal loop
  bounds_dt           horizontal bounds passed through a derived type (dims%ist, dims%iend: bounds_aliases)
  size_alias          kernel declares the horizontal size under the alias `nproma`
  driver_hloop        the driver block loop contains its own horizontal loop next to the call (driver vector section)
  driver_assoc        driver wraps the block loop in ASSOCIATE (SCCBase.process_driver resolves associates)
  call_twice          kernel called twice in the block loop
  upper_case          a horizontal loop spelled in upper case (case-insensitive index / bound matching)
  vfuse               two vertical loops marked `!$loki loop-fusion` sharing a (nlon,nz) temporary (SCCFuseVerticalLoops)

Variants: {SCCVVector, SCCSVector, SCCVHoist, SCCSHoist} x {default, trim_vector_sections=True, demote_local_arrays=False}
+ {SCCVHoist, SCCSHoist} x {as_kwarguments=True} (hoisted temporaries passed by keyword).
Bounds: quick = every combination of <= 1 switch x all 14 variants; thorough = every combination of <= 2 switches x the
4 pipelines with default options + the quick set.
Dimension configuration (as in loki/transformations/single_column/tests): horizontal(size nlon, alias nproma, index jl,
bounds (start,end), bounds_aliases (dims%ist, dims%iend)), vertical(size nz, index jk), block_dim(size nb, index b).

Only *single-column* programs are generated (no dependence between different jl, every write confined to
start:end), which is the documented domain of the SCC transformations; the input grid has start>1 and end<nlon.
Oracle: the statement literally - same printed outputs (every element of every output array, ES formats, exact
dyadic reals) for original and transformed call tree.  Explicit refusals are counted, not violations.
"""
from vf import xform, sccgen
from vf.explore import deviations

PROPERTY = 'C37'
LEVEL = 'exploration'
META = dict(
    engine='enum',
    technique='deviation-bounded exhaustive template enumeration x SCC pipeline variants through a real Scheduler; '
              'gfortran differential run (original vs transformed call tree)',
    level_text='all combinations of <= d SCC feature switches x {SCCVVector, SCCSVector, SCCVHoist, SCCSHoist} x '
               '{default, trim_vector_sections, no demotion}: transformed call tree builds as plain Fortran and prints '
               'exactly the original output on every input of the grid; exhaustive for d',
    level_note='gfortran 12 -O0 -fcheck=bounds is the semantics; exact dyadic reals; only single-column programs '
               '(no cross-column dependence) following the conventions of the repository SCC tests; Scheduler '
               'discovery/enrichment is part of the system under test',
)

DIMS = '''module dims_mod
  use parkind1, only: jpim
  implicit none
  type dims_type
    integer(kind=jpim) :: ist, iend
  end type dims_type
end module dims_mod
'''

# ---------------------------------------------------------------------------------------------- kernel blocks
# each block: (declarations, body[, prologue]); placeholders {lo} {hi} {nl} {bargs} (bounds actual args for nested calls)
BLOCKS = {
    'vecnot': ('', '''    q({lo}:{hi}, 2) = q({lo}:{hi}, 2) + a({lo}:{hi}) * 2.0_jprb
'''),
    'vecnot_tmp_full': ('    real(kind=jprb) :: zv({nl})\n', '''    zv(:) = 1.5_jprb
    do jl = {lo}, {hi}
      q(jl, 1) = q(jl, 1) + zv(jl) * a(jl)
    end do
'''),
    'vert_outside': ('', '''    do jk = 2, nz
      do jl = {lo}, {hi}
        q(jl, jk) = q(jl, jk - 1) * 0.5_jprb + q(jl, jk) + a(jl)
      end do
    end do
'''),
    'vert_inside': ('', '''    do jl = {lo}, {hi}
      do jk = 2, nz
        q(jl, jk) = q(jl, jk) + q(jl, jk - 1) * 0.25_jprb
      end do
    end do
'''),
    'tmp1': ('    real(kind=jprb) :: zt({nl})\n', '''    do jl = {lo}, {hi}
      zt(jl) = a(jl) * 2.0_jprb + q(jl, 1)
    end do
    do jl = {lo}, {hi}
      q(jl, nz) = q(jl, nz) + zt(jl)
    end do
'''),
    'tmp1_buf': ('    real(kind=jprb) :: zb({nl})\n', '''    do jl = {lo}, {hi}
      zb(jl) = q(jl, 2) * 0.5_jprb
    end do
    call inner({bargs}, {nl}, nz, q)
    do jl = {lo}, {hi}
      q(jl, 1) = q(jl, 1) + zb(jl)
    end do
'''),
    'tmp2': ('    real(kind=jprb) :: zt2({nl}, nz)\n', '''    do jk = 1, nz
      do jl = {lo}, {hi}
        zt2(jl, jk) = q(jl, jk) * 0.5_jprb + a(jl)
      end do
    end do
    do jk = 1, nz
      do jl = {lo}, {hi}
        q(jl, jk) = q(jl, jk) + zt2(jl, nz + 1 - jk)
      end do
    end do
'''),
    'tmp2_const': ('    real(kind=jprb) :: zt3({nl}, 2)\n', '''    do jl = {lo}, {hi}
      zt3(jl, 1) = a(jl) * 0.5_jprb
      zt3(jl, 2) = q(jl, 1) - a(jl)
      q(jl, 2) = q(jl, 2) + zt3(jl, 1) * 2.0_jprb - zt3(jl, 2)
    end do
'''),
    'scalar_tmp': ('    real(kind=jprb) :: zs\n', '''    do jl = {lo}, {hi}
      zs = a(jl) * 0.25_jprb + q(jl, 2)
      q(jl, 1) = q(jl, 1) + zs * 2.0_jprb
    end do
'''),
    'scalar_update': ('    real(kind=jprb) :: zc\n', '''    do jl = {lo}, {hi}
      q(jl, 1) = q(jl, 1) + zc
    end do
    zc = zc + 1.0_jprb
    do jl = {lo}, {hi}
      q(jl, 2) = q(jl, 2) + zc
    end do
''', '''    zc = 0.5_jprb
'''),
    'branch_inv': ('', '''    if (nz > 3) then
      do jl = {lo}, {hi}
        q(jl, 2) = q(jl, 2) + 4.0_jprb
      end do
    else
      do jl = {lo}, {hi}
        q(jl, 2) = q(jl, 2) - a(jl)
      end do
    end if
'''),
    'branch_var': ('', '''    do jl = {lo}, {hi}
      if (a(jl) > 1.0_jprb) then
        q(jl, 1) = q(jl, 1) * 2.0_jprb
      else
        q(jl, 1) = q(jl, 1) - 0.5_jprb
      end if
    end do
'''),
    'multicond': ('', '''    select case (nz)
    case (3)
      do jl = {lo}, {hi}
        q(jl, 3) = q(jl, 3) + 1.0_jprb
      end do
    case (4, 5)
      do jl = {lo}, {hi}
        q(jl, 3) = q(jl, 3) * 0.5_jprb
      end do
    case default
      do jl = {lo}, {hi}
        q(jl, 1) = 0.0_jprb
      end do
    end select
'''),
    'call_outside': ('', '''    call inner({bargs}, {nl}, nz, q)
    do jl = {lo}, {hi}
      q(jl, nz) = q(jl, nz) * 0.5_jprb
    end do
'''),
    'call_in_branch': ('', '''    if (nz > 3) then
      do jl = {lo}, {hi}
        q(jl, 2) = q(jl, 2) + 0.25_jprb
      end do
      call inner({bargs}, {nl}, nz, q)
    end if
'''),
    'call_inside_seq': ('', '''    do jl = {lo}, {hi}
      call inner_col(nz, a(jl), q(jl, :))
    end do
'''),
    'upper_case': ('', '''    DO JL = {LO}, {HI}
      Q(JL, 1) = Q(JL, 1) + A(JL) * 0.25_JPRB
    END DO
'''),
    'vfuse': ('    real(kind=jprb) :: zf({nl}, nz)\n', '''    !$loki loop-fusion group(g1)
    do jk = 1, nz
      do jl = {lo}, {hi}
        zf(jl, jk) = q(jl, jk) * 0.5_jprb
      end do
    end do
    !$loki loop-fusion group(g1)
    do jk = 1, nz
      do jl = {lo}, {hi}
        q(jl, jk) = q(jl, jk) + zf(jl, jk) + a(jl)
      end do
    end do
'''),
}
# switches that change signatures / the driver rather than adding a kernel block
STRUCTURAL = ['bounds_dt', 'size_alias', 'driver_hloop', 'driver_assoc', 'call_twice']
SWITCHES = list(BLOCKS) + STRUCTURAL
NEEDS_INNER = {'tmp1_buf', 'call_outside', 'call_in_branch'}
NEEDS_COL = {'call_inside_seq'}


def _fmt(text, sw):
    bdt = 'bounds_dt' in sw
    lo, hi = ('dims%ist', 'dims%iend') if bdt else ('start', 'end')
    return text.format(lo=lo, hi=hi, LO=lo.upper(), HI=hi.upper(), nl='nproma' if 'size_alias' in sw else 'nlon',
                       bargs='dims' if bdt else 'start, end')


def kernel_source(sw):
    bdt = 'bounds_dt' in sw
    nl = 'nproma' if 'size_alias' in sw else 'nlon'
    uses = '    use parkind1, only: jpim, jprb\n'
    if bdt:
        uses += '    use dims_mod, only: dims_type\n'
    if sw & NEEDS_INNER:
        uses += '    use inner_mod, only: inner\n'
    if sw & NEEDS_COL:
        uses += '    use inner_col_mod, only: inner_col\n'
    decl = '    type(dims_type), intent(in) :: dims\n' if bdt else '    integer(kind=jpim), intent(in) :: start, end\n'
    decl += f'''    integer(kind=jpim), intent(in) :: {nl}, nz
    real(kind=jprb), intent(in) :: a({nl})
    real(kind=jprb), intent(inout) :: q({nl}, nz)
    integer(kind=jpim) :: jl, jk
'''
    body = '''    do jl = {lo}, {hi}
      q(jl, 1) = q(jl, 1) + a(jl) * 0.5_jprb
    end do
'''
    for k in BLOCKS:
        if k in sw:
            decl += BLOCKS[k][0]
            body += BLOCKS[k][1]
            if len(BLOCKS[k]) > 2:          # prologue: first executable statements of the kernel
                body = BLOCKS[k][2] + body
    args = ('dims' if bdt else 'start, end') + f', {nl}, nz, a, q'
    return _fmt(f'''module kernel_mod
  implicit none
contains
  subroutine kernel({args})
{uses}    implicit none
{decl}{body}  end subroutine kernel
end module kernel_mod
''', sw)


def inner_source(sw):
    bdt = 'bounds_dt' in sw
    uses = '    use parkind1, only: jpim, jprb\n' + ('    use dims_mod, only: dims_type\n' if bdt else '')
    decl = '    type(dims_type), intent(in) :: dims\n' if bdt else '    integer(kind=jpim), intent(in) :: start, end\n'
    args = ('dims' if bdt else 'start, end') + ', nlon, nz, q'
    sw2 = sw - {'size_alias'}
    return _fmt(f'''module inner_mod
  implicit none
contains
  subroutine inner({args})
{uses}    implicit none
{decl}    integer(kind=jpim), intent(in) :: nlon, nz
    real(kind=jprb), intent(inout) :: q(nlon, nz)
    real(kind=jprb) :: zi(nlon, nz)
    integer(kind=jpim) :: jl, jk
    do jk = 2, nz
      do jl = {{lo}}, {{hi}}
        zi(jl, jk) = q(jl, jk - 1) * 0.5_jprb
        q(jl, jk) = q(jl, jk) + zi(jl, jk)
      end do
    end do
    do jl = {{lo}}, {{hi}}
      q(jl, 1) = q(jl, 1) + zi(jl, nz)
    end do
  end subroutine inner
end module inner_mod
''', sw2)


INNER_COL = '''module inner_col_mod
  implicit none
contains
  subroutine inner_col(nz, x, col)
    use parkind1, only: jpim, jprb
    implicit none
    !$loki routine seq
    integer(kind=jpim), intent(in) :: nz
    real(kind=jprb), intent(in) :: x
    real(kind=jprb), intent(inout) :: col(nz)
    integer(kind=jpim) :: jk
    do jk = 1, nz
      col(jk) = col(jk) + x * 0.5_jprb
    end do
  end subroutine inner_col
end module inner_col_mod
'''


def driver_source(sw):
    bdt = 'bounds_dt' in sw
    uses = '    use parkind1, only: jpim, jprb\n'
    if bdt:
        uses += '    use dims_mod, only: dims_type\n'
    uses += '    use kernel_mod, only: kernel\n'
    decl = '''    integer(kind=jpim), intent(in) :: nlon, nz, nb, istart, iend
    real(kind=jprb), intent(in) :: a(nlon, nb)
    real(kind=jprb), intent(inout) :: q(nlon, nz, nb)
    integer(kind=jpim) :: b, start, end
'''
    if bdt:
        decl += '    type(dims_type) :: dims\n'
    if 'driver_hloop' in sw:
        decl += '    integer(kind=jpim) :: jl\n'
    pre = '    start = istart\n    end = iend\n'
    if bdt:
        pre += '    dims%ist = istart\n    dims%iend = iend\n'
    qn = 'x' if 'driver_assoc' in sw else 'q'
    call = f'      call kernel({"dims" if bdt else "start, end"}, nlon, nz, a(:, b), {qn}(:, :, b))\n'
    loop = ''
    if 'driver_hloop' in sw:
        loop += f'''      do jl = {{lo}}, {{hi}}
        {qn}(jl, 1, b) = {qn}(jl, 1, b) * 2.0_jprb + a(jl, b)
      end do
'''
    loop += call
    if 'call_twice' in sw:
        loop += call
    body = f'    do b = 1, nb\n{loop}    end do\n'
    if 'driver_assoc' in sw:
        body = f'    associate (x => q)\n{body}    end associate\n'
    return _fmt(f'''module driver_mod
  implicit none
contains
  subroutine driver(nlon, nz, nb, istart, iend, a, q)
{uses}    implicit none
{decl}{pre}{body}  end subroutine driver
end module driver_mod
''', sw - {'size_alias'})


PROGRAM = '''program drv
  use parkind1, only: jpim, jprb
  use driver_mod, only: driver
  implicit none
  integer(kind=jpim), parameter :: ng = 3
  integer(kind=jpim), parameter :: gnlon(ng) = (/ 4, 5, 6 /), gnz(ng) = (/ 3, 4, 5 /), gnb(ng) = (/ 2, 3, 1 /)
  integer(kind=jpim), parameter :: gs(ng) = (/ 1, 2, 2 /), ge(ng) = (/ 4, 4, 6 /)
  integer(kind=jpim) :: g, nlon, nz, nb, jl, jk, b
  real(kind=jprb), allocatable :: a(:, :), q(:, :, :)
  do g = 1, ng
    nlon = gnlon(g); nz = gnz(g); nb = gnb(g)
    allocate(a(nlon, nb), q(nlon, nz, nb))
    do b = 1, nb
      do jl = 1, nlon
        a(jl, b) = real(mod(jl * 3 + b, 5), jprb) * 0.5_jprb
        do jk = 1, nz
          q(jl, jk, b) = real(mod(jl + 2 * jk + 3 * b, 7), jprb) * 0.25_jprb - 0.5_jprb
        end do
      end do
    end do
    call driver(nlon, nz, nb, gs(g), ge(g), a, q)
    write(*, '(A,I0)') 'G', g
    do b = 1, nb
      do jk = 1, nz
        write(*, '(A,I0,1X,I0,20(1X,ES22.15))') 'Q', b, jk, q(:, jk, b)
      end do
      write(*, '(A,I0,20(1X,ES22.15))') 'A', b, a(:, b)
    end do
    deallocate(a, q)
  end do
end program drv
'''

PIPELINES = ['SCCVVector', 'SCCSVector', 'SCCVHoist', 'SCCSHoist']
OPTSETS = [dict(), dict(trim_vector_sections=True), dict(demote_local_arrays=False)]
HOIST_OPTSETS = [dict(as_kwarguments=True)]


def variants():
    return [(p, o) for p in PIPELINES for o in OPTSETS + (HOIST_OPTSETS if 'Hoist' in p else [])]


def case_sources(sw):
    sw = set(sw)
    sources = []
    if 'bounds_dt' in sw:
        sources.append(['dims_mod.f90', DIMS])
    if sw & NEEDS_INNER:
        sources.append(['inner_mod.f90', inner_source(sw)])
    if sw & NEEDS_COL:
        sources.append(['inner_col_mod.f90', INNER_COL])
    sources.append(['kernel_mod.f90', kernel_source(sw)])
    sources.append(['driver_mod.f90', driver_source(sw)])
    return sources


def make_cases(d):
    """d=1 (quick): every combination of <= 1 switch x all variants;
    d=2 (thorough): every combination of <= 2 switches x the four pipelines with default options, plus the quick set
    (every combination of <= 1 switch x every option set)"""
    cases = []
    for dev in deviations({k: [True] for k in SWITCHES}, d):
        switches = [k for k in SWITCHES if k in dev]
        sources = case_sources(switches)
        for pipe, opts in variants():
            if len(switches) > 1 and opts:
                continue
            oid = ','.join(f'{k}={v}' for k, v in sorted(opts.items()))
            cases.append(dict(id=f'{"+".join(["base"] + switches)}|{pipe}({oid})', sources=sources, driver=PROGRAM,
                              extra=[['parkind1.f90', sccgen.PARKIND]], xform=pipe, opts=opts, switches=switches))
    return cases


# ---------------------------------------------------------------------------------------------- apply
def pipeline(case):
    from loki.transformations.single_column import scc
    horizontal, vertical, block_dim = sccgen.dimensions()
    cls = getattr(scc, case['xform'] + 'Pipeline')
    return cls(horizontal=horizontal, vertical=vertical, block_dim=block_dim, **case['opts'])


def apply(case, files):  # pylint: disable=unused-argument
    """(C40 / C41 entry point) -> {filename: transformed text}"""
    return sccgen.scheduler_apply(case, lambda: [pipeline(case)], prefix='c37_', optional=OPTIONAL)


OPTIONAL = ('dims_mod.f90',)


def worker(case):
    r = sccgen.run_case(case, lambda: [pipeline(case)], base=worker.base, prefix='c37_', optional=OPTIONAL)
    r['id'] = case['id']
    return r


worker.base = None


def sigfn(results_by_id):
    """a failing simpler case explains a case that contains it (same pipeline family member, same verdict): first the
    case without any switch, then each single-switch case - with the same option set, else with the default one"""
    def sig(case, r):
        pipe = case['xform']
        xf = case['id'].split('|', 1)[1]
        for label in ['base'] + list(case['switches']):
            stem = 'base' if label == 'base' else f'base+{label}'
            for cid, name in ((f'{stem}|{pipe}()', pipe), (f'{stem}|{xf}', xf)):
                single = results_by_id.get(cid)
                if single and single['verdict'] == r['verdict']:   # (single-switch cases explain themselves)
                    return f'{r["verdict"]} block={label} xform={name}'
        return f'{r["verdict"]} blocks={"+".join(case["switches"]) or "base"} xform={pipe if xf == pipe + "()" else xf}'
    return sig


def run(ctx):
    d = 1 if ctx.quick else 2
    cases = make_cases(d)
    worker.base = str(ctx.scratch)
    ctx.reset_pool()
    results = xform.judge_cases(ctx, cases, worker)
    by_id = {r['id']: r for r in results}
    xform.summarise(ctx, cases, results, sigfn(by_id))
    per_pipe = {}
    for c, r in zip(cases, results):
        pp = per_pipe.setdefault(c['xform'], dict(cases=0, changed_ok=0))
        pp['cases'] += 1
        pp['changed_ok'] += int(r['verdict'] == 'ok' and bool(r.get('changed')))
    for p, pp in per_pipe.items():
        ctx.require(pp['changed_ok'] >= 3, f'vacuous: pipeline {p} has only {pp["changed_ok"]} changed-and-equal programs')
    transient = [f'{r["id"]}: {r["transient_first_attempt_error"]}' for r in results if r.get('transient_first_attempt_error')]
    if transient:
        ctx.note(f'{len(transient)} cases needed a second attempt of the Loki step (transient first failure): {transient[:3]}')
    ctx.cov.update(
        exhaustive=True, transient_retries=len(transient), per_pipeline=per_pipe,
        bound=dict(max_switches=d, max_switches_with_nondefault_options=1, switches=len(SWITCHES), pipelines=len(PIPELINES),
                   variants=len(variants()), inputs=3),
        rule=f'all combinations of <= 1 of {len(SWITCHES)} feature switches on the driver/kernel template x every variant '
             f'({len(variants())}: {len(PIPELINES)} SCC pipelines x their option sets)'
             + (f' + all combinations of <= 2 switches x the {len(PIPELINES)} pipelines with default options' if d > 1 else '')
             + '; each case through a real Scheduler; 3 (nlon,nz,nb,start,end) inputs per run; non-trivial = the pipeline '
             'changed the code and the program still prints the original output',
        samples=[dict(id=cases[0]['id']), dict(id=cases[-1]['id'], kernel=cases[-1]['sources'][-2][1])],
    )
    ctx.assumptions += ['gfortran -O0 -fcheck=bounds defines behaviour', 'only standard-conforming single-column programs are generated',
                        'templates follow the conventions of the repository SCC tests (parkind1 stub imported everywhere)']


def replay(case):
    r = sccgen.run_case(case, lambda: [pipeline(case)], prefix='c37_', optional=OPTIONAL)
    if r['verdict'] == 'HARNESS':
        raise RuntimeError(r['detail'])
    return None if r['verdict'] in ('ok', 'unchanged-ok', 'refused') else f'{r["verdict"]}: {r["detail"]}'
