"""C35  Fortran-to-C transpilation preserves behaviour.

ENUM (deviation-bounded) + gfortran/gcc differential.  A template kernel (a stand-alone SUBROUTINE, as in the
repository's own transpile tests; kinds real32/real64 from iso_fortran_env, derived types in a header module) is
assembled from *feature blocks*; every single block (quick) and in addition every pair of *structural* blocks
(thorough; see STRUCT: the blocks that change declarations, arguments, arrays, loops or substituted names, 39 of
the 79) added to the base kernel is transpiled with FortranCTransformation + FortranISOCWrapperTransformation (header role for the type /
variable module, kernel role for the routine) in both wrapper variants (use_c_ptr False / True).

Build of one case (own build step, vf/xform.py has no C tool-chain):
    original     gfortran  tmod.f90 [fmod.f90] kern.f90 zz_driver.F90                      -> run
    transformed  gcc -c kern_c.c (includes the generated *.h);
                 gfortran -DXFORM tmod.f90 [fmod.f90] tmod_fc.F90 kern_fc.F90 zz_driver.F90 kern_c.o -> run
                 (the original kern.f90 is not linked)
The driver is harness-owned text (a PROGRAM, never seen by Loki) and is byte-identical in both builds; the only
difference is the preprocessor symbol XFORM that switches `use kern_fc_mod, only: kern => kern_fc` on, so that
the same `call kern(...)` reaches the ISO-C wrapper.  It calls the kernel on a grid of 6 input sets (negative and
positive integers, zero, dyadic reals of both signs, both logical values, 3 array extents) and prints every
output with explicit formats.  All values are small dyadic rationals, so every comparison is exact *text*
equality, except the lines tagged `~8` / `~4`: they only carry results of transcendental intrinsics (exp, real
power with real exponent, sqrt evaluated in another precision) and are compared with relative tolerance
2^-40 / 2^-20 -- the only place where the statement's "same outputs" is read up to the precision of the kind.

Switches = feature blocks, one per branch / shortcut visible in fortran_c.py, fortran_iso_c_wrapper.py, cgen.py:
  arithmetic   int_div_neg int_mod_neg int_mod_in_product mod_rhs_product mod_rhs_quotient mod_result_scaled real_mod int_pow int_pow_negexp
               int_pow_in_div real_pow_int real_pow_real mixed_kinds int_to_real_div real_to_int_assign cast
               literal_kinds literal_d_exponent                       (CCodeMapper literals, map_power, map_cast, mod)
  intrinsics   minmax_real minmax_3arg minmax_int int_intrinsic_in_div minmax_index abs_sign_real abs_sign_int
               sqrt_exp sqrt_real32                                    (replace_intrinsics function_map -> fmin/fmax/fabs/copysign)
  arrays       arr1d_index arr1d_reverse arr2d arr2d_index_arith arr3d_lb arr_int_lb2d arr_real32 local_array
               local_array_lb local_array_2d vector_full vector_section vector_lb vector_whole
               (resolve_vector_notation, normalize_array_shape_and_access, invert_array_indices,
               shift_to_zero_indexing, flatten_arrays)
  loops        loop_index_value loop_neg_step loop_step2 loop_var_step loop_after_value loop_zero_trip
               loop_bounds_expr while_loop loop_cycle loop_exit                 (CCodegen.visit_Loop criterion / increment)
  control      nested_cond inline_if select_values select_range select_neg_range select_open_lower
               select_open_upper logical_ops logical_in_cond logical_literal   (visit_Conditional, visit_MultiConditional)
  expressions  expr_quot expr_pow_nest expr_unary long_expr comments  (operator printing, sign handling, line wrapping)
  arguments    dt_scalar dt_array1d dt_array2d dt_array_lb assoc_local assoc_dt default_real_arg
               (DeReferenceTrafo, c_struct_typedef / transfer casts, generate_c_header, do_resolve_associates)
  environment  param_local param_dim module_var module_param elemental elemental_expr_args
               (inline_constant_parameters, module-variable getters, inline_elemental_functions)
Scalar INTENT(INOUT)/(OUT), INTENT(IN) by value and a 1-D array loop are in the base kernel.

Not covered: calls to other transpiled kernels (needs the scheduler-driven multi-kernel path), OPTIONAL arguments
(documented unsupported: warning in cgen), cpp / cuda back-ends.
A Loki exception that is an explicit refusal (NotImplementedError, "not supported") is counted as refused.
"""
import re
import shutil
import tempfile
import traceback
from pathlib import Path

from vf import gf, xform
from vf.explore import deviations, seeded_order

PROPERTY = 'C35'
LEVEL = 'exploration'
META = dict(
    engine='enum',
    technique='deviation-bounded exhaustive template enumeration x wrapper variants; gfortran original vs gcc-compiled C '
              'kernel behind the generated ISO-C wrapper, same driver',
    level_text='base kernel + every single feature block (+ every pair of structural blocks in thorough) x {use_c_ptr False, True}: generated C compiles with gcc, '
               'generated wrapper with gfortran, and the program prints exactly the original output on 6 input sets '
               '(tolerance 2^-40 / 2^-20 only on transcendental-intrinsic results); exhaustive for d',
    level_note='gfortran 12 -O0 -fcheck=bounds / gcc 12 -O0 are the semantics; exact dyadic reals; original program must build (else HARNESS-ERROR)',
)

CFLAGS = ['-O0', '-w', '-c', '-I.']

# --------------------------------------------------------------------------------------------------- template
# A block: dict(body=..., decl=..., use=..., tdecl=..., mod=..., extra_arg=..., needs=...)
#   body   statements added to the kernel
#   decl   extra local declarations
#   use    extra USE lines of the kernel
#   tdecl  members added to the derived type tt (makes the kernel take the argument t)
#   tinit / tprint  driver lines initialising / printing these members
#   mod    extra module-level declarations of tmod (module variables / parameters)
#   dpre   driver statements executed before the call (e.g. setting module variables)
B = {}


def block(name, body, **kw):
    B[name] = dict(body=body, **kw)


block('base', '''  s = s * 2.0_real64 + x
  k = k + i1
  r4 = r4 + z4
  lo = lg
  do i = 1, n
    a(i) = a(i) + y
  end do
''')

# ---- arithmetic
block('int_div_neg', '''  ie(1) = i1 / i2
  ie(2) = (i1 + 1) / i2 - i1 / (i2 + 5)
''')
block('int_mod_neg', '''  ie(3) = mod(i1, i2)
  ie(4) = mod(i1 - 3, i2 + 5)
''')
block('int_mod_in_product', '''  ie(5) = 10 * mod(i1, i2) + 1
''')
# integer MOD whose operands are themselves products / quotients / sums, and whose result is scaled: `%` has the
# precedence of `*` and `/` in C, so both operands and the whole operation need their own parentheses
block('mod_rhs_product', '''  ie(38) = mod(i1 + 20, 2 * m) + mod(7 * i1 + 60, i2 * i2 * 2)
''')
block('mod_rhs_quotient', '''  ie(39) = mod(7 * i1 + 50, (n + 5) / 2) + mod(100 / m, 30 / n)
''')
block('mod_result_scaled', '''  ie(40) = mod(i1 + 20, m) * 3 / 2 + 100 / (mod(i1 + 21, 5 + m) + 1) - 50 / 7 * mod(i1 + 9, 4)
''')
block('real_mod', '''  e(1) = mod(x, y)
  e(2) = mod(p, 1.5_real64) - mod(x, 0.75_real64)
''')
block('int_pow', '''  ie(7) = i1**2 + (-2)**3
  ie(8) = i2**3 - i1**3
''')
block('int_pow_negexp', '''  ie(9) = 4 + 2**i2
''')
block('int_pow_in_div', '''  ie(10) = (i1**2 / 4) * 4
''')
block('real_pow_int', '''  e(3) = x**2 + x**3
  e(4) = y**i2
  e(5) = y**(-2)
''')
block('real_pow_real', '''  tr(1) = p**y
  tr(2) = p**0.5_real64
''')
block('mixed_kinds', '''  e(6) = z4 * x + i1
  r4 = r4 + real(x * 0.25_real64, kind=real32) + 1.5_real32
  e(7) = 2.5_real64 * i2 + z4 / 2
''')
block('int_to_real_div', '''  e(8) = i1 / 2
  e(9) = real(i1, kind=real64) / 2
  e(10) = i1 / 2.0_real64 + (i1 / i2) * 0.5_real64
''')
block('real_to_int_assign', '''  k = k + x * 2.0_real64
  ie(11) = x * 2.5_real64
''')
block('cast', '''  e(11) = real(i1, kind=real64) * 0.5_real64 + real(z4, kind=real64)
  ie(12) = int(x) + int(z4 * 2.0_real32)
  r4 = r4 + real(i2, kind=real32)
''')
block('literal_kinds', '''  e(12) = 1.5_real64 * x + 2.5e0_real64 - 1.e0_real64
  r4 = r4 * 0.5_real32 + 2._real32
  e(13) = 3 * x - 0.125_real64
''')
block('literal_d_exponent', '''  e(14) = 0.5d0 * x + 1.0d0
''')

# ---- intrinsics
block('minmax_real', '''  e(15) = min(x, y) + max(x, y) * 2.0_real64
  e(16) = max(min(x, p), -1.0_real64)
''')
block('minmax_3arg', '''  e(17) = min(x, y, p) + 2.0_real64 * max(x, y, p)
''')
block('minmax_int', '''  ie(13) = min(i1, i2) + 3 * max(i1, i2)
''')
block('int_intrinsic_in_div', '''  ie(14) = (max(i1, i2) / 2) * 2 + abs(i1) / 2
''')
block('minmax_index', '''  do i = 1, n
    a(min(i + 1, n)) = a(min(i + 1, n)) + 1.0_real64
  end do
''')
block('abs_sign_real', '''  e(18) = abs(x) + sign(p, x) + sign(x, y)
''')
block('abs_sign_int', '''  ie(15) = abs(i1) + 2 * sign(i2, i1)
''')
block('sqrt_exp', '''  e(19) = sqrt(p)
  tr(3) = sqrt(p + 1.0_real64) + exp(y)
''')
block('sqrt_real32', '''  tr4(1) = sqrt(abs(z4)) + exp(z4)
''')

# ---- arrays
block('arr1d_index', '''  do i = 1, n - 1
    a(i + 1) = a(i + 1) + a(i) * 0.5_real64
  end do
  a(n - 1) = a(n) + a(1)
  ia(n / 2 + 1) = ia(1) + 7
''')
block('arr1d_reverse', '''  do i = 1, n
    ia(n - i + 1) = ia(n - i + 1) * 2 + i
  end do
''')
block('arr2d', '''  do j = 1, m
    do i = 1, n
      b(i, j) = b(i, j) + 10.0_real64 * j + i
    end do
  end do
  b(n, 1) = b(1, m) + b(n - 1, m - 1)
''')
block('arr2d_index_arith', '''  do i = 1, n
    do j = 1, m
      b(i, j) = b(i, j) + b(n - i + 1, m - j + 1) * 0.5_real64
    end do
  end do
''')
block('arr3d_lb', '''  do l = 1, 2
    do j = -1, 1
      do i = 0, n
        c(i, j, l) = c(i, j, l) + i + 10 * j + 100 * l
      end do
    end do
  end do
  c(0, -1, 2) = c(n, 1, 1) + c(1, 0, 2)
''')
block('arr_int_lb2d', '''  ib(0, 1) = ib(n, 2) + 1
  do i = 0, n
    ib(i, 2) = ib(i, 1) * 2 + i
  end do
''')
block('arr_real32', '''  do i = 1, n
    a4(i) = a4(i) * z4 + 0.5_real32
  end do
''')
block('local_array', '''  do i = 1, n
    w(i) = a(i) * 2.0_real64
  end do
  do i = 1, n
    a(i) = w(n - i + 1)
  end do
''', decl='  real(kind=real64) :: w(n)\n')
block('local_array_lb', '''  do i = 0, n
    w0(i) = real(i, kind=real64) + x
  end do
  do i = 1, n
    a(i) = a(i) + w0(i - 1) + w0(n)
  end do
''', decl='  real(kind=real64) :: w0(0:n)\n')
block('local_array_2d', '''  do j = 1, 2
    do i = 1, n
      w2(i, j) = a(i) + j
    end do
  end do
  do i = 1, n
    a(i) = w2(i, 2) - w2(n - i + 1, 1) * 0.5_real64
  end do
''', decl='  real(kind=real64) :: w2(n, 2)\n')
block('vector_full', '''  a(:) = a(:) * 2.0_real64 + x
  b(:, 1) = a(:)
''')
block('vector_section', '''  a(2:n) = b(2:n, 2) + 1.0_real64
  ia(1:n-1) = ia(1:n-1) + ib(1:n-1, 1)
''')
block('vector_lb', '''  c(:, 0, 1) = c(:, 1, 2) + 1.0_real64
  ib(:, 2) = ib(:, 1) + 3
''')
block('vector_whole', '''  b(:, :) = b(:, :) + 1.0_real64
  a4 = a4 * 2.0_real32
''')

# ---- loops
block('loop_index_value', '''  do i = 1, n
    a(i) = a(i) + real(i, kind=real64) * x + i
    ia(i) = ia(i) + i * i
  end do
''')
block('loop_neg_step', '''  do i = n, 1, -1
    s = s * 0.5_real64 + a(i)
    ia(i) = ia(i) + i - n
  end do
''')
block('loop_step2', '''  do i = 1, n, 2
    ia(i) = ia(i) + 100
  end do
  do i = n, 2, -2
    s = s * 0.5_real64 + i
  end do
''')
block('loop_var_step', '''  do i = 1, n, m
    ia(i) = ia(i) + 1000
  end do
''')
block('loop_after_value', '''  do i = 1, n
    ie(16) = ie(16) + 1
  end do
  k = k + 10 * i
  do i = 1, n, 2
    ie(16) = ie(16) + 1
  end do
  k = k + 100 * i
''')
block('loop_zero_trip', '''  do i = n, 1
    ie(17) = ie(17) + 1
  end do
  do i = 3, i2
    ie(17) = ie(17) + 10
  end do
''')
block('loop_bounds_expr', '''  do i = max(1, i2), n - 1
    ia(i) = ia(i) + 5
  end do
  do i = 2, min(n, 4)
    ia(i) = ia(i) - 1
  end do
''')
block('while_loop', '''  i = 1
  do while (i <= n .and. s < 100.0_real64)
    s = s + a(i)
    i = i + 2
  end do
''')
block('loop_cycle', '''  do i = 1, n
    if (i == 2) cycle
    ia(i) = ia(i) + 50
  end do
''')
block('loop_exit', '''  do i = 1, n
    if (i > 3) exit
    ia(i) = ia(i) + 70
  end do
''')

# ---- control flow and logicals
block('nested_cond', '''  if (i1 > 0) then
    if (x > y) then
      ie(18) = 1
    else if (x > -y) then
      ie(18) = 2
    else
      ie(18) = 3
    end if
  else if (i1 == 0) then
    ie(18) = 4
  else
    if (i2 >= 0 .and. p /= 1.0_real64) ie(18) = 5
    ie(19) = 6
  end if
''')
block('inline_if', '''  if (x > y) e(20) = 1.0_real64
  if (i1 <= i2) ie(20) = 7
''')
block('select_values', '''  select case (i1)
  case (2)
    ie(21) = 10
  case (3, 7)
    ie(21) = 20
  case default
    ie(21) = 30
  end select
''')
block('select_range', '''  select case (i1)
  case (1:3)
    ie(22) = 10
  case (5:7, 9)
    ie(22) = 20
  case default
    ie(22) = 30
  end select
''')
block('select_neg_range', '''  select case (i1)
  case (-7:-6)
    ie(23) = 10
  case (-5)
    ie(23) = 20
  case default
    ie(23) = 30
  end select
''')
block('select_open_lower', '''  select case (i1)
  case (:0)
    ie(24) = 10
  case (3)
    ie(24) = 20
  case default
    ie(24) = 30
  end select
''')
block('select_open_upper', '''  select case (i1)
  case (3:)
    ie(25) = 10
  case (0)
    ie(25) = 20
  case default
    ie(25) = 30
  end select
''')
block('logical_ops', '''  lo = lg .and. .not. (i1 > i2)
  la(1) = lg .or. (x < y)
  la(2) = lg .eqv. (i1 == 7)
  la(3) = lg .neqv. (p >= 1.0_real64)
''')
block('logical_in_cond', '''  if (lg) then
    ie(26) = 1
  end if
  if (.not. lg .and. i1 > 0) ie(26) = 2
  if (la(1) .or. la(2)) ie(27) = 3
  do i = 1, n
    la(i) = a(i) > 0.0_real64
  end do
''')
block('logical_literal', '''  la(n) = .true.
  la(1) = .false. .or. lg
  lt = .true.
  if (lt .and. lg) ie(28) = 9
''', decl='  logical :: lt\n')

# ---- expression shapes
block('expr_quot', '''  e(21) = x / (y * p)
  e(22) = x / (y / p) + x * (y / p)
  ie(29) = i1 * (7 / i2)
  ie(30) = i1 / (i2 * 2) + 100 / (i1 + 8) / i2
  ie(31) = (i1 * 7) / i2 - i1 * 7 / i2
''')
block('expr_pow_nest', '''  e(23) = (y**2)**3
  e(24) = y**2**2
  e(25) = -y**2 + (-y)**2 * 2.0_real64
  e(26) = y**(i2 / 2)
''')
block('expr_unary', '''  e(27) = x * (-y)
  e(28) = -(-x) + (-x) * y
  e(29) = x - (-y) + x / (-y)
  ie(32) = i1 - (-i2) * (-3)
  ie(33) = -i1 / i2 + (-i1)
''')
block('long_expr', '''  e(30) = x * y + x * p + y * p + x * x + y * y + p * p + x * 0.5_real64 + y * 0.25_real64 + p * 0.125_real64 &
       & + a(1) * a(2) + a(2) * a(3) + a(1) * a(3) + s * 2.0_real64 + real(i1, kind=real64) + real(i2, kind=real64) &
       & - x * y * p - a(1) * x - a(2) * y - a(3) * p + e(1) * e(2) - e(3) * e(4)
''')
block('comments', '''  ! a comment line with ! a second mark and "quotes"
  e(31) = x  ! inline comment
  ! another comment
  e(32) = y
''')

# ---- arguments: derived types, associates, kinds
block('dt_scalar', '''  t%m = t%m + i1
  t%x = t%x * 2.0_real64 + x
  t%y4 = t%y4 + z4
''', tdecl='    integer :: m\n    real(kind=real64) :: x\n    real(kind=real32) :: y4\n',
      tinit='    t%m = g; t%x = 0.5_real64 * g; t%y4 = 1.5_real32\n',
      tprint="    write(*,'(A,1X,I0,1X,ES25.17E3,1X,ES16.9)') 'TS', t%m, t%x, t%y4\n")
block('dt_array1d', '''  do i = 1, 3
    t%v(i) = t%v(i) + i * x
    t%jv(i) = t%jv(i) + i
  end do
  t%v(2) = t%v(1) + t%v(3)
''', tdecl='    real(kind=real64) :: v(3)\n    integer :: jv(3)\n',
      tinit='    t%v = (/ 0.5_real64, 1.5_real64, -1.0_real64 /); t%jv = (/ 1, g, -2 /)\n',
      tprint="    write(*,'(A,3(1X,ES25.17E3),3(1X,I0))') 'TV', t%v, t%jv\n")
block('dt_array2d', '''  t%iv(1, 2) = t%iv(2, 1) + 7
  do j = 1, 2
    do i = 1, 2
      t%iv(i, j) = t%iv(i, j) + 10 * i + j
    end do
  end do
''', tdecl='    integer :: iv(2, 2)\n',
      tinit='    t%iv = reshape((/ 1, 2, 3, 4 /), (/ 2, 2 /))\n',
      tprint="    write(*,'(A,4(1X,I0))') 'TI', t%iv\n")
block('dt_array_lb', '''  t%w(0) = t%w(2) + 1.0_real64
  t%w(1) = t%w(0) * 2.0_real64
''', tdecl='    real(kind=real64) :: w(0:2)\n',
      tinit='    t%w = (/ 0.25_real64, 0.5_real64, 0.75_real64 /)\n',
      tprint="    write(*,'(A,3(1X,ES25.17E3))') 'TW', t%w\n")
block('assoc_local', '''  associate (aa => a, qq => x)
    aa(2) = aa(1) + qq
    s = s + qq * 0.5_real64
  end associate
''')
block('assoc_dt', '''  associate (tz => t%z)
    tz = tz + x
    e(33) = tz * 2.0_real64
  end associate
''', tdecl='    real(kind=real64) :: z\n', tinit='    t%z = 0.25_real64 * g\n',
      tprint="    write(*,'(A,1X,ES25.17E3)') 'TZ', t%z\n")
block('default_real_arg', '''  q = q * 2.0 + 1.0
''', arg=('q', '  real, intent(inout) :: q\n', '  real :: q\n', '    q = 0.5 * g\n',
            "    write(*,'(A,1X,ES16.9)') 'Q', q\n"))

# ---- environment: parameters, module variables, elemental functions
block('param_local', '''  ie(34) = ie(34) + np * i1
  e(34) = half * x + np
''', decl='  integer, parameter :: np = 3\n  real(kind=real64), parameter :: half = 0.5_real64\n')
block('param_dim', '''  do i = 1, nq
    wq(i) = x * i
  end do
  e(35) = wq(1) + wq(nq)
''', decl='  integer, parameter :: nq = 4\n  real(kind=real64) :: wq(nq)\n')
block('module_var', '''  ie(35) = gk * 2 + i1
  e(36) = gx * x
''', use='  use tmod, only: gk, gx\n', mod='  integer :: gk\n  real(kind=real64) :: gx\n',
      dpre='    gk = 3 + g; gx = 0.5_real64 * g\n')
block('module_param', '''  ie(36) = jpk + i1
  e(37) = rpx * x
''', use='  use tmod, only: jpk, rpx\n',
      mod='  integer, parameter :: jpk = 5\n  real(kind=real64), parameter :: rpx = 0.25_real64\n')
block('elemental', '''  e(38) = twice(x) + twice(y) * p
''', use='  use fmod, only: twice\n', fmod=True)
# expression trees built by substitution (no source parentheses to copy): the C06 shapes a/(b*c), a/(b/c), -(-a)**2,
# a*(b/c) with integers, reached through inline_elemental_functions
block('elemental_expr_args', '''  e(39) = ratio(x, y * p) + ratio(x, ratio(y, p)) + ratio(x - y, p + p)
  e(40) = negsq(-y) + negsq(x - y) * ratio(-x, -y)
  ie(37) = idiv(i1 * 7, i2) * idiv(100, i1 + 8) + i1 * idiv(7, i2)
''', use='  use fmod, only: ratio, negsq, idiv\n', fmod=True)

FMOD = '''module fmod
  use iso_fortran_env, only: real64
  implicit none
contains
  elemental function twice(v)
    real(kind=real64) :: twice
    real(kind=real64), intent(in) :: v
    twice = v * 2.0_real64 + 1.0_real64
  end function twice
  elemental function ratio(u, v)
    real(kind=real64) :: ratio
    real(kind=real64), intent(in) :: u, v
    ratio = u / v
  end function ratio
  elemental function negsq(v)
    real(kind=real64) :: negsq
    real(kind=real64), intent(in) :: v
    negsq = -v**2
  end function negsq
  elemental function idiv(i, j)
    integer :: idiv
    integer, intent(in) :: i, j
    idiv = i / j
  end function idiv
end module fmod
'''

NE = 40   # slots of e / ie

CORE_ARGS = ['n', 'm', 'i1', 'i2', 'x', 'y', 'p', 'z4', 's', 'r4', 'k', 'e', 'ie', 'tr', 'tr4',
             'a', 'b', 'c', 'a4', 'ia', 'ib', 'lg', 'lo', 'la']

KERNEL_DECL = f'''  integer, intent(in) :: n, m, i1, i2
  real(kind=real64), intent(in) :: x, y, p
  real(kind=real32), intent(in) :: z4
  real(kind=real64), intent(inout) :: s
  real(kind=real32), intent(inout) :: r4
  integer, intent(inout) :: k
  real(kind=real64), intent(inout) :: e({NE})
  integer, intent(inout) :: ie({NE})
  real(kind=real64), intent(inout) :: tr(4)
  real(kind=real32), intent(inout) :: tr4(2)
  real(kind=real64), intent(inout) :: a(n), b(n, m), c(0:n, -1:1, 2)
  real(kind=real32), intent(inout) :: a4(n)
  integer, intent(inout) :: ia(n), ib(0:n, 2)
  logical, intent(in) :: lg
  logical, intent(out) :: lo
  logical, intent(inout) :: la(n)
'''

# 6 input sets:        g =    1      2      3      4      5      6
GRID = dict(
    n=[4, 5, 3, 4, 6, 5], m=[3, 2, 3, 2, 2, 3],
    i1=[7, -7, 2, -5, 0, 3], i2=[2, -2, 3, -3, 2, 4],
    x=['2.0', '-1.5', '0.5', '-4.0', '1.0', '-0.25'],
    y=['0.5', '4.0', '-2.0', '2.0', '-0.5', '0.25'],
    p=['4.0', '0.25', '2.25', '1.0', '16.0', '6.25'],
    z4=['1.5', '-2.5', '0.75', '3.0', '-0.5', '2.0'],
    lg=['.true.', '.false.', '.true.', '.false.', '.true.', '.false.'],
)


def blocks_of(case_or_switches):
    sw = case_or_switches['switches'] if isinstance(case_or_switches, dict) else case_or_switches
    return ['base'] + [k for k in B if k != 'base' and k in sw]


def build_sources(switches):
    """-> (sources [[name, text]...], driver text)"""
    names = blocks_of(list(switches))
    blk = [B[k] for k in names]
    tdecl = ''.join(b.get('tdecl', '') for b in blk)
    has_t = bool(tdecl)
    extra_args = [b['arg'] for b in blk if 'arg' in b]
    has_fmod = any(b.get('fmod') for b in blk)
    mod = ''.join(b.get('mod', '') for b in blk)
    tmod = 'module tmod\n  use iso_fortran_env, only: real32, real64\n  implicit none\n  save\n' + mod
    if has_t:
        tmod += '  type tt\n' + tdecl + '  end type tt\n'
    else:
        tmod += '  type tt\n    integer :: m0\n  end type tt\n'
    tmod += 'end module tmod\n'
    args = CORE_ARGS + [a[0] for a in extra_args] + (['t'] if has_t else [])
    kern = f'subroutine kern({", ".join(args)})\n  use iso_fortran_env, only: real32, real64\n'
    if has_t:
        kern += '  use tmod, only: tt\n'
    kern += ''.join(b.get('use', '') for b in blk)
    kern += '  implicit none\n' + KERNEL_DECL
    kern += ''.join(a[1] for a in extra_args)
    if has_t:
        kern += '  type(tt), intent(inout) :: t\n'
    kern += '  integer :: i, j, l\n' + ''.join(b.get('decl', '') for b in blk)
    kern += ''.join(b['body'] for b in blk)
    kern += 'end subroutine kern\n'
    sources = [['tmod.f90', tmod]]
    if has_fmod:
        sources.append(['fmod.f90', FMOD])
    sources.append(['kern.f90', kern])

    def arr(name, kind=None):
        vals = GRID[name]
        if kind:
            return '(/ ' + ', '.join(f'{v}_{kind}' for v in vals) + ' /)'
        return '(/ ' + ', '.join(str(v) for v in vals) + ' /)'
    d = ['program drv', '#ifdef XFORM', '  use kern_fc_mod, only: kern => kern_fc', '#endif',
         '  use iso_fortran_env, only: real32, real64', '  use tmod', '  implicit none',
         '  integer :: g, q1, q2, q3, n, m, i1, i2, k',
         '  real(kind=real64) :: x, y, p, s', '  real(kind=real32) :: z4, r4',
         f'  real(kind=real64) :: e({NE}), tr(4)', f'  integer :: ie({NE})', '  real(kind=real32) :: tr4(2)',
         '  real(kind=real64), allocatable :: a(:), b(:, :), c(:, :, :)',
         '  real(kind=real32), allocatable :: a4(:)', '  integer, allocatable :: ia(:), ib(:, :)',
         '  logical :: lg, lo', '  logical, allocatable :: la(:)',
         f'  integer, parameter :: vn(6) = {arr("n")}, vm(6) = {arr("m")}, vi1(6) = {arr("i1")}, vi2(6) = {arr("i2")}',
         f'  real(kind=real64), parameter :: vx(6) = {arr("x", "real64")}',
         f'  real(kind=real64), parameter :: vy(6) = {arr("y", "real64")}',
         f'  real(kind=real64), parameter :: vp(6) = {arr("p", "real64")}',
         f'  real(kind=real32), parameter :: vz(6) = {arr("z4", "real32")}',
         f'  logical, parameter :: vl(6) = {arr("lg")}']
    d += [a[2].rstrip('\n') for a in extra_args]
    if has_t:
        d.append('  type(tt) :: t')
    d += ['  do g = 1, 6',
          '    n = vn(g); m = vm(g); i1 = vi1(g); i2 = vi2(g)',
          '    x = vx(g); y = vy(g); p = vp(g); z4 = vz(g); lg = vl(g)',
          '    s = 0.5_real64 * g; r4 = 1.25_real32; k = 3 - g; lo = .false.',
          '    allocate(a(n), b(n, m), c(0:n, -1:1, 2), a4(n), ia(n), ib(0:n, 2), la(n))',
          '    do q1 = 1, n',
          '      a(q1) = 0.5_real64 * q1 - 1.0_real64',
          '      a4(q1) = 0.25_real32 * q1 + 1.0_real32',
          '      ia(q1) = q1 * 3 - 4',
          '      la(q1) = mod(q1 + g, 3) == 0',
          '      do q2 = 1, m',
          '        b(q1, q2) = 0.25_real64 * q1 + 2.0_real64 * q2',
          '      end do',
          '    end do',
          '    do q1 = 0, n',
          '      ib(q1, 1) = q1 - 2; ib(q1, 2) = 10 * q1 + 1',
          '      do q2 = -1, 1',
          '        do q3 = 1, 2',
          '          c(q1, q2, q3) = 0.5_real64 * q1 + 0.25_real64 * q2 + 4.0_real64 * q3',
          '        end do',
          '      end do',
          '    end do',
          f'    do q1 = 1, {NE}',
          '      e(q1) = 0.125_real64 * q1; ie(q1) = -q1',
          '    end do',
          '    tr = 1.0_real64; tr4 = 1.0_real32']
    d += [a[3].rstrip('\n') for a in extra_args]
    d += [b['tinit'].rstrip('\n') for b in blk if 'tinit' in b]
    d += [b['dpre'].rstrip('\n') for b in blk if 'dpre' in b]
    d += [f'    call kern({", ".join(args)})',
          "    write(*,'(A,I0)') 'G', g",
          "    write(*,'(A,1X,ES25.17E3,1X,ES16.9,1X,I0,1X,L1)') 'S', s, r4, k, lo",
          f"    write(*,'(A,{NE}(1X,ES25.17E3))') 'E', e",
          f"    write(*,'(A,{NE}(1X,I0))') 'IE', ie",
          "    write(*,'(A,4(1X,ES25.17E3))') '~8', tr",
          "    write(*,'(A,2(1X,ES16.9))') '~4', tr4",
          "    write(*,'(A,20(1X,ES25.17E3))') 'A', a",
          "    write(*,'(A,40(1X,ES25.17E3))') 'B', b",
          "    write(*,'(A,80(1X,ES25.17E3))') 'C', c",
          "    write(*,'(A,20(1X,ES16.9))') 'A4', a4",
          "    write(*,'(A,20(1X,I0))') 'IA', ia",
          "    write(*,'(A,40(1X,I0))') 'IB', ib",
          "    write(*,'(A,20(1X,L1))') 'LA', la"]
    d += [a[4].rstrip('\n') for a in extra_args]
    d += [b['tprint'].rstrip('\n') for b in blk if 'tprint' in b]
    d += ['    deallocate(a, b, c, a4, ia, ib, la)', '  end do', 'end program drv']
    return sources, '\n'.join(d) + '\n'


XFORMS = [('f2c', dict(use_c_ptr=False)), ('f2c', dict(use_c_ptr=True))]


# Structural switches change something the translation of *other* statements can depend on: declarations and argument
# lists, array shapes / index transformations (maps keyed by variable over the whole routine), loops and their index
# variables (shared by the loops that vector-notation resolution creates), associate / parameter / module-variable /
# elemental substitution.  The remaining switches are statement-local: they add assignments or branches over the fixed
# scalars and the slots e(:) / ie(:) whose translation is a function of their own expression tree only.
STRUCT = {
    'minmax_index',
    'arr1d_index', 'arr1d_reverse', 'arr2d', 'arr2d_index_arith', 'arr3d_lb', 'arr_int_lb2d', 'arr_real32', 'local_array',
    'local_array_lb', 'local_array_2d', 'vector_full', 'vector_section', 'vector_lb', 'vector_whole',
    'loop_index_value', 'loop_neg_step', 'loop_step2', 'loop_var_step', 'loop_after_value', 'loop_zero_trip',
    'loop_bounds_expr', 'while_loop', 'loop_cycle', 'loop_exit', 'logical_literal',
    'dt_scalar', 'dt_array1d', 'dt_array2d', 'dt_array_lb', 'assoc_local', 'assoc_dt', 'default_real_arg',
    'param_local', 'param_dim', 'module_var', 'module_param', 'elemental', 'elemental_expr_args',
}


def switch_sets(d):
    """every set of <= d switches, smallest first: all single switches, and for two or more switches every
    combination of *structural* switches (see STRUCT)."""
    names = [k for k in B if k != 'base']
    assert STRUCT <= set(names), STRUCT - set(names)
    for dev in deviations({k: [True] for k in names}, min(d, 1)):
        yield [k for k in names if k in dev]
    if d >= 2:
        snames = [k for k in names if k in STRUCT]
        for dev in deviations({k: [True] for k in snames}, d):
            if len(dev) >= 2:
                yield [k for k in snames if k in dev]


def make_cases(d):
    cases = []
    for sw in switch_sets(d):
        sources, driver = build_sources(sw)
        for xf, opts in XFORMS:
            oid = ','.join(f'{k}={v}' for k, v in sorted(opts.items()))
            cases.append(dict(id=f'{"+".join(["base"] + sw)}|{xf}({oid})', sources=sources, driver=driver,
                              xform=xf, opts=opts, switches=sw))
    return cases


# --------------------------------------------------------------------------------------------------- transformation
def transpile(case, files, base=None):
    """Run both transformations the way the repository's tests do; -> (fortran {name: text}, c {name: text})."""
    from loki.transformations.transpile import FortranCTransformation, FortranISOCWrapperTransformation
    out = Path(tempfile.mkdtemp(prefix='f2c_', dir=str(base) if base else gf._tmpbase()))  # pylint: disable=protected-access
    try:
        use_c_ptr = bool(case['opts'].get('use_c_ptr'))
        wrap = FortranISOCWrapperTransformation(use_c_ptr=use_c_ptr)
        f2c = FortranCTransformation()
        for fname, sf in files.items():
            if fname == 'tmod.f90':
                for mod in sf.modules:
                    wrap.apply(source=mod, path=out, role='header')
        for fname, sf in files.items():
            for routine in sf.routines:
                f2c.apply(source=routine, path=out, role='kernel')
                wrap.apply(source=routine, path=out, role='kernel')
        fortran, c = {}, {}
        for f in sorted(out.iterdir()):
            (fortran if f.suffix.lower() == '.f90' else c)[f.name] = f.read_text()
        return fortran, c
    finally:
        shutil.rmtree(out, ignore_errors=True)


LAST_C = {}


def apply(case, files):
    """Group-T contract (C40/C41 reuse): returns the generated *Fortran* texts (ISO-C wrapper modules); the C
    sources of the same run are left in LAST_C (C41 must not try to parse them as Fortran)."""
    fortran, c = transpile(case, files)
    LAST_C.clear()
    LAST_C.update(c)
    return fortran


# --------------------------------------------------------------------------------------------------- build + compare
TOL = {'~8': 2.0 ** -40, '~4': 2.0 ** -20}


def compare(a, b):
    """-> None or description of the first difference.  Exact text, except `~8` / `~4` lines (relative tolerance)."""
    if len(a) != len(b):
        return f'{len(a)} vs {len(b)} output lines'
    for n, (x, y) in enumerate(zip(a, b)):
        if x == y:
            continue
        tag = x.split(' ', 1)[0]
        if tag in TOL and y.startswith(tag):
            try:
                xs, ys = [float(v) for v in x.split()[1:]], [float(v) for v in y.split()[1:]]
            except ValueError:
                xs, ys = None, None
            if xs is not None and len(xs) == len(ys) and \
                    all(abs(u - v) <= TOL[tag] * max(abs(u), abs(v)) for u, v in zip(xs, ys)):
                continue
        if len(x) > 160 or len(y) > 160:
            return f'first difference at output line {n + 1} (tag {tag})'
        return f'first difference at output line {n + 1}: original {x!r} vs transformed {y!r}'
    return None


def _locate(x, y):
    """name the first differing field of two output lines (for the detail text)."""
    xs, ys = x.split(), y.split()
    for i, (u, v) in enumerate(zip(xs, ys)):
        if u != v:
            return f'{xs[0]}({i}): original {u} vs transformed {v}'
    return ''


def build_original(case, base):
    srcs = [tuple(s) for s in case['sources']] + [('zz_driver.F90', case['driver'])]
    return gf.compile_and_run(srcs, flags=list(xform.FLAGS), base=base)


def build_transformed(case, fortran, c, base):
    with gf.Build(base) as b:
        for n, t in c.items():
            b.write(n, t)
        cfiles = [n for n in c if n.endswith('.c')]
        objs = []
        for n in cfiles:
            rc, _, err = b.run([gf.GCC, *CFLAGS, n, '-o', n[:-2] + '.o'])
            if rc != 0:
                return dict(ok=False, stage='compile', out='', err='gcc: ' + err)
            objs.append(n[:-2] + '.o')
        names = []
        for n, t in case['sources']:
            if n != 'kern.f90':      # the original kernel is not part of the transformed program
                names.append(b.write(n, t).name)
        order = sorted(fortran, key=lambda f: (0 if not f.startswith('kern') else 1, f))
        for n in order:
            names.append(b.write(n, fortran[n]).name)
        names.append(b.write('zz_driver.F90', case['driver']).name)
        ok, err = b.fcompile(names + objs + ['-lm'], flags=list(xform.FLAGS) + ['-DXFORM'])
        if not ok:
            return dict(ok=False, stage='compile', out='', err='gfortran: ' + err)
        rc, out, err = b.run(['./a.out'], timeout=60)
        return dict(ok=rc == 0, stage='run', rc=rc, out=out, err=err)


def _root(ex):
    seen = set()
    while (ex.__cause__ or ex.__context__) is not None and id(ex) not in seen:
        seen.add(id(ex))
        ex = ex.__cause__ or ex.__context__
    return ex


def _deepest(ex):
    """file:line (function) of the innermost loki frame of the root cause."""
    root = _root(ex)
    fr = [f for f in traceback.extract_tb(root.__traceback__) if '/loki/' in f.filename]
    return f'{fr[-1].filename.split("/loki/", 1)[1]}:{fr[-1].name}' if fr else ''


def is_refusal(ex):
    """Explicit refusals: NotImplementedError / "not supported" messages (xform.is_refusal), and a bare `assert`
    of the C code generator that guards a construct it cannot express (CASE ranges that are open or not
    integer literals in CCodegen.visit_MultiConditional): no kernel is produced, nothing wrong is computed."""
    if xform.is_refusal(ex) or xform.is_refusal(_root(ex)):
        return True
    root = _root(ex)
    return isinstance(root, AssertionError) and not str(root) and _deepest(ex).startswith('backend/')


def run_variant(case, orig_lines, base=None, keep=False):
    xform.quiet()
    try:
        files = xform.parse_sources(case)
        fortran, c = transpile(case, files, base=base)
    except Exception as ex:  # pylint: disable=broad-except
        tb = traceback.format_exc().strip().splitlines()
        where = next((ln.strip() for ln in reversed(tb) if ln.strip().startswith('File "') and '/loki/' in ln), '')
        if is_refusal(ex):
            return dict(verdict='refused', detail=f'{type(ex).__name__}: {str(ex)[:200]} @ {_deepest(ex)}', changed=False)
        return dict(verdict='loki-exception', detail=f'{type(ex).__name__}: {str(ex)[:300]} @ {_deepest(ex) or where}',
                    changed=False)
    out = dict(changed=True)
    if keep:
        out['generated'] = dict(fortran=fortran, c=c)
    if not any(n.endswith('.c') for n in c) or not fortran:
        out.update(verdict='loki-exception', detail=f'transformation wrote no kernel/wrapper: {sorted(c) + sorted(fortran)}')
        return out
    res = build_transformed(case, fortran, c, base)
    if not res['ok']:
        kind = 'xform-compile-error' if res['stage'] == 'compile' else 'xform-run-error'
        err = res['err'] or ''
        m = re.search(r'(error:.*|Error:.*|undefined reference.*)', err)
        out.update(verdict=kind, detail=((m.group(1)[:200] + ' || ') if m else '') + err[-700:])
        return out
    new_lines = xform.norm_out(res['out'])
    diff = compare(orig_lines, new_lines)
    if diff:
        n = next((i for i, (u, v) in enumerate(zip(orig_lines, new_lines)) if u != v), None)
        loc = _locate(orig_lines[n], new_lines[n]) if n is not None else ''
        out.update(verdict='output-differs', detail=(loc + ' || ' if loc else '') + diff)
        return out
    out.update(verdict='ok', detail='', nlines=len(new_lines), distinct_lines=len(set(new_lines)))
    return out


def run_case(case, base=None, keep=False):
    orig = build_original(case, base)
    if not orig['ok']:
        return dict(verdict='HARNESS', detail=f'original fails at {orig["stage"]}: {orig["err"][-600:]}', changed=False)
    return run_variant(case, xform.norm_out(orig['out']), base=base, keep=keep)


def worker(group):
    """group: list of cases sharing sources + driver (one per wrapper variant): the original is built once."""
    orig = build_original(group[0], worker.base)
    res = []
    for case in group:
        if not orig['ok']:
            r = dict(verdict='HARNESS', detail=f'original fails at {orig["stage"]}: {orig["err"][-600:]}', changed=False)
        else:
            r = run_variant(case, xform.norm_out(orig['out']), base=worker.base)
        r['id'] = case['id']
        res.append(r)
    return res


worker.base = None


def sigfn(results_by_id):
    def sig(case, r):
        xf = case['id'].split('|', 1)[1]
        fam = case['xform']
        base = results_by_id.get(f'base|{xf}')
        if base and base['verdict'] == r['verdict']:
            # the base kernel itself fails this way: every program containing it inherits the signature
            return f'{r["verdict"]} block=<base> xform={fam}'
        for sw in case['switches']:
            single = results_by_id.get(f'base+{sw}|{xf}')
            if single and single['verdict'] == r['verdict']:
                return f'{r["verdict"]} block={sw} xform={fam}'
        return f'{r["verdict"]} blocks={"+".join(case["switches"]) or "base"} xform={fam}'
    return sig


def run(ctx):
    d = 1 if ctx.quick else 2
    cases = make_cases(d)
    groups = {}
    for i, c in enumerate(cases):
        groups.setdefault(c['id'].split('|', 1)[0], []).append(i)
    glist = list(groups.values())
    worker.base = str(ctx.scratch)
    ctx.reset_pool()
    order = seeded_order(list(range(len(glist))), ctx.seed)
    res = ctx.pmap(worker, [[cases[i] for i in glist[g]] for g in order], chunksize=1)
    results = [None] * len(cases)
    for g, rs in zip(order, res):
        for i, r in zip(glist[g], rs):
            results[i] = r
    by_id = {r['id']: r for r in results}
    xform.summarise(ctx, cases, results, sigfn(by_id), min_changed=0)
    nok = sum(1 for r in results if r['verdict'] == 'ok')
    # vacuity guard; when (nearly) everything fails the violations are the message, not a harness error
    ctx.require(nok >= len(cases) // 2 or ctx.violations, f'vacuous: only {nok} of {len(cases)} programs were transpiled and agreed')
    ok = [r for r in results if r['verdict'] == 'ok']
    ctx.require(all(r.get('distinct_lines', 0) >= 40 for r in ok), 'vacuous: a program prints fewer than 40 distinct lines')
    nb = len(B) - 1
    judged = sum(1 for r in results if r['verdict'] in ('ok', 'output-differs', 'xform-run-error', 'xform-compile-error'))
    ctx.cov.update(
        distinct_nontrivial=judged, agreed=nok,
        exhaustive=True, bound=dict(max_blocks=d, blocks=nb, structural_blocks=len(STRUCT), xforms=len(XFORMS), input_sets=6),
        programs=len(glist),
        rule=f'base kernel + every single one of {nb} feature blocks' + (f' + every pair of the {len(STRUCT)} structural blocks'
                                                                          if d >= 2 else '') +
             f' x {len(XFORMS)} wrapper variants '
             '(use_c_ptr False/True); 6 input sets per run; non-trivial = C kernel + ISO-C wrapper were generated and judged by '
             'building them with gcc/gfortran and comparing the program output (`agreed` = those that printed the original output)',
        samples=[dict(id=cases[0]['id']), dict(id=cases[-1]['id'], text=cases[-1]['sources'][-1][1])],
    )
    ctx.assumptions += ['gfortran -O0 -fcheck=bounds and gcc -O0 define behaviour',
                        'only standard-conforming, fully defined programs are generated',
                        'tolerance 2^-40 / 2^-20 applies only to the ~8 / ~4 lines (transcendental intrinsics)']


def replay(case):
    r = run_case(case)
    if r['verdict'] == 'HARNESS':
        raise RuntimeError(r['detail'])
    return None if r['verdict'] in ('ok', 'unchanged-ok', 'refused') else f'{r["verdict"]}: {r["detail"]}'
