"""C21  The scheduler graph is exactly the pruned dependency closure of the seeds.

ENUM / explicit-state: a state is (project, configuration, file discovery order).  Projects come from
vf/batchgen.py (every call DAG on <= 3 (quick) / 4 (thorough) procedures x a menu of 16 file/module layouts
x import styles {only, bare, renamed} x <= 1 feature out of {type-bound call, generic interface, module
variable import, self recursion, 2-cycle, two cycles through one RECURSIVE routine, `USE ::` spellings, intrinsic
module, undefined callee, module outside the search path, host-vs-inner import of one name, one-line IF call}); configurations are all departures of weight <= 2 from {seed = root, expand, strict, no full
parse} (extra / alternative seeds, disable / block / ignore entries at default and routine level in plain,
scoped, module, pattern and upper-case form, expand=False, enable_imports, strict, full parse);
the discovery order (`Scheduler._discover` iterates a `set` of paths) is an explicit, enumerated choice.

Oracle: the three-valued reference closure of vf/batchgen.py, written from the property statement and
docs/source/transform.rst over the generator's ground truth (no Loki code):
  must-have   procedures / bindings / interfaces / explicitly imported types reachable from the seeds through
              non-pruned, expanded items; the module for a bare `USE m` and for an imported module variable;
              one edge per such dependency; `is_ignored` on items named by an ignore entry
  don't-care  the module item for a qualified import of procedures/types; the type edge under a bare USE;
              the flag of what hangs below an ignored item; items reached through a binding/interface whose
              final target is named by a routine-level entry of the caller; an ExternalItem for an undefined
              callee; edges inside a RECURSIVE cycle; everything when a seed is named by the global disable list;
              block/ignore lists given both at default and at routine level (not enumerated)
  must-not    everything else: disabled/blocked items (matched by name, scope, scope#name, fnmatch pattern,
              any letter case), what is reachable only through them or through a non-expanded item, items that
              are not reachable, duplicates under another spelling, ExternalItems for existing definitions,
              an exception while building the graph of a fully defined project, a cyclic graph.
Both with and without a full parse.  Construction raising for an undefined callee under strict=True is a
refusal.
"""
import collections
import json
import shutil
import tempfile
from pathlib import Path

from vf import batchgen as bg
from vf import batchrun as br

PROPERTY = 'C21'
LEVEL = 'model_checking'
META = dict(
    engine='enum',
    technique='bounded-exhaustive enumeration of (project, configuration, discovery order) states on the real Scheduler; '
              'three-valued reference closure over generator ground truth',
    level_text='every call DAG on <=3 (quick) / <=4 (thorough) procedures x 16 layouts x 3 import styles x <=1 feature; every '
               'configuration within deviation weight 2 of {seed=root}; every file discovery order (bounds per stage in the '
               'evidence): the graph has every must-have item/edge/flag and nothing outside must-have + don\'t-care',
    level_note='runs directly on the implementation (every state is an implementation run); reference closure = plain Python '
               'over the generator\'s ground truth; generated projects are validated against gfortran (compile, run, '
               'compare with the generator\'s own simulation)',
)

_CFG = {}
_WD = {}


def _wd():
    if 'wd' not in _WD:
        _WD['wd'] = br.Workdir(_CFG['scratch'])
        bg.quiet_loki()
    return _WD['wd']


def first_failure(project, root, cspec, perm):
    """-> ('ok'|'refusal'|'dontcare'|'fail', failclass, detail, stats)"""
    made = bg.make_config(project, cspec)
    clo = bg.reference_closure(project, made)
    stats = dict(decisions=clo.decisions, pruned=len(clo.why_not), flagged=sum(1 for v in clo.ignored.values() if v))
    if clo.dontcare:
        return 'dontcare', None, None, stats
    try:
        sched = bg.build_scheduler(root, project, made, perm)
    except Exception as e:   # pylint: disable=broad-except
        if clo.may_raise and isinstance(e, RuntimeError):
            return 'refusal', None, None, stats
        msg = bg.role_text(project, str(e))[:100]
        return 'fail', f'raised {type(e).__name__}: {msg}', f'building the scheduler raised {type(e).__name__}: {e}', stats
    obs = bg.observe_graph(sched)
    stats['shape'] = hash((tuple(sorted(obs['nodes'].items())), tuple(sorted(obs['edges']))))
    stats['edges'] = len(obs['edges'])
    fails = bg.compare_graph(project, clo, obs)
    if fails:
        return 'fail', fails[0][0], fails[0][1], stats
    return 'ok', None, None, stats


def work(unit):
    """unit = dict(p=pspec, cs=[cspec], orders='all'|'id'|'nonid')"""
    project = bg.build_project(unit['p'])
    root = _wd().root_for(project)
    orders = bg.discovery_orders(project)
    if unit['orders'] == 'id':
        orders = orders[:1]
    elif unit['orders'] == 'nonid':
        orders = orders[1:]
    res = collections.Counter()
    shapes = set()
    fails = []
    for cspec in unit['cs']:
        for perm in orders:
            kind, fc, det, st = first_failure(project, root, cspec, perm)
            res['states'] += 1
            res[kind] += 1
            res['decisions'] += st['decisions']
            res['edges'] += st.get('edges', 0)
            res['pruning_cases'] += 1 if st['pruned'] else 0
            res['ignore_cases'] += 1 if st['flagged'] else 0
            if 'shape' in st:
                shapes.add(st['shape'])
            if kind == 'fail':
                fails.append((fc, dict(p=unit['p'], c=cspec, o=perm), det))
    return dict(res=dict(res), shapes=list(shapes), fails=fails)


def fails_as(case):
    """Re-execute one case in a private directory; -> failclass | None."""
    project = bg.build_project(case['p'])
    if project is None:
        return None
    d = Path(tempfile.mkdtemp(prefix='c21_', dir='/dev/shm' if Path('/dev/shm').is_dir() else None))
    try:
        bg.quiet_loki()
        project.write(d)
        kind, fc, det, _ = first_failure(project, d, case.get('c', []), case.get('o'))
        _LAST['detail'] = det
        return fc if kind == 'fail' else None
    finally:
        shutil.rmtree(d, ignore_errors=True)


_LAST = {}


def shrink_one(item):
    fc, case = item
    core = br.greedy_shrink(fc, case, fails_as)
    got = fails_as(core)
    return core, got or fc, _LAST.get('detail') or ''


def gf_check(pspec):
    return bg.build_project(pspec).gfortran_check(_CFG['scratch'])


def _chunks(lst, k):
    return [lst[i:i + k] for i in range(0, len(lst), k)] or [[]]


def make_units(specs, dmin, dmax, orders, per_unit=60):
    units = []
    for s in specs:
        p = bg.build_project(s)
        cs = [c for c in bg.enumerate_configs(p, dmax) if _weight(c) >= dmin]
        k = max(1, per_unit // (len(bg.discovery_orders(p)) if orders != 'id' else 1))
        for part in _chunks(cs, k):
            if part:
                units.append(dict(p=s, cs=part, orders=orders))
    return units


def _weight(cspec):
    w = 0
    for s, v in cspec:
        w += bg.FORM_WEIGHT.get(v[-1], 1) if isinstance(v, list) and v and isinstance(v[-1], str) else 1
    return w


def run(ctx):
    from vf.explore import seeded_order
    _CFG['scratch'] = str(ctx.scratch)
    ctx.reset_pool()
    names = ctx.seed % len(bg.NAME_POOLS)
    f0 = list(bg.enumerate_projects(3, feature_budget=0, names=names))
    f1 = [s for s in bg.enumerate_projects(3, feature_budget=1, names=names) if s['features']]
    core = ('free', 'ownmod', 'shared', 'mixed', 'allmod', 'bundle_mixed', 'split', 'casedirs')
    f0only = [s for s in f0 if s['imp'] == 'only' and s['layout'] in core]
    f0imp = [s for s in f0 if not (s['imp'] == 'only' and s['layout'] in core)]
    stages = [
        ('S1: n<=3, every layout x import style x exactly one feature; base configuration; every discovery order',
         lambda: make_units(f1, 0, 0, 'all')),
        ('S2: n<=3, feature-free projects (every DAG x layout x import style); configuration deviations of weight <= 1; '
         'every discovery order', lambda: make_units(f0, 0, 1, 'all')),
        ('S3: n<=3, feature-free projects with ONLY-imports in 8 core layouts; configuration deviations of weight 2; sorted discovery order',
         lambda: make_units(f0only, 2, 2, 'id')),
    ]
    if not ctx.quick:
        n4 = []

        def n4specs():
            if not n4:
                n4.extend(bg.enumerate_projects(4, nmin=4, feature_budget=0, names=names))
            return n4
        stages += [
            ('S4: n<=3, remaining feature-free projects (bare/renamed imports, other layouts); configuration deviations of weight 2; sorted discovery order',
             lambda: make_units(f0imp, 2, 2, 'id')),
            ('S5: n<=3, projects with one feature; configuration deviations of weight 1; every discovery order',
             lambda: make_units(f1, 1, 1, 'all')),
            ('S6: n=4, every DAG x layout x import style; base configuration; every discovery order (<= 24)',
             lambda: make_units(n4specs(), 0, 0, 'all')),
            ('S7: n<=3, feature-free projects; configuration deviations of weight 2; every other discovery order',
             lambda: make_units(f0, 2, 2, 'nonid')),
            ('S8: n=4; configuration deviations of weight 1; sorted discovery order',
             lambda: make_units(n4specs(), 1, 1, 'id')),
        ]
    # conformance of the generator: gfortran must accept the projects and print what simulate() says
    # (complete-DAG representative of every layout / import style / feature; at most 15% of the time budget)
    full = lambda s: len(s['edges']) == s['n'] * (s['n'] - 1) // 2
    gfset = [s for s in f0 if full(s)] + [s for s in f1 if full(s) and s['imp'] == 'only']
    if ctx.quick:
        gfset = [s for s in gfset if s['n'] == 3][::9]
    gfres, gfdone, ngf = br.staged_run(ctx, gf_check, gfset, 0.15 * br.stage_deadline(ctx), slice_size=ctx.nproc * 2)
    bad = [(s, r) for s, r in zip(gfset, gfres) if r]
    ctx.require(not bad, f'generator emitted a project that gfortran does not confirm: {bad[:1]}')
    gfset = gfset[:ngf]
    ctx.note(f'setup + gfortran conformance of {len(gfset)} projects took {ctx.elapsed():.0f}s')
    deadline = br.stage_deadline(ctx)
    total = collections.Counter()
    shapes = set()
    failures = []
    done_stages, exhaustive = [], True
    for title, mk in stages:
        if ctx.elapsed() > deadline:
            exhaustive = False
            ctx.note(f'time cap reached before stage: {title}')
            break
        units = seeded_order(mk(), ctx.seed)
        results, completed, ndone = br.staged_run(ctx, work, units, deadline)
        if not completed:
            exhaustive = False
            ctx.note(f'time cap reached: stage not completed ({ndone}/{len(units)} work units): {title}')
            # states of an incomplete stage are judged but the stage is not claimed
        st = collections.Counter()
        for r in results:
            st.update(r['res'])
            shapes.update(r['shapes'])
            failures.extend(r['fails'])
        total.update(st)
        done_stages.append(dict(stage=title, completed=completed, states=st['states'], refusals=st['refusal'],
                                dont_care=st['dontcare'], failing=st['fail']))
        if not completed:
            break
    ctx.require(total['states'] >= 100, 'vacuous: fewer than 100 states explored')
    if any(d['completed'] and d['stage'].startswith('S2') for d in done_stages):
        ctx.require(total['pruning_cases'] > 100 and total['ignore_cases'] > 20 and len(shapes) > 50,
                    f'vacuous: pruning/ignore never took effect ({total["pruning_cases"]}, {total["ignore_cases"]}, {len(shapes)})')
    sigs, nb = br.bucket_and_shrink(ctx, failures, shrink_one)
    for sig, case, det in sigs:
        ctx.violation(sig, case, det)
    sample_p = bg.build_project(dict(n=3, edges=[[0, 1], [1, 2]], layout='ownmod', imp='bare', names=names))
    ctx.cov.update(
        states=total['states'], transitions=total['decisions'], traces_validated_against_impl=total['states'],
        evaluations=total['states'], distinct_nontrivial=len(shapes),
        exhaustive=exhaustive,
        rule='state = (project, configuration, discovery order), every one built with the real Scheduler and compared with the '
             'three-valued reference closure; transitions = (item, ground-truth dependency) decisions taken by the reference '
             'closure; distinct_nontrivial = distinct observed graphs (items + edges); traces_validated = states run on the '
             'implementation',
        bound=dict(stages=done_stages, nmax=3 if ctx.quick else 4, layouts=bg.LAYOUTS, imports=bg.IMPORT_STYLES,
                   features=bg.FEATURES, config_weight=2, name_pool=names),
        samples=[dict(project=dict(spec=sample_p.spec, files=sample_p.files),
                      config=bg.make_config(sample_p, [['block@default', [2, 'module']], ['seed', ['+', 1, 'plain']]]),
                      discovery_order=[2, 0, 1])],
        refusals=total['refusal'], dont_care_states=total['dontcare'], edges_compared=total['edges'],
        states_with_pruning=total['pruning_cases'], states_with_ignore_flag=total['ignore_cases'],
        failure_buckets=nb, gfortran_validated_projects=len(gfset),
    )
    ctx.assumptions += [
        'signatures: every failing case is reduced to a minimal failing case (any symptom); signature = symptom of that core + '
        'the attributes it still needs; Loki\'s 30 s wall-clock REGEX-frontend timeout is switched off (load-dependent)',
        'ground truth = dependency relation known to the generator by construction; item names as documented (scope#name)',
        'module item for a qualified import, type edge under a bare USE, flags below ignored items, indirection through '
        'bindings/interfaces under routine-level entries: don\'t-care (documentation silent)',
        'a default-level and a routine-level block/ignore list in the same configuration are not enumerated (merge rule undocumented)',
        'generated projects are valid Fortran: confirmed by gfortran on the complete-DAG representatives of every layout/import/feature',
    ]


def replay(case):
    fc = fails_as(case)
    if fc:
        return f'{fc}: {_LAST.get("detail")}'
    return None
