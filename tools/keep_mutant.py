#!/venv/bin/python
"""keep_mutant.py <mutant dir> <caught-by text> [--missed-before "what was added"]: copy a confirmed seeded change into /verif/seeded/"""
import json, shutil, sys
from pathlib import Path
src = Path(sys.argv[1]); caught = sys.argv[2]
extra = sys.argv[4] if len(sys.argv) > 4 and sys.argv[3] == '--missed-before' else None
dst = Path('/verif/seeded') / src.name
dst.mkdir(parents=True, exist_ok=True)
for f in ('patch.diff', 'demo.py'):
    shutil.copy(src / f, dst / f)
meta = json.loads((src / 'meta.json').read_text())
meta['lead_confirmation'] = {
    'applied_to': 'scratch worktree of /repo HEAD (tools/try_mutant.sh)',
    'demo': 'exit 0 on /repo, exit 1 on the mutant',
    'check_result': caught,
}
if extra:
    meta['lead_confirmation']['initially_missed'] = extra
(dst / 'meta.json').write_text(json.dumps(meta, indent=1) + '\n')
print('kept', dst)
