"""C19  Fast regex discovery finds what the full parser finds; incremental requests are path independent.

ENUM x SEQ.  Files come from the layout grammar (`vf.layoutgen`: base file + every combination of
<= d deviations; every file is validated with `gfortran -fsyntax-only`).  For every file an explicit
state search runs over the lattice of requested parser-class sets:

    state       (file, set of RegexParserClass members requested so far)
    initial     the unparsed file
    transition  first event: Sourcefile.from_source(frontend=REGEX, parser_classes=c)
                later events: sf.make_complete(frontend=REGEX, parser_classes=c)      (real objects, rebuilt by replay)

After *every* transition the facts observed on the real Sourcefile (program units with kind and nesting,
imports with only-lists and renames, derived types with their procedure/generic bindings, interfaces,
call targets per unit) are compared with

  (i)   the facts of a one-shot REGEX parse with the union of the classes requested so far
        (two histories reaching the same class set therefore yield the same facts);
  (ii)  at AllClasses: the facts of the FP parse of the same file;
  (iii) both: the facts the generator knows by construction.

Readings taken (the weaker ones): names compare case-insensitively; call targets compare as the ordered
list per unit; the nature of an import (INTRINSIC) and the ONLY-ness of an empty only-list are not facts;
declarations and pragmas are requested as classes but are not part of the compared facts (the property
does not list them).

Run-away parses: a few valid files send the REGEX frontend's patterns into catastrophic backtracking; with the
default configuration Loki then raises `RuntimeError: REGEX frontend timeout of 30 s exceeded` (hand-verified).
Loki's timeout is wall-clock based, which is not reproducible on a loaded machine, so the check switches it off
(config['regex-frontend-timeout'] = 0, a documented setting) and instead gives every REGEX parse a budget of
`CPU_BUDGET` seconds of *process CPU time* (ITIMER_VIRTUAL; these ~60-line files normally need ~0.005 s).
Exhausting the budget `ATTEMPTS` times in a row (each time on freshly built objects) counts as the frontend not
accepting a valid file; a single exhaustion is treated as noise of the (shared, virtualised) machine.
"""
import itertools

from vf import layoutgen as LG

PROPERTY = 'C19'
LEVEL = 'model_checking'
META = dict(
    engine='seq',
    technique='deviation-bounded file enumeration x explicit-state BFS over incremental parser-class requests on real '
              'Sourcefile objects; differential vs one-shot REGEX, FP and generator facts',
    level_text='every layout file with <= d deviations (gfortran-validated) x every history of parser-class requests up to '
               'the depth bound (quick: base 3, one deviation 2; thorough: base to closure of the 128-set lattice, one deviation 4, two deviations 1); facts after every transition equal the '
               'one-shot REGEX parse; at AllClasses equal FP and the facts known by construction',
    level_note='runs directly on the implementation (every explored trace is an implementation trace); the generator and '
               'its by-construction facts are the model, bound to reality by gfortran -fsyntax-only on every file and by '
               'FP == construction facts',
)

CLASSES = ['ProgramUnitClass', 'InterfaceClass', 'ImportClass', 'TypeDefClass', 'DeclarationClass', 'CallClass',
           'PragmaClass']
ALL = frozenset(CLASSES)
CATS = ('units', 'imports', 'typedefs', 'interfaces', 'calls')
CPU_BUDGET = 0.5
ATTEMPTS = 3

_CFG = {}


# ------------------------------------------------------------------ Loki side
def _setup():
    import logging
    logging.disable(logging.CRITICAL)
    from loki import config
    config['regex-frontend-timeout'] = 0


CpuBudget = LG.CpuBudget


def cpu_guard():
    return LG.cpu_guard(CPU_BUDGET)


def flag(names):
    from loki.frontend import RegexParserClass as R
    f = R.EmptyClass
    for n in names:
        f = f | getattr(R, n)
    return f


def kind_of(u):
    from loki import Module
    from loki.function import Function
    if isinstance(u, Module):
        return 'module'
    if isinstance(u, Function) or getattr(u, 'is_function', False):
        return 'function'
    return 'subroutine'


def nm(x):
    return str(getattr(x, 'name', x)).lower()


_FINDER = []


def _find(secs):
    """One traversal for all node classes of interest (the visitor object is expensive to build: reuse it)."""
    from loki import ir, FindNodes
    if not _FINDER:
        _FINDER.append(FindNodes((ir.Import, ir.TypeDef, ir.Interface, ir.CallStatement)))
    return _FINDER[0].visit(secs)


def observe(sf):
    """Facts reported by a (REGEX- or FP-parsed) Sourcefile, through public IR attributes only."""
    from loki import ir
    from loki.program_unit import ProgramUnit
    F = dict(units=[], imports={}, typedefs={}, interfaces={}, calls={})

    def procdecls(nodes):
        for n in nodes:
            if isinstance(n, ir.ProcedureDeclaration):
                yield n

    def unit(u, prefix):
        path = (prefix + '/' if prefix else '') + u.name.lower()
        F['units'].append([path, kind_of(u)])
        secs = tuple(s for s in (u.spec, getattr(u, 'body', None)) if s is not None)
        imps, tds, ifs, calls = [], [], [], []
        for n in _find(secs):
            if isinstance(n, ir.Import):
                if n.c_import or n.f_include:
                    continue
                only = [[nm(s), s.type.use_name.lower() if s.type.use_name else None] for s in (n.symbols or ())]
                ren = [[nm(v), str(k).lower()] for k, v in (n.rename_list or ())]
                imps.append([n.module.lower(), only, ren])
            elif isinstance(n, ir.TypeDef):
                b = []
                for d in procdecls(n.body):
                    for s in d.symbols:
                        bn = s.type.bind_names
                        if d.generic:
                            b.append(['generic', nm(s), [nm(x) for x in (bn or ())]])
                        else:
                            b.append(['proc', nm(s), nm(bn[0]) if bn else None])
                tds.append([n.name.lower(), b])
            elif isinstance(n, ir.Interface):
                mp = [nm(s) for d in procdecls(n.body) for s in d.symbols]
                bodies = [[b.name.lower(), kind_of(b)] for b in n.body if isinstance(b, ProgramUnit)]
                ifs.append([nm(n.spec) if n.spec is not None else None, bool(n.abstract), mp, bodies])
            else:
                calls.append(str(n.name).lower())
        F['imports'][path] = imps
        if tds:
            F['typedefs'][path] = tds
        if ifs:
            F['interfaces'][path] = ifs
        F['calls'][path] = calls
        if u.contains is not None:
            for c in u.contains.body:
                if isinstance(c, ProgramUnit):
                    unit(c, path)

    for n in sf.ir.body:
        if isinstance(n, ProgramUnit):
            unit(n, '')
    F['units'].sort()
    return F


def first_diff(a, b):
    """(category, unit path, a-value, b-value) of the first difference in fixed category order, or None."""
    for k in CATS:
        if a[k] == b[k]:
            continue
        if isinstance(a[k], dict):
            for p in sorted(set(a[k]) | set(b[k])):
                if a[k].get(p) != b[k].get(p):
                    return (k, p, a[k].get(p), b[k].get(p))
        return (k, None, a[k], b[k])
    return None


def run_history(text, hist):
    """Rebuild the real object by replaying a history of class-name sets; returns (sf, None) or (None, (i, exc)).
    A history that exhausts the CPU budget is re-run from scratch: only ATTEMPTS consecutive exhaustions count
    (on an oversubscribed virtual machine even CPU-time accounting can stall for seconds)."""
    from loki import Sourcefile, Frontend
    bad = None
    for _ in range(ATTEMPTS):
        sf, bad = None, None
        for i, ev in enumerate(hist):
            try:
                with cpu_guard():
                    if sf is None:
                        sf = Sourcefile.from_source(text, frontend=Frontend.REGEX, parser_classes=flag(ev))
                    else:
                        sf.make_complete(frontend=Frontend.REGEX, parser_classes=flag(ev))
            except (Exception, CpuBudget) as e:  # pylint: disable=broad-except
                bad = (i, e)
                break
        if bad is None:
            return sf, None
        if not isinstance(bad[1], CpuBudget):
            break
    return None, bad


def exc_tag(e):
    if isinstance(e, CpuBudget):
        return 'no-answer(cpu-budget)'
    return type(e).__name__


class FileModel:
    """One generated file with caches for one-shot facts."""

    def __init__(self, devs, seed):
        self.devs = dict(devs)
        self.seed = seed
        self.lay = LG.build(devs, seed)
        self.text = self.lay.text
        self._oneshot = {}
        self._hist = {}
        self._static = False

    def oneshot(self, S):
        """facts of a one-shot REGEX parse with class set S, or ('EXC', tag)"""
        S = frozenset(S)
        if S not in self._oneshot:
            sf, bad = run_history(self.text, (sorted(S),))
            self._oneshot[S] = ('EXC', exc_tag(bad[1])) if bad else observe(sf)
        return self._oneshot[S]

    def history_failure(self, hist):
        """None if the facts after `hist` equal the one-shot facts of the union; else a failure descriptor
        ('exception', tag) | ('facts', first_diff)."""
        key = tuple(tuple(sorted(e)) for e in hist)
        if key not in self._hist:
            sf, bad = run_history(self.text, key)
            if bad:
                r = ('exception', exc_tag(bad[1]), f'event #{bad[0]}: {bad[1]}'[:300])
            else:
                got = observe(sf)
                ref = self.oneshot(frozenset().union(*map(frozenset, key)))
                if isinstance(ref, tuple):
                    r = ('facts', ('oneshot-raises', None, None, ref[1]), '')
                else:
                    d = first_diff(got, ref)
                    r = ('facts', d, '') if d else None
            self._hist[key] = r
        return self._hist[key]


_MODELS = {}


def small_model(devs, seed):
    """Per-process cache of the models with <= 1 deviation (they are what violations shrink to)."""
    key = (LG.dev_key(devs), seed)
    if key not in _MODELS:
        _MODELS[key] = FileModel(devs, seed)
    return _MODELS[key]


def canon_history(hist):
    """Class names other than ProgramUnitClass renamed c1, c2... in order of first occurrence."""
    ren = {}
    out = []
    for ev in hist:
        names = []
        for n in sorted(ev, key=lambda x: (x != 'ProgramUnitClass', CLASSES.index(x))):
            if n == 'ProgramUnitClass':
                names.append('PU')
            else:
                ren.setdefault(n, f'c{len(ren) + 1}')
                names.append(ren[n])
        out.append('|'.join(names))
    return '[' + ', '.join(out) + ']'


def shrink_history(fm, hist, kind):
    """Greedy: drop events / classes inside events while the history still fails with the same kind."""
    hist = [sorted(e) for e in hist]

    def fails(h):
        if not h:
            return False
        f = fm.history_failure(h)
        return f is not None and f[0] == kind

    changed = True
    while changed:
        changed = False
        for i in range(len(hist)):
            cand = hist[:i] + hist[i + 1:]
            if fails(cand):
                hist, changed = cand, True
                break
        if changed:
            continue
        for i, ev in enumerate(hist):
            if len(ev) > 1:
                for n in ev:
                    cand = hist[:i] + [[x for x in ev if x != n]] + hist[i + 1:]
                    if fails(cand):
                        hist, changed = cand, True
                        break
            if changed:
                break
    return hist


def minimal_devs(devs, seed, still_fails):
    """Smallest sub-dict of devs (tried fewest-first, in sorted order) on which still_fails(FileModel) holds."""
    keys = sorted(devs)
    for k in range(0, len(keys)):
        for combo in itertools.combinations(keys, k):
            sub = {x: devs[x] for x in combo}
            fm = small_model(sub, seed) if len(sub) <= 1 else FileModel(sub, seed)
            try:
                if still_fails(fm):
                    return sub
            except Exception:  # pylint: disable=broad-except
                pass
    return dict(devs)


# ------------------------------------------------------------------ static (one-shot) oracles (ii), (iii)
def static_failure(fm):
    """Failure descriptor for the one-shot comparisons, or None.
    ('regex-exception', tag) | ('fp-exception', tag) | ('regex!=fp', cat) | ('fp!=construction', cat) |
    ('regex!=construction', cat)"""
    if fm._static is not False:
        return fm._static
    fm._static = _static_failure(fm)
    return fm._static


def _static_failure(fm):
    from loki import Sourcefile, Frontend
    rx = fm.oneshot(ALL)
    if isinstance(rx, tuple):
        return ('regex-exception', rx[1], f'REGEX AllClasses one-shot parse raises {rx[1]}')
    try:
        fp = observe(Sourcefile.from_source(fm.text, frontend=Frontend.FP))
    except Exception as e:  # pylint: disable=broad-except
        return ('fp-exception', type(e).__name__, f'FP parse raises {type(e).__name__}: {e}'[:300])
    gen = fm.lay.facts
    d = first_diff(rx, fp)
    if d:
        return ('regex!=fp', d[0], f'{d[0]} of {d[1]}: REGEX(AllClasses) {d[2]} vs FP {d[3]}'[:500])
    d = first_diff(fp, gen)
    if d:
        return ('fp!=construction', d[0], f'{d[0]} of {d[1]}: FP {d[2]} vs known by construction {d[3]}'[:500])
    d = first_diff(rx, gen)
    if d:
        return ('regex!=construction', d[0], f'{d[0]} of {d[1]}: REGEX {d[2]} vs construction {d[3]}'[:500])
    return None


def static_violation(fm):
    f = static_failure(fm)
    if f is None:
        return None
    want = f[:2]
    sub = minimal_devs(fm.devs, fm.seed, lambda m: (static_failure(m) or ())[:2] == want)
    sig = f'oneshot {f[0]} {f[1]} devs={LG.dev_key(sub)}'
    case = dict(kind='oneshot', devs=fm.devs, seed=fm.seed, sig=sig)
    return sig, case, f'[{fm.lay.key}] {f[2]}'


# ------------------------------------------------------------------ dynamic oracle (i): BFS over request histories
def history_violation(fm, hist, fail):
    kind = fail[0]
    h = shrink_history(fm, hist, kind)
    want = (kind, canon_history(h))

    def same(m):
        f = m.history_failure(h)
        return f is not None and f[0] == kind
    sub = minimal_devs(fm.devs, fm.seed, same)
    what = f'raises {fail[1]}' if kind == 'exception' else 'facts differ from one-shot parse of the union'
    sig = f'history {canon_history(h)} {what} devs={LG.dev_key(sub)}'
    f2 = fm.history_failure(h)
    if kind == 'exception':
        det = f'[{fm.lay.key}] history {h}: {f2[2]}'
    else:
        d = f2[1]
        det = (f'[{fm.lay.key}] after requests {h} the Sourcefile reports {d[0]} of {d[1]} = {d[2]}, '
               f'a one-shot parse with the same classes reports {d[3]}')[:700]
    case = dict(kind='history', devs=fm.devs, seed=fm.seed, history=h, sig=sig)
    return sig, case, det


def explore_file(item):
    """BFS over request histories for one file.  Returns dict(stats..., violations=[(sig, case, detail)])."""
    devs, seed, plan = item
    _setup()
    events = [frozenset(e) for e in plan['events']]
    deep_events = [frozenset(e) for e in plan.get('shallow_events', [])]   # extra events only up to shallow_depth
    fm = small_model(devs, seed) if len(devs) <= 1 else FileModel(devs, seed)
    out = dict(key=fm.lay.key, states=0, transitions=0, effective=0, viol=[], state_keys=0, depth=0, skipped=False,
               reached_all=False)
    sv = static_violation(fm)
    if sv and ('no-answer(cpu-budget)' in sv[0] or 'TimerError' in sv[0]):
        # the REGEX patterns ran away within the CPU budget: whether the budget is exhausted depends on the speed of
        # the machine, so this is counted as "declined to answer" (not judged), never as a violation
        out['skipped'] = True
        out['no_answer'] = True
        return out
    if sv:
        out['viol'].append(sv)
        if sv[0].startswith('oneshot regex-exception'):
            out['skipped'] = True      # every history containing ProgramUnitClass would fail the same way
            return out
    ROOT = None
    seen = {ROOT: ()}
    facts_of = {}
    frontier = [ROOT]
    nontrivial = set()
    for depth in range(plan['depth']):
        nxt = []
        evs = events + (deep_events if depth < plan.get('shallow_depth', 0) else [])
        for S in frontier:
            h = seen[S]
            for e in evs:
                T = frozenset(e) if S is ROOT else S | e
                hist = h + (tuple(sorted(e)),)
                out['transitions'] += 1
                fail = fm.history_failure(hist)
                if fail and fail[0] == 'exception' and fail[1] in ('no-answer(cpu-budget)', 'TimerError'):
                    fail = None      # timing dependent: not judged
                if fail is not None:
                    out['viol'].append(history_violation(fm, hist, fail))
                    continue
                ref = fm.oneshot(T)
                if S is ROOT or ref != fm.oneshot(S):
                    out['effective'] += 1
                if T == ALL:
                    out['reached_all'] = True
                if T not in seen:
                    seen[T] = hist
                    nxt.append(T)
                    if ref['units']:
                        nontrivial.add(T)
        frontier = nxt
        out['depth'] = depth + 1
        if not frontier:
            break
    out['states'] = len(seen)
    out['nontrivial'] = len(nontrivial)
    return out


def gf_chunk(chunk):
    """gfortran -fsyntax-only conformance for a chunk of (devs, seed)."""
    lays = [LG.build(d, s) for d, s in chunk]
    return LG.syntax_check(lays, _CFG.get('scratch'))


# ------------------------------------------------------------------ driver
def plans(quick):
    """Per tier: deviation bound d and the request-history plan for the base file / files with one / two deviations."""
    singles = [[c] for c in CLASSES]
    pairs = [list(p) for p in itertools.combinations(CLASSES, 2)]
    ev = singles + [CLASSES]
    if quick:
        return dict(d=1,
                    base=dict(events=ev, depth=3),
                    one=dict(events=ev, depth=2),
                    two=None)
    return dict(d=2,
                base=dict(events=ev, depth=8, shallow_events=pairs, shallow_depth=2),   # closure of the 128-set lattice
                one=dict(events=ev, depth=4),
                two=dict(events=ev, depth=1))      # pair files: one-shot oracles + every single-class parse


def run(ctx):
    _setup()
    pl = plans(ctx.quick)
    from vf.explore import seeded_order
    devlist = LG.cases(pl['d'])
    _CFG['scratch'] = str(ctx.scratch)
    ctx.reset_pool()

    # conformance of the generator: every file is valid Fortran for gfortran
    pairs = [(d, ctx.seed) for d in devlist]
    chunks = [pairs[i:i + 20] for i in range(0, len(pairs), 20)]
    bad = [b for res in ctx.pmap(gf_chunk, chunks, chunksize=1) for b in res]
    ctx.require(not bad, f'generator emitted {len(bad)} file(s) gfortran rejects, first: {bad[:1]}')

    items = []
    for d in devlist:
        plan = pl[('base', 'one', 'two')[len(d)]]
        items.append((d, ctx.seed, plan))
    items = seeded_order(items, ctx.seed)
    # expensive closures first so that the pool drains evenly
    items.sort(key=lambda it: -it[2]['depth'])
    results = ctx.pmap(explore_file, items, chunksize=1, ordered=False)

    states = trans = eff = nontriv = skipped = reached = 0
    for r in results:
        states += r['states']
        trans += r['transitions']
        eff += r['effective']
        nontriv += r.get('nontrivial', 0)
        skipped += bool(r['skipped'])
        reached += bool(r['reached_all'])
        for sig, case, det in r['viol']:
            ctx.violation(sig, case, det)
    nfiles = len(items)
    ctx.require(nfiles >= 100, f'only {nfiles} files generated')
    ctx.require(eff >= nfiles, f'vacuous: only {eff} transitions changed the observed facts')
    ctx.require(reached + skipped == nfiles, f'AllClasses not reached for {nfiles - reached - skipped} explored file(s)')
    base = LG.build({}, ctx.seed)
    ctx.cov.update(
        states=states, transitions=trans, traces_validated_against_impl=nfiles,
        evaluations=trans + 2 * nfiles, distinct_nontrivial=nontriv, effective_transitions=eff,
        files=nfiles, files_not_explored_because_oneshot_regex_raises=skipped, exhaustive=True,
        bound=dict(deviations=pl['d'], switches=len(LG.MENU), values=sum(len(v) for v in LG.MENU.values()),
                   plan_base=pl['base'], plan_one_deviation=pl['one'], plan_two_deviations=pl['two'], regex_cpu_budget_s=CPU_BUDGET),
        rule='files = base layout file + every combination of <= d deviation values (distinct switches); per file BFS '
             'over histories of parser-class requests (events = 7 single classes + AllClasses [+ the 21 pairs at the '
             'first two levels in thorough, d <= 1]) merged on the requested class set; every transition is executed on a real '
             'Sourcefile rebuilt by replay and its facts compared with the one-shot parse; non-trivial state = class '
             'set under which the one-shot parse reports at least one program unit; traces_validated_against_impl = '
             'generated files accepted by gfortran -fsyntax-only (all of them)',
        samples=[dict(devs={}, first_lines=base.text.splitlines()[:6], history=[['CallClass'], ['ProgramUnitClass']]),
                 dict(devs=devlist[min(7, len(devlist) - 1)], history=[['ProgramUnitClass'], CLASSES]),
                 dict(devs=devlist[-1], history=[['ImportClass'], ['ProgramUnitClass'], ['ImportClass']])],
    )
    ctx.assumptions += [
        'gfortran 12 -std=f2008 -fsyntax-only decides validity of the generated files',
        'facts known by construction come from the abstract statement list of vf.layoutgen, not from the text',
        f'REGEX wall-clock timeout disabled; every REGEX parse gets {CPU_BUDGET:g} s of CPU time, {ATTEMPTS} attempts (normal: ~0.005 s)',
        'declarations and pragmas are requested as parser classes but are not compared (not listed by the property)',
    ]


def replay(case):
    _setup()
    devs = case.get('devs') or {}
    fm = FileModel(devs, case.get('seed', 0))
    if case.get('kind') == 'history':
        f = fm.history_failure([list(e) for e in case['history']])
        if f is None:
            return None
        if f[0] == 'exception':
            return f'history {case["history"]} raises: {f[2]}'
        d = f[1]
        return f'after requests {case["history"]}: {d[0]} of {d[1]} = {d[2]}; one-shot parse of the union: {d[3]}'
    f = static_failure(fm)
    return None if f is None else f'{f[0]} {f[1]}: {f[2]}'
