"""C22  Scheduler processing visits each selected item once, in dependency order, with the right
role / mode / targets; file-graph traversal visits each containing file once.

ENUM / explicit-state: state = (project, configuration, discovery order, manifest, strategy).  Projects and
configurations come from vf/batchgen.py (see C21); the configuration menu additionally overrides `role` and
`mode` per routine / by default.  On every built Scheduler a probe Transformation is run for the full manifest
product  item_filter in {Procedure; Procedure+Module; all kinds; Module} x reverse_traversal x
process_ignored_items x traverse_file_graph (x recursion flags {none, modules+procedures} in file-graph mode),
plus the `mode=` argument of process_transformation in {None, base, alt}, under both ProcessingStrategy.SEQUENCE
(transform_*) and PLAN (plan_*).  The probe logs (method, ir name, item name, role, mode, targets).

Oracle (reference = three-valued closure of vf/batchgen.py, no Loki code):
  * every must-have item of the selected kinds that is not ignored (or any, with process_ignored_items) and
    whose mode matches the requested mode is visited exactly once; nothing outside must-have + don't-care of
    the selected kinds is visited; an item flagged ignored by the configuration is not visited unless
    process_ignored_items; ExternalItems are never visited (a RuntimeError for them under strict is a refusal);
  * the visit order is *a* topological order of the reference must-edges (reversed when reverse_traversal):
    for every must-edge a -> b with both visited, a is visited before b (after, when reversed);
  * role and mode passed to the probe equal the configured ones (default overridden by the routine entry);
  * targets of a procedure contain the call-site name of every callee that is neither disabled nor blocked and
    none that is (module names, imported symbols, intermediate spellings in `targets` are don't-care);
  * file-graph mode: every file that contains a must-visit item is visited exactly once, no file without a
    may-visit item is visited, the file order respects every must-edge between items in different files unless
    the reference file graph itself is cyclic; recursion (recurse_to_modules / recurse_to_procedures) reaches no
    item outside must-have + don't-care + enclosing modules, each at most once per file;
  * SEQUENCE and PLAN produce the same log.
External rule (transform.rst): with strict (documented default True, the base configuration has no `strict` key) an
item-graph traversal whose item filter selects the origin kind of an ExternalItem must raise "marked as external";
without strict, or when the kind is not selected, it must not.  Mode rule for file graphs: a file item carries the
default mode, so process_transformation(mode=m) with a file-graph transformation touches no file when m differs.
Refusals: the required RuntimeError for a selected ExternalItem under strict; "requires Module to be complete" when a non-procedure
item is processed without enable_imports (documented limitation: only control-flow dependencies are parsed).
"""
import collections
import shutil
import tempfile
from pathlib import Path

from vf import batchgen as bg
from vf import batchrun as br

PROPERTY = 'C22'
LEVEL = 'model_checking'
META = dict(
    engine='enum',
    technique='bounded-exhaustive enumeration of (project, configuration, discovery order, manifest, strategy) on the real '
              'Scheduler.process_transformation with a logging probe Transformation; reference closure + order/targets oracle',
    level_text='every call DAG on <=3 procedures x 16 layouts x 3 import styles x <=1 feature, configuration deviations '
               '(incl. role/mode overrides) per stage, full manifest product (item filter x reverse x ignored x file graph x '
               'recursion x mode argument) under SEQUENCE and PLAN: once-only, valid topological order, role/mode/targets',
    level_note='runs directly on the implementation; expected visit sets, order constraints and targets come from the generator\'s '
               'ground truth through the three-valued reference closure',
)

_CFG = {}
_WD = {}

FILTERS = collections.OrderedDict([
    ('proc', ('Procedure',)),
    ('proc+mod', ('Procedure', 'Module')),
    ('all', ('Procedure', 'Module', 'TypeDef', 'Interface', 'ProcedureBinding')),
    ('mod', ('Module',)),
])


def manifests():
    out = []
    for f in FILTERS:
        for rev in (False, True):
            for ign in (False, True):
                out.append(dict(filter=f, reverse=rev, ignored=ign, filegraph=False, recurse=False, mode=None))
                for rec in (False, True):
                    out.append(dict(filter=f, reverse=rev, ignored=ign, filegraph=True, recurse=rec, mode=None))
    for m in ('base', 'alt'):
        out.append(dict(filter='proc', reverse=False, ignored=False, filegraph=False, recurse=False, mode=m))
        out.append(dict(filter='all', reverse=True, ignored=True, filegraph=False, recurse=False, mode=m))
        # the `mode=` argument must also select in file-graph traversals (per-mode pipelines with a file transformation)
        out.append(dict(filter='proc', reverse=False, ignored=False, filegraph=True, recurse=False, mode=m))
        out.append(dict(filter='proc+mod', reverse=True, ignored=True, filegraph=True, recurse=False, mode=m))
    return out


MANIFESTS = manifests()


def _wd():
    if 'wd' not in _WD:
        _WD['wd'] = br.Workdir(_CFG['scratch'])
        bg.quiet_loki()
    return _WD['wd']


def make_probe(man, log):
    from loki.batch import Transformation
    from loki.batch import item as I

    cls = dict(Procedure=I.ProcedureItem, Module=I.ModuleItem, TypeDef=I.TypeDefItem, Interface=I.InterfaceItem,
               ProcedureBinding=I.ProcedureBindingItem)

    def rec(method):
        def f(self, ir, **kw):
            it = kw.get('item')
            log.append((method, str(getattr(ir, 'name', None) or getattr(ir, 'path', '')).lower(),
                        it.name.lower() if it is not None else None, kw.get('role'), kw.get('mode'),
                        tuple(sorted(str(t).lower() for t in (kw.get('targets') or ())))))
        return f

    ns = dict(
        item_filter=tuple(cls[k] for k in FILTERS[man['filter']]),
        reverse_traversal=man['reverse'], traverse_file_graph=man['filegraph'],
        process_ignored_items=man['ignored'],
        recurse_to_modules=man['recurse'], recurse_to_procedures=man['recurse'],
        transform_subroutine=rec('sub'), plan_subroutine=rec('sub'),
        transform_module=rec('mod'), plan_module=rec('mod'),
        transform_file=rec('file'), plan_file=rec('file'),
    )
    return type('Probe', (Transformation,), ns)()


def judge(project, clo, man, log, root):
    """-> (failclass, detail) | None for one manifest run"""
    kinds = FILTERS[man['filter']]
    allnodes = dict(clo.may_nodes)
    allnodes.update(clo.must_nodes)

    def mode_ok(k, kind):
        # item traversal: the mode filter applies to the items; file traversal: to the files (see below)
        if man['mode'] is None or man['filegraph'] or kind in ('TypeDef', 'Interface', 'External'):
            return True
        return clo.rolemode[k][1] == man['mode']

    must_visit = {k for k, kind in clo.must_nodes.items()
                  if kind in kinds and mode_ok(k, kind) and (man['ignored'] or clo.ignored.get(k) is False)}
    may_visit = {k for k, kind in allnodes.items()
                 if kind in kinds and mode_ok(k, kind) and (man['ignored'] or clo.ignored.get(k) is not True)}
    tag = f'filter={man["filter"]} rev={int(man["reverse"])} ign={int(man["ignored"])} fg={int(man["filegraph"])}' \
          f' rec={int(man["recurse"])} mode={man["mode"]}'
    if not man['filegraph']:
        seq = [e[2] for e in log]
        cnt = collections.Counter(seq)
        for k, c in sorted(cnt.items()):
            if c > 1:
                return (f'visited-twice kind={allnodes.get(k, "?")}', f'[{tag}] {k} processed {c} times: {seq}')
        for k in sorted(must_visit):
            if k not in cnt:
                return (f'not-visited kind={clo.must_nodes[k]} ignored={clo.ignored.get(k)}',
                        f'[{tag}] {k} must be processed, log has {seq}')
        for k in seq:
            if k not in may_visit:
                why = 'not-in-reference-graph' if k not in allnodes else (
                    'kind-not-selected' if allnodes[k] not in kinds else (
                        'ignored' if clo.ignored.get(k) is True and not man['ignored'] else 'mode-mismatch'))
                return (f'visited-unexpected kind={allnodes.get(k, "?")} {why}', f'[{tag}] {k} processed although {why}: {seq}')
        pos = {k: i for i, k in enumerate(seq)}
        for a, b in sorted(clo.must_edges):
            if a in pos and b in pos and ((pos[a] > pos[b]) != man['reverse']):
                return (f'order {clo.must_nodes.get(a)}->{clo.must_nodes.get(b)} reverse={int(man["reverse"])}',
                        f'[{tag}] dependency {a} -> {b} but processing order is {seq}')
        for e in log:
            k = e[2]
            want = clo.rolemode.get(k)
            if want is not None and (e[3], e[4]) != want:
                return (f'role-mode kind={allnodes.get(k)}', f'[{tag}] {k} got role/mode {(e[3], e[4])}, configuration says {want}')
            if k in clo.targets:
                tin, tout = clo.targets[k]
                got = set(e[5])
                if not tin <= got:
                    return ('targets-missing', f'[{tag}] {k}: targets {sorted(got)} lack active callee(s) {sorted(tin - got)}')
                if tout & got:
                    return ('targets-pruned-present', f'[{tag}] {k}: targets {sorted(got)} contain pruned callee(s) {sorted(tout & got)}')
        return None
    # ---- file-graph mode
    rootstr = str(root).lower().rstrip('/') + '/'
    files = [e for e in log if e[0] == 'file']
    seq = [e[1][len(rootstr):] if e[1].startswith(rootstr) else e[1] for e in files]
    lower_files = {f.lower(): f for f in project.files}
    file_of = lambda k: project.file_of(k).lower() if k in project.items else None
    must_files = {file_of(k) for k in must_visit}
    may_files = {file_of(k) for k in may_visit}
    if man['mode'] is not None and clo.cfg.default.get('mode') != man['mode']:
        # a file item carries the configured default mode (no routine entry names a file): a traversal for
        # another mode must not touch any file
        must_files, may_files = set(), set()
    cnt = collections.Counter(seq)
    for f, c in sorted(cnt.items()):
        if c > 1:
            return ('file-visited-twice', f'[{tag}] file {f} processed {c} times: {seq}')
    for f in sorted(must_files):
        if f not in cnt:
            return ('file-not-visited', f'[{tag}] file {f} contains an item that must be processed; files visited: {seq}')
    for f in seq:
        if f not in may_files:
            if man['mode'] is not None and clo.cfg.default.get('mode') != man['mode']:
                return ('file-visited-mode-mismatch', f'[{tag}] file {f} has mode {clo.cfg.default.get("mode")!r} but was '
                        f'processed by a traversal for mode {man["mode"]!r}: {seq}')
            return ('file-visited-unexpected' + ('' if f in lower_files else ' unknown-file'),
                    f'[{tag}] file {f} holds no selected item but was processed: {seq}')
    # order: only if the reference file graph (over selectable items) is acyclic
    fedges = set()
    for a, b in clo.must_edges | clo.may_edges:
        if a in may_visit and b in may_visit and file_of(a) != file_of(b):
            fedges.add((file_of(a), file_of(b)))
    if not bg._has_cycle(fedges):   # pylint: disable=protected-access
        pos = {f: i for i, f in enumerate(seq)}
        for a, b in sorted(clo.must_edges):
            if a in must_visit and b in must_visit:
                fa, fb = file_of(a), file_of(b)
                if fa != fb and fa in pos and fb in pos and ((pos[fa] > pos[fb]) != man['reverse']):
                    return (f'file-order reverse={int(man["reverse"])}',
                            f'[{tag}] dependency {a} ({fa}) -> {b} ({fb}) but file order is {seq}')
    # recursion entries: nothing outside the reference graph (or the enclosing modules), each at most once
    inner = [e for e in log if e[0] != 'file']
    if inner and not man['recurse']:
        return ('recursion-without-flag', f'[{tag}] module/procedure methods called without recursion flags: {inner[:3]}')
    c2 = collections.Counter((e[0], e[2]) for e in inner)
    for (m, k), c in sorted(c2.items(), key=repr):
        if c > 1:
            return ('recursed-twice', f'[{tag}] {m} {k} processed {c} times in file-graph recursion')
    modules_of = {name_scope(k) for k in allnodes}
    by_name = {pr.name: pr.item for pr in project.procs}
    for e in inner:
        k = e[2]
        if k is None:
            continue
        via = ''
        if any(k.endswith(f) for f in lower_files):
            # Transformation.apply_file falls back to "everything in the file" with the file item when the
            # scheduler hands it an empty item list: judge the routine that was actually transformed
            if e[0] != 'sub' or e[1] not in by_name:
                continue
            k, via = by_name[e[1]], ' via-file-fallback'
        if k not in allnodes and k not in modules_of:
            return (f'recursed-unexpected {"known-item" if k in project.items else "unknown-item"}{via}',
                    f'[{tag}] recursion reached {k}, which is not part of the dependency graph')
        if not man['ignored'] and clo.ignored.get(k) is True:
            return (f'recursed-ignored{via}', f'[{tag}] recursion processed ignored item {k}')
    return None


def name_scope(item_name):
    return item_name.partition('#')[0] if '#' in item_name else item_name


def run_state(project, root, cspec, perm):
    """-> (kind, failclass, detail, nruns)   kind in ok|refusal|dontcare|graphfail|fail"""
    from loki.batch import ProcessingStrategy
    made = bg.make_config(project, cspec)
    clo = bg.reference_closure(project, made)
    if clo.dontcare:
        return 'dontcare', None, None, 0
    try:
        sched = bg.build_scheduler(root, project, made, perm)
    except Exception:   # pylint: disable=broad-except
        # graph construction problems are C21's business
        return ('refusal' if clo.may_raise else 'graphfail'), None, None, 0
    if bg.compare_graph(project, clo, bg.observe_graph(sched)):
        return 'graphfail', None, None, 0      # judged by C21; processing a wrong graph proves nothing here
    strategies = [('PLAN', ProcessingStrategy.PLAN)]
    if made['full_parse']:
        strategies.insert(0, ('SEQUENCE', ProcessingStrategy.SEQUENCE))
    externals = [(it.name.lower(), getattr(it.origin_cls, '__name__', 'Item')[:-4])
                 for it in sched.items if type(it).__name__ == 'ExternalItem']
    has_external = bool(externals)
    strict = made['config']['default'].get('strict', True)      # documented default: True
    nruns = 0
    refused = [0]
    for man in MANIFESTS:
        logs = {}
        for sname, strat in strategies:
            log = []
            probe = make_probe(man, log)
            nruns += 1
            # documented (transform.rst): external items are skipped unless strict, then an error is issued
            # for an external item that matches the item filter (item-graph traversals)
            must_refuse = strict and not man['filegraph'] and any(k in FILTERS[man['filter']] for _, k in externals)
            try:
                sched.process_transformation(probe, proc_strategy=strat, mode=man['mode'])
                if must_refuse:
                    return 'fail', 'external-item-not-refused-under-strict', \
                        f'[{man}] {sname}: strict (default True) and the selected kinds include the external item(s) ' \
                        f'{externals}, but processing did not raise; log {log}', nruns
            except Exception as e:   # pylint: disable=broad-except
                if has_external and 'external' in str(e).lower():
                    if not must_refuse:
                        return 'fail', 'external-item-refused-unexpectedly', \
                            f'[{man}] {sname}: raised {e} although strict={strict} / kinds {FILTERS[man["filter"]]} vs {externals}', nruns
                    logs[sname] = None
                    continue
                if 'to be complete' in str(e) and not made['config']['default'].get('enable_imports') \
                        and set(FILTERS[man['filter']]) - {'Procedure'}:
                    # documented limitation (transform.rst): without enable_imports only control-flow
                    # dependencies are parsed and processed; an explicit "requires ... to be complete" for a
                    # non-procedure item is a refusal, not a verdict
                    logs[sname] = None
                    refused[0] += 1
                    continue
                cause = e.__cause__ or e
                msg = bg.role_text(project, f'{type(cause).__name__}: {cause}')[:90]
                fg = 'file-graph ' if man['filegraph'] else ''
                return 'fail', f'{fg}processing raised {msg}', \
                    f'[{man}] {sname}: process_transformation raised {type(e).__name__}: {e}', nruns
            logs[sname] = log
            bad = judge(project, clo, man, log, root)
            if bad:
                return 'fail', bad[0], f'{sname} {bad[1]}', nruns
        if len(logs) == 2 and logs['SEQUENCE'] is not None and logs['PLAN'] is not None \
                and logs['SEQUENCE'] != logs['PLAN']:
            return 'fail', 'plan-differs-from-sequence', f'[{man}] SEQUENCE log {logs["SEQUENCE"]} != PLAN log {logs["PLAN"]}', nruns
    return 'ok', None, None, nruns


def work(unit):
    project = bg.build_project(unit['p'])
    root = _wd().root_for(project)
    orders = bg.discovery_orders(project)
    if unit['orders'] == 'id':
        orders = orders[:1]
    res = collections.Counter()
    fails = []
    for cspec in unit['cs']:
        for perm in orders:
            kind, fc, det, nruns = run_state(project, root, cspec, perm)
            res['cases'] += 1
            res[kind] += 1
            res['runs'] += nruns
            if kind == 'fail':
                fails.append((fc, dict(p=unit['p'], c=cspec, o=perm), det))
    return dict(res=dict(res), fails=fails)


_LAST = {}


def fails_as(case):
    project = bg.build_project(case['p'])
    if project is None:
        return None
    d = Path(tempfile.mkdtemp(prefix='c22_', dir='/dev/shm' if Path('/dev/shm').is_dir() else None))
    try:
        bg.quiet_loki()
        project.write(d)
        kind, fc, det, _ = run_state(project, d, case.get('c', []), case.get('o'))
        _LAST['detail'] = det
        return fc if kind == 'fail' else None
    finally:
        shutil.rmtree(d, ignore_errors=True)


def shrink_one(item):
    fc, case = item
    core = br.greedy_shrink(fc, case, fails_as, budget=80)
    got = fails_as(core)
    return core, got or fc, _LAST.get('detail') or ''


def with_full_parse(cs):
    """SEQUENCE needs complete sources: every configuration is run with a full parse, except the ones
    that are themselves the `full_parse` switch (those run PLAN on the incomplete sources)."""
    out = []
    for c in cs:
        if any(s == 'full_parse' for s, _ in c):
            out.append([x for x in c if x[0] != 'full_parse'])       # = no full parse: PLAN only
        else:
            out.append(sorted(c + [['full_parse', True]], key=repr))
    return out


def make_units(specs, dmin, dmax, orders, per_unit=12):
    from checks.c21_sched_graph import _weight, _chunks
    units = []
    for s in specs:
        p = bg.build_project(s)
        cs = [c for c in bg.enumerate_configs(p, dmax, process=True) if _weight(c) >= dmin]
        cs = with_full_parse(cs)
        k = max(1, per_unit // (len(bg.discovery_orders(p)) if orders != 'id' else 1))
        for part in _chunks(cs, k):
            if part:
                units.append(dict(p=s, cs=part, orders=orders))
    return units


def run(ctx):
    from vf.explore import seeded_order
    _CFG['scratch'] = str(ctx.scratch)
    ctx.reset_pool()
    names = ctx.seed % len(bg.NAME_POOLS)
    f0 = list(bg.enumerate_projects(3, feature_budget=0, names=names))
    f1 = [s for s in bg.enumerate_projects(3, feature_budget=1, names=names) if s['features']]
    core_layouts = ('free', 'ownmod', 'shared', 'mixed', 'allmod', 'bundle_mixed', 'split', 'casedirs')
    f0core = [s for s in f0 if s['layout'] in core_layouts]
    q_layouts = ('free', 'ownmod', 'mixed')
    f0q = [s for s in f0 if s['layout'] in q_layouts]
    f1q = [s for s in f1 if s['imp'] == 'only']
    stages = [
        ('P1: n<=3, feature-free projects (every layout x import style); base configuration; every discovery order',
         lambda: make_units(f0, 0, 0, 'all')),
        ('P2: n<=3, projects with one feature and ONLY-imports; base configuration; sorted discovery order',
         lambda: make_units(f1q, 0, 0, 'id')),
        ('P3: n<=3, feature-free projects, layouts free/ownmod/mixed; configuration deviations of weight 1 (incl. role/mode '
         'overrides, no-full-parse = PLAN only); sorted discovery order', lambda: make_units(f0q, 1, 1, 'id')),
    ]
    if not ctx.quick:
        rest = [s for s in f0 if s['layout'] not in q_layouts]
        f1rest = [s for s in f1 if s['imp'] != 'only']
        f0p5 = [s for s in f0 if s['layout'] in ('free', 'ownmod', 'mixed')]
        stages += [
            ('P4: n<=3, feature-free projects, remaining layouts; configuration deviations of weight 1; sorted discovery order',
             lambda: make_units(rest, 1, 1, 'id')),
            ('P4b: n<=3, projects with one feature and bare/renamed imports; base configuration; sorted discovery order',
             lambda: make_units(f1rest, 0, 0, 'id')),
            ('P5: n<=3, feature-free projects, layouts free/ownmod/mixed; configuration deviations of weight 2; sorted discovery order',
             lambda: make_units(f0p5, 2, 2, 'id')),
        ]
    deadline = br.stage_deadline(ctx)
    total = collections.Counter()
    failures, done_stages, exhaustive = [], [], True
    for title, mk in stages:
        if ctx.elapsed() > deadline:
            exhaustive = False
            ctx.note(f'time cap reached before stage: {title}')
            break
        units = seeded_order(mk(), ctx.seed)
        results, completed, ndone = br.staged_run(ctx, work, units, deadline)
        st = collections.Counter()
        for r in results:
            st.update(r['res'])
            failures.extend(r['fails'])
        total.update(st)
        done_stages.append(dict(stage=title, completed=completed, cases=st['cases'], probe_runs=st['runs'],
                                refusals=st['refusal'], graph_not_conforming=st['graphfail'], failing=st['fail']))
        if not completed:
            exhaustive = False
            ctx.note(f'time cap reached: stage not completed ({ndone}/{len(units)} work units): {title}')
            break
    ctx.require(total['runs'] >= 1000, f'vacuous: only {total["runs"]} probe runs')
    sigs, nb = br.bucket_and_shrink(ctx, failures, shrink_one)
    for sig, case, det in sigs:
        ctx.violation(sig, case, det)
    sp = bg.build_project(dict(n=3, edges=[[0, 1], [0, 2], [1, 2]], layout='mixed', imp='only', names=names))
    ctx.cov.update(
        states=total['runs'], transitions=total['runs'], traces_validated_against_impl=total['runs'],
        evaluations=total['runs'], distinct_nontrivial=total['ok'] + total['fail'],
        exhaustive=exhaustive,
        rule='state = (project, configuration, discovery order, manifest, strategy): one real process_transformation run of the '
             'logging probe, judged against the reference closure; distinct_nontrivial = (project, configuration, order) '
             'triples whose graph conforms to C21\'s reference and that were processed under the whole manifest product',
        bound=dict(stages=done_stages, manifests=len(MANIFESTS), strategies=['SEQUENCE', 'PLAN'], name_pool=names),
        samples=[dict(project=sp.spec, config=bg.make_config(sp, [['ignore@default', [2, 'plain']], ['full_parse', True]]),
                      manifest=MANIFESTS[5], strategy='SEQUENCE')],
        cases=total['cases'], graph_not_conforming_skipped=total['graphfail'], refusals=total['refusal'],
        failure_buckets=nb,
    )
    ctx.assumptions += [
        'signatures: every failing case is reduced to a minimal failing case (any symptom); signature = symptom of that core + '
        'the attributes it still needs; Loki\'s 30 s wall-clock REGEX-frontend timeout is switched off (load-dependent)',
        'states whose graph does not conform to the C21 reference are skipped here (they are C21 violations)',
        'the processing order is only required to be a topological order of the reference must-edges',
        'targets: only call-site names of callees are judged (module names / imported symbols are don\'t-care)',
        'recursion in file-graph mode: only "no item outside the graph, at most once" is demanded',
    ]


def replay(case):
    fc = fails_as(case)
    return f'{fc}: {_LAST.get("detail")}' if fc else None
