"""Differential testing of source-to-source transformations against gfortran (group T checks).

A *case* is a JSON-able dict:
    id        str   stable identifier (template name + switch settings)
    sources   [[filename, text], ...]   Fortran sources that go through Loki (modules / subroutines, no PROGRAM)
    driver    text of the harness-owned PROGRAM (never goes through Loki); it calls the kernels on
              every input of its input grid and prints every output
    xform     str   name of the transformation entry point (interpreted by the check's `apply`)
    opts      dict  options of the transformation
    switches  dict  feature switches away from the template default (for signatures/shrinking)
    extra     [[filename, text], ...]  optional sources compiled first, not given to Loki (stub modules)

run_case(case, apply) parses every source with Frontend.FP (in order, with `definitions` so that
calls/imports are enriched), calls apply(case, files) -> None (in-place on the Sourcefile objects in
`files`: dict filename -> Sourcefile) or a dict filename -> text, builds original and transformed
programs with the same driver and compares stdout.

Verdicts: ok | unchanged-ok | refused | loki-exception | xform-compile-error | xform-run-error |
          output-differs | HARNESS (original does not build/run: generator bug)
"""
import logging
import re
import traceback

from vf import gf

REFUSAL_TYPES = (NotImplementedError,)
REFUSAL_TEXT = re.compile(r'not (yet )?(supported|implemented)|cannot |unsupported|not possible', re.I)
FLAGS = ('-fcheck=bounds', '-ffpe-summary=none')


def quiet():
    logging.disable(logging.CRITICAL)


def parse_sources(case):
    from loki import Sourcefile, Frontend
    files, defs = {}, []
    # `loki_sources` (optional): what Loki parses when the *reference* program (`sources`) is a harness-side
    # rewrite of it (staged transformations whose intermediate step changes the meaning consistently)
    for fname, text in case.get('loki_sources', case['sources']):
        sf = Sourcefile.from_source(text, frontend=Frontend.FP, definitions=defs)
        files[fname] = sf
        defs = defs + list(sf.modules) + list(sf.routines)
    return files


def enrich_all(files):
    """(re-)enrich every routine with all definitions of the case (calls -> routine objects)."""
    defs = []
    for sf in files.values():
        defs += list(sf.modules) + list(sf.routines)
    for sf in files.values():
        for r in sf.all_subroutines:
            try:
                r.enrich(defs, recurse=True)
            except Exception:  # pylint: disable=broad-except
                pass
    return defs


def norm_out(text):
    """stdout normalisation: trailing blanks only (drivers print with explicit formats)."""
    return [ln.rstrip() for ln in text.splitlines()]


def build_run(sources, driver, extra=(), base=None, flags=FLAGS, timeout=60):
    srcs = [tuple(x) for x in extra] + [tuple(x) for x in sources] + [('zz_driver.f90', driver)]
    return gf.compile_and_run(srcs, flags=list(flags), base=base, timeout=timeout)


def is_refusal(ex):
    return isinstance(ex, REFUSAL_TYPES) or bool(REFUSAL_TEXT.search(str(ex)))


def run_case(case, apply, base=None, flags=FLAGS, keep_files=False):
    """-> dict(verdict, detail, changed, transformed=[[fname, text]...])"""
    quiet()
    orig = build_run(case['sources'], case['driver'], case.get('extra', ()), base=base, flags=flags)
    if not orig['ok']:
        return dict(verdict='HARNESS', detail=f'original fails at {orig["stage"]}: {orig["err"][-600:]}', changed=False)
    try:
        files = parse_sources(case)
        ret = apply(case, files)
        if isinstance(ret, dict):
            new = [[f, ret.get(f, None) or files[f].to_fortran()] for f, _ in case['sources']]
            new += [[f, t] for f, t in ret.items() if f not in files]
        else:
            new = [[f, files[f].to_fortran()] for f, _ in case['sources']]
    except Exception as ex:  # pylint: disable=broad-except
        tb = traceback.format_exc().strip().splitlines()
        where = next((ln.strip() for ln in reversed(tb) if ln.strip().startswith('File "') and '/loki/' in ln), '')
        if is_refusal(ex):
            return dict(verdict='refused', detail=f'{type(ex).__name__}: {str(ex)[:200]}', changed=False)
        return dict(verdict='loki-exception', detail=f'{type(ex).__name__}: {str(ex)[:300]} @ {where}', changed=False)
    from loki import Sourcefile, Frontend
    try:
        base_text = [[f, Sourcefile.from_source(t, frontend=Frontend.FP).to_fortran()] for f, t in case['sources']]
    except Exception:  # pylint: disable=broad-except
        base_text = None
    changed = base_text is None or [t for _, t in base_text] != [t for _, t in new[:len(base_text)]] or len(new) != len(base_text)
    res = build_run(new, case['driver'], case.get('extra', ()), base=base, flags=flags)
    out = dict(changed=changed, transformed=new if keep_files else None)
    if not res['ok']:
        kind = 'xform-compile-error' if res['stage'] == 'compile' else 'xform-run-error'
        out.update(verdict=kind, detail=(res['err'] or '')[-900:])
        return out
    a, b = norm_out(orig['out']), norm_out(res['out'])
    if a != b:
        n = next((i for i, (x, y) in enumerate(zip(a, b)) if x != y), min(len(a), len(b)))
        out.update(verdict='output-differs',
                   detail=f'first difference at output line {n + 1}: original {a[n] if n < len(a) else "<eof>"!r} '
                          f'vs transformed {b[n] if n < len(b) else "<eof>"!r}')
        return out
    out.update(verdict='ok' if changed else 'unchanged-ok', detail='', nlines=len(a),
               distinct_lines=len(set(a)))
    return out


# ---------------------------------------------------------------------------- well-formedness (C41)
def scope_chain_ok(unit):
    """every TypedSymbol reachable from `unit` has a scope in the unit's own chain (or none)."""
    from loki import FindTypedSymbols
    from loki.types import Scope
    bad = []
    own = set()

    def chain(u):
        s = u
        while s is not None:
            own.add(id(s))
            s = s.parent
    units = [unit]
    if hasattr(unit, 'members'):
        units += list(unit.members)
    if hasattr(unit, 'subroutines'):
        units += list(unit.subroutines)
    for u in units:
        chain(u)
        from loki import ir, FindNodes
        for sc in FindNodes((ir.Associate, ir.TypeDef)).visit(getattr(u, 'ir', ())):
            own.add(id(sc))
    for u in units:
        for s in FindTypedSymbols().visit(u.ir):
            sc = getattr(s, 'scope', None)
            if sc is not None and id(sc) not in own:
                bad.append(f'{s} in {u.name}: scope {type(sc).__name__} {getattr(sc, "name", "")} not in own chain')
    return bad


def wellformed(files, extra=(), base=None):
    """-> list of problems: scope chain, re-parse with FP, gfortran -fsyntax-only (implicit none catches
    undeclared variables when the sources declare it)."""
    from loki import Sourcefile, Frontend
    problems = []
    texts = []
    for fname, sf in files.items():
        for unit in list(sf.modules) + list(sf.routines):
            try:
                problems += [f'scope: {b}' for b in scope_chain_ok(unit)[:3]]
            except Exception as ex:  # pylint: disable=broad-except
                problems.append(f'traversal: walking the IR of {unit.name} raises {type(ex).__name__}: {str(ex)[:160]}')
        try:
            t = sf.to_fortran()
        except Exception as ex:  # pylint: disable=broad-except
            problems.append(f'backend: fgen of {fname} raises {type(ex).__name__}: {str(ex)[:160]}')
            continue
        texts.append((fname, t))
        try:
            Sourcefile.from_source(t, frontend=Frontend.FP)
        except Exception as ex:  # pylint: disable=broad-except
            problems.append(f'reparse {fname}: {type(ex).__name__}: {str(ex)[:200]}')
    with gf.Build(base) as b:
        names = [b.write(n, t).name for n, t in list(extra) + texts]
        ok, err = b.fsyntax(names)
        if not ok:
            problems.append(f'gfortran -fsyntax-only: {err[-500:]}')
    return problems


# ---------------------------------------------------------------------------- generic driver for checks
def judge_cases(ctx, cases, worker):
    """worker: top-level function(case) -> result dict from run_case (plus 'id').  Returns results in order."""
    from vf.explore import seeded_order
    order = seeded_order(list(range(len(cases))), ctx.seed)
    res = ctx.pmap(worker, [cases[i] for i in order], chunksize=1)
    out = [None] * len(cases)
    for i, r in zip(order, res):
        out[i] = r
    return out


def summarise(ctx, cases, results, sigfn, min_changed=5):
    """Common bookkeeping: HARNESS -> harness error; violations; coverage counters."""
    tally = {}
    for c, r in zip(cases, results):
        tally[r['verdict']] = tally.get(r['verdict'], 0) + 1
    harness = [(c, r) for c, r in zip(cases, results) if r['verdict'] == 'HARNESS']
    ctx.require(not harness, f'{len(harness)} generated programs do not build/run before transformation, first: '
                             f'{harness[0][0]["id"] if harness else ""}: {harness[0][1]["detail"] if harness else ""}')
    for c, r in zip(cases, results):
        if r['verdict'] in ('ok', 'unchanged-ok', 'refused'):
            continue
        ctx.violation(sigfn(c, r), c, f'{r["verdict"]}: {r["detail"]}')
    changed = sum(1 for r in results if r.get('changed') and r['verdict'] == 'ok')
    ctx.require(changed >= min_changed, f'vacuous: the transformation changed only {changed} of {len(cases)} programs')
    ctx.cov.update(evaluations=len(cases), distinct_nontrivial=changed, verdicts=tally,
                   refused_examples=[f'{c["id"]}: {r["detail"]}' for c, r in zip(cases, results)
                                     if r['verdict'] == 'refused'][:8])
    return tally
