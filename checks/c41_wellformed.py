"""C41  Built-in transformations leave a well-formed IR.

ENUM.  Space: the case streams of every group-T check that exists (checks/c28 ... c39: each exposes
make_cases(d) and apply(case, files)) - i.e. every built-in transformation / pipeline with its option
combinations on its own deviation-bounded program stream.  After the transformation:
  * every TypedSymbol reachable from each program unit has a scope inside that unit's own scope
    chain (unit, its parents, its members, ASSOCIATE/TYPE scopes inside it) or no scope at all;
  * the generated code is accepted again by the FP frontend;
  * the generated code passes `gfortran -fsyntax-only` together with the case's other sources
    (all templates use IMPLICIT NONE, so an undeclared / un-imported variable is a compile error:
    "every variable used is declared, imported or host-associated" is decided by the compiler on
    the emitted text, not by Loki's own tables).
Cases the transformation refuses (explicit NotImplementedError / "not supported") or on which it
raises are not judged here (the behavioural check of that transformation reports them).
"""
import importlib
import json
import logging
import pkgutil

from vf import xform

PROPERTY = 'C41'
LEVEL = 'exploration'
META = dict(
    engine='enum',
    technique='deviation-bounded exhaustive template enumeration over every transformation stream; scope-chain walk + FP re-parse + gfortran -fsyntax-only on the emitted text',
    level_text='every case of every available group-T stream (all built-in transformations with their option products, <= d '
               'feature switches): symbols scoped in their own unit chain, output re-parses and is accepted by gfortran; '
               'exhaustive for d',
    level_note='declaredness is decided by gfortran on IMPLICIT NONE sources; streams are those of checks c28..c39 that exist at run time (listed in the evidence)',
)

GROUP_T = ['c28', 'c29', 'c30', 'c31', 'c32', 'c33', 'c34', 'c35', 'c36', 'c37', 'c38', 'c39']


def streams():
    import checks
    mods = {}
    for m in pkgutil.iter_modules(checks.__path__):
        pre = m.name.split('_')[0]
        if pre in GROUP_T:
            try:
                mod = importlib.import_module(f'checks.{m.name}')
            except Exception:  # pylint: disable=broad-except
                continue
            if hasattr(mod, 'make_cases') and hasattr(mod, 'apply'):
                mods[pre] = mod
    return mods


def _sw(case):
    """switches of a case as a list of hashable strings (modules use lists, dicts or nested values)"""
    sw = case.get('switches', ())
    if isinstance(sw, dict):
        return [f'{k}={v}' for k, v in sorted(sw.items(), key=lambda kv: str(kv[0]))]
    return [x if isinstance(x, str) else json.dumps(x, sort_keys=True, default=str) for x in sw]


def worker(item):
    pre, case = item
    xform.quiet()
    mod = streams()[pre]
    try:
        files = xform.parse_sources(case)
        ret = mod.apply(case, files)
    except Exception as ex:  # pylint: disable=broad-except
        return dict(id=case['id'], stream=pre, verdict='not-judged', detail=f'{type(ex).__name__}: {str(ex)[:120]}')
    if isinstance(ret, dict):
        # the check returned texts (e.g. scheduler-driven pipelines): judge re-parse + syntax only
        from loki import Sourcefile, Frontend
        problems = []
        texts = []
        for fname, text in ret.items():
            texts.append((fname, text))
            try:
                sf = Sourcefile.from_source(text, frontend=Frontend.FP)
                for unit in list(sf.modules) + list(sf.routines):
                    problems += [f'scope: {b}' for b in xform.scope_chain_ok(unit)[:3]]
            except Exception as ex:  # pylint: disable=broad-except
                problems.append(f'reparse {fname}: {type(ex).__name__}: {str(ex)[:200]}')
        from vf import gf
        others = [(f, t) for f, t in case['sources'] if f not in ret]
        with gf.Build(worker.base) as b:
            names = [b.write(n, t).name for n, t in list(case.get('extra', ())) + others + texts
                     if n.lower().endswith(('.f90',))]
            ok, err = b.fsyntax(names)
            if not ok:
                problems.append(f'gfortran -fsyntax-only: {err[-500:]}')
    else:
        problems = xform.wellformed(files, extra=case.get('extra', ()), base=worker.base)
    if problems:
        kind = problems[0].split(':', 1)[0].split()[0]
        return dict(id=case['id'], stream=pre, verdict='ill-formed', kind=kind, detail=' | '.join(problems)[:900])
    return dict(id=case['id'], stream=pre, verdict='ok', detail='')


worker.base = None


def run(ctx):
    logging.disable(logging.CRITICAL)
    d = 1 if ctx.quick else 2
    mods = streams()
    ctx.require(len(mods) >= 1, 'no group-T stream available')
    items = []
    for pre, mod in sorted(mods.items()):
        for case in mod.make_cases(d):
            items.append((pre, case))
    worker.base = str(ctx.scratch)
    ctx.reset_pool()
    from vf.explore import seeded_order
    order = seeded_order(list(range(len(items))), ctx.seed)
    res = ctx.pmap(worker, [items[i] for i in order], chunksize=1)
    results = [None] * len(items)
    for i, r in zip(order, res):
        results[i] = r
    tally = {}
    single = {}
    for (pre, case), r in zip(items, results):
        tally[(pre, r['verdict'])] = tally.get((pre, r['verdict']), 0) + 1
        if r['verdict'] == 'ill-formed' and len(_sw(case)) <= 1:
            single[(pre, str(case.get('xform')), tuple(_sw(case)))] = r['kind']
    for (pre, case), r in zip(items, results):
        if r['verdict'] != 'ill-formed':
            continue
        sws = _sw(case)
        culprit = next((s for s in sws if single.get((pre, str(case.get('xform')), (s,))) == r['kind']), None)
        if culprit is None and single.get((pre, str(case.get('xform')), ())) == r['kind']:
            culprit = '<default>'
        sig = f'{r["kind"]} stream={pre} xform={case.get("xform")} ' + \
              (f'block={culprit}' if culprit else f'blocks={"+".join(sws) or "<default>"}')
        ctx.violation(sig, dict(stream=pre, case=case), r['detail'])
    judged = sum(1 for r in results if r['verdict'] in ('ok', 'ill-formed'))
    ctx.require(judged >= 20, f'vacuous: only {judged} transformed programs judged')
    ctx.cov.update(
        evaluations=len(items), distinct_nontrivial=judged, exhaustive=True,
        streams=sorted(mods), missing_streams=[p for p in GROUP_T if p not in mods],
        verdicts={f'{p}:{v}': n for (p, v), n in sorted(tally.items())},
        rule=f'every case (<= {d} feature switches x all transformation variants) of the group-T streams {sorted(mods)}; '
             'non-trivial = the transformation ran and its output was judged',
        samples=[dict(stream=items[0][0], id=items[0][1]['id']), dict(stream=items[-1][0], id=items[-1][1]['id'])],
        bound=dict(max_switches=d),
    )
    ctx.assumptions += ['gfortran -fsyntax-only on IMPLICIT NONE sources decides "declared, imported or host-associated"']


def replay(case):
    worker.base = None
    r = worker((case['stream'], case['case']))
    return None if r['verdict'] != 'ill-formed' else r['detail']
