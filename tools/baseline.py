#!/venv/bin/python
"""Run the pinned suite on /repo (or another tree) and compare with BASELINE.json stable_pass.
usage: baseline.py [repo_dir] [-n workers] [pytest args...]   exit 0 iff every stable_pass test passes."""
import json, subprocess, sys, tempfile, os
import xml.etree.ElementTree as ET
repo = '/repo'
args = sys.argv[1:]
if args and os.path.isdir(args[0]):
    repo = args.pop(0)
base = json.load(open('/root/.vp/BASELINE.json'))
stable = set(base['stable_pass'])
with tempfile.NamedTemporaryFile(suffix='.xml', delete=False) as f:
    xml = f.name
cmd = ['/venv/bin/python', '-m', 'pytest', '-q', '-p', 'no:cacheprovider', '--timeout=900',
       '--continue-on-collection-errors', f'--junitxml={xml}', '-n', os.environ.get('BASELINE_N', '14')] + args
env = dict(os.environ)
env.pop('LOKI_VERIF', None)
r = subprocess.run(cmd, cwd=repo, capture_output=True, text=True, env=env)
print(r.stdout.strip().splitlines()[-1] if r.stdout.strip() else r.stderr[-500:])
passed = set()
for tc in ET.parse(xml).getroot().iter('testcase'):
    if not any(c.tag in ('failure', 'error', 'skipped') for c in tc):
        passed.add(f"{tc.get('classname')}::{tc.get('name')}")
os.unlink(xml)
paths = [a for a in args if not a.startswith('-') and ('/' in a or a.endswith('.py'))]
if paths:
    pref = tuple(p.rstrip('/').removesuffix('.py').replace('/', '.') for p in paths)
    stable = {t for t in stable if t.startswith(pref)}
missing = sorted(stable - passed)
print(f'stable_pass={len(stable)} passed_now={len(passed)} stable_now_failing={len(missing)}')
for m in missing[:40]:
    print('  REGRESSION', m)
sys.exit(1 if missing else 0)
