"""Harness canonicaliser for Loki IR: class names + fields, expression trees by pymbolic
structure and class (NOT by Loki's string-based ==), source/ids ignored."""
import pymbolic.primitives as pmbl


def canon_expr(e):
    from loki.expression import symbols as sym
    if e is None or isinstance(e, (str, int, float, bool)):
        return e
    if isinstance(e, (tuple, list)):
        return tuple(canon_expr(c) for c in e)
    cls = type(e).__name__
    if isinstance(e, sym.IntLiteral):
        return (cls, e.value, canon_expr(e.kind))
    if isinstance(e, sym.FloatLiteral):
        return (cls, str(e.value).lower(), canon_expr(e.kind))
    if isinstance(e, sym.LogicLiteral):
        return (cls, bool(e.value))
    if isinstance(e, sym.StringLiteral):
        return (cls, e.value)
    if isinstance(e, sym.IntrinsicLiteral):
        return (cls, str(e.value))
    if isinstance(e, sym.LiteralList):
        return (cls, canon_expr(e.elements), str(getattr(e, 'dtype', None)))
    if isinstance(e, (sym.Array,)):
        return (cls, e.name.lower(), canon_expr(getattr(e, 'dimensions', None)))
    if isinstance(e, (sym.MetaSymbol, sym.TypedSymbol)):
        return (cls, e.name.lower())
    if isinstance(e, sym.InlineCall):
        return (cls, canon_expr(e.function), canon_expr(e.parameters),
                tuple(sorted((k, canon_expr(v)) for k, v in (e.kw_parameters or {}).items())))
    if isinstance(e, sym.Cast):
        return (cls, e.name.lower(), canon_expr(e.parameters), canon_expr(e.kind))
    if isinstance(e, sym.Range):
        return (cls, canon_expr(e.children))
    if isinstance(e, sym.InlineDo):
        return (cls, canon_expr(e.values), canon_expr(e.variable), canon_expr(e.bounds))
    if isinstance(e, pmbl.Comparison):
        return (cls, e.operator, canon_expr(e.left), canon_expr(e.right))
    if isinstance(e, pmbl.Expression):
        try:
            args = e.__getinitargs__()
        except Exception:  # pylint: disable=broad-except
            args = ()
        return (cls, tuple(canon_expr(a) for a in args))
    return (cls, str(e))


_SKIP = {'source', 'label', '_source', '_parent', 'parent', 'symbol_attrs', 'rescope_symbols', 'ast', 'incomplete',
         '_incomplete', '_frontend', '_parser_classes'}


def canon_ir(node):
    """Canonical nested-tuple form of an IR (sub)tree or program unit."""
    from loki import ir
    from loki.program_unit import ProgramUnit
    from loki.sourcefile import Sourcefile
    if node is None or isinstance(node, (str, int, float, bool)):
        return node
    if isinstance(node, (tuple, list)):
        return tuple(canon_ir(c) for c in node)
    if isinstance(node, dict):
        return tuple(sorted((str(k), canon_ir(v)) for k, v in node.items()))
    if isinstance(node, Sourcefile):
        return ('Sourcefile', canon_ir(node.ir))
    if isinstance(node, ProgramUnit):
        return (type(node).__name__, node.name.lower(),
                canon_expr(getattr(node, 'arguments', None) and tuple(node.arguments)),
                canon_ir(node.docstring), canon_ir(node.spec), canon_ir(getattr(node, 'body', None)),
                canon_ir(node.contains))
    if isinstance(node, ir.Node):
        out = [type(node).__name__]
        import dataclasses
        for f in dataclasses.fields(node):
            if f.name in _SKIP or f.name.startswith('_'):
                continue
            v = getattr(node, f.name)
            if isinstance(v, pmbl.Expression) or (isinstance(v, tuple) and v and all(
                    isinstance(c, pmbl.Expression) for c in v)):
                out.append((f.name, canon_expr(v)))
            elif isinstance(node, ir.Comment) and f.name == 'text':
                out.append((f.name, v))
            else:
                out.append((f.name, canon_ir(v)))
        return tuple(out)
    if isinstance(node, pmbl.Expression):
        return canon_expr(node)
    return (type(node).__name__, str(node))


def first_diff(a, b, path=''):
    """Human-readable location of the first difference between two canonical forms."""
    if type(a) is not type(b):
        return f'{path}: {str(a)[:120]} != {str(b)[:120]}'
    if isinstance(a, tuple):
        if len(a) != len(b):
            return f'{path}: length {len(a)} != {len(b)}: {str(a)[:160]} != {str(b)[:160]}'
        for i, (x, y) in enumerate(zip(a, b)):
            d = first_diff(x, y, f'{path}/{a[0] if i and isinstance(a[0], str) else ""}[{i}]')
            if d:
                return d
        return None
    return None if a == b else f'{path}: {str(a)[:120]} != {str(b)[:120]}'
