"""Typed expression trees for the expression-group checks (C06, C08, C09).

A tree ("spec") is a JSON-serialisable nested list:

    leaf   ['v', T, k]        k-th variable of type T          T in 'i' (integer) 'r' (real) 'l' (logical)
           ['l', T, value]    literal: int | real as *string* ('0.5') | bool
           ['c', value]       raw Python constant (only in trees converted back from Loki results)
    node   [op, child, ...]   op in  add mul div pow neg            (plain pymbolic/Loki nodes)
                                     padd pmul pdiv ppow pneg       (Parenthesised* classes)
                                     eq ne lt le gt ge  and or not

`neg` is unary minus in Loki's encoding, Product((-1, x)); `pneg` is ParenthesisedMul((-1, x)).

enum_trees(T, n, cfg)   every well-typed tree of type T with exactly n operator nodes (deterministic order)
enum_upto(T, n, cfg)    ... with at most n operator nodes, smallest first
build(spec, names)      the Loki expression object
from_loki(expr)         back to a spec (used to print / hash results of simplify)
show(spec)              constructor-style text, e.g.  Quotient(a, Product(b, c))
Guard / evaluate        guarded evaluation through vf.exprsem (int32 range, bounded powers, exactness flag)
shrink_core(...)        memoised greedy reduction to a minimal failing core + canonical form
"""
import itertools
from fractions import Fraction

from vf import exprsem

ARITH = ('i', 'r')
PLAIN_ARITH = ('add', 'mul', 'div', 'pow', 'neg')
PAREN_ARITH = ('padd', 'pmul', 'pdiv', 'ppow', 'pneg')
CMP = ('eq', 'ne', 'lt', 'le', 'gt', 'ge')
CMP_SYM = {'eq': '==', 'ne': '!=', 'lt': '<', 'le': '<=', 'gt': '>', 'ge': '>='}
SYM_CMP = {v: k for k, v in CMP_SYM.items()}
LOGIC = ('and', 'or', 'not')
BASE = {'padd': 'add', 'pmul': 'mul', 'pdiv': 'div', 'ppow': 'pow', 'pneg': 'neg'}
SHOW = {'add': 'Sum', 'mul': 'Product', 'div': 'Quotient', 'pow': 'Power',
        'padd': 'ParenthesisedAdd', 'pmul': 'ParenthesisedMul', 'pdiv': 'ParenthesisedDiv',
        'ppow': 'ParenthesisedPow', 'and': 'LogicalAnd', 'or': 'LogicalOr', 'not': 'LogicalNot'}

DEFAULT_CFG = dict(
    nvars=2,                      # variables per type
    int_lits=(2, -3),             # incl. a negative IntLiteral
    real_lits=('0.5', '2.0'),
    log_lits=(True, False),
    forms=('plain', 'paren'),     # operator node classes: plain and Parenthesised*
    arities=(2, 3),               # n-ary sums / products / and / or
    canonical=True,               # keep one representative per variable renaming (first occurrence order)
    cmp_types=('i', 'r'),         # operand types of comparisons in logical trees
)

# canonical spellings (index -> name); seeds choose among these pools (surface text only)
NAME_POOLS = [
    {'i': ('a', 'b', 'c', 'd', 'e', 'f'), 'r': ('x', 'y', 'z', 'w', 'u', 'v'), 'l': ('p', 'q', 'r', 's', 't', 'o')},
    {'i': ('n', 'm', 'k', 'j', 'i', 'l'), 'r': ('t', 'u', 'v', 'w', 'x', 'y'), 'l': ('g', 'h', 'e', 'f', 'c', 'd')},
    {'i': ('ia', 'jb', 'kc', 'ld', 'me', 'nf'), 'r': ('za', 'zb', 'zc', 'zd', 'ze', 'zf'),
     'l': ('la', 'lb', 'lc', 'ld2', 'le2', 'lf')},
]
CANON_NAMES = NAME_POOLS[0]

INT_POOL = (-3, -2, 2, 3, 5)
REAL_POOL = (Fraction(-3, 2), Fraction(-1, 2), Fraction(1, 2), Fraction(2), Fraction(4))
LOG_POOL = (True, False)


def names_for_seed(seed):
    return NAME_POOLS[seed % len(NAME_POOLS)]


# ------------------------------------------------------------------ structure
def is_leaf(s):
    return s[0] in ('v', 'l', 'c')


def kids(s):
    return [] if is_leaf(s) else s[1:]


def nops(s):
    return 0 if is_leaf(s) else 1 + sum(nops(c) for c in s[1:])


def depth(s):
    return 0 if is_leaf(s) else 1 + max(depth(c) for c in s[1:])


def typeof(s):
    """'i' | 'r' | 'l' (arithmetic type: real if any real leaf, as in Fortran mixed mode)."""
    h = s[0]
    if h in ('v', 'l'):
        return s[1]
    if h == 'c':
        v = s[1]
        return 'l' if isinstance(v, bool) else 'i' if isinstance(v, int) else 'r'
    if h in CMP or h in LOGIC:
        return 'l'
    if BASE.get(h, h) == 'pow':
        return 'r' if 'r' in (typeof(s[1]), typeof(s[2])) else 'i'
    ts = {typeof(c) for c in s[1:]}
    return 'r' if 'r' in ts else 'i'


def variables(s, acc=None):
    """(T, k) in order of first occurrence."""
    acc = [] if acc is None else acc
    if s[0] == 'v':
        if (s[1], s[2]) not in acc:
            acc.append((s[1], s[2]))
    elif not is_leaf(s):
        for c in s[1:]:
            variables(c, acc)
    return acc


def rename(s, m):
    """m: (T, k) -> k'   (also normalises the 2-child product (-1, x) to its one spelling, neg / pneg)"""
    if s[0] == 'v':
        return ['v', s[1], m.get((s[1], s[2]), s[2])]
    if is_leaf(s):
        return list(s)
    if s[0] in ('mul', 'pmul') and len(s) == 3 and s[1] == ['c', -1]:
        return ['neg' if s[0] == 'mul' else 'pneg', rename(s[2], m)]
    return [s[0]] + [rename(c, m) for c in s[1:]]


def canonical(s):
    """Variables renumbered per type in order of first occurrence."""
    cnt, m = {}, {}
    for T, k in variables(s):
        m[(T, k)] = cnt.get(T, 0)
        cnt[T] = cnt.get(T, 0) + 1
    return rename(s, m)


def is_canonical(s):
    nxt = {}
    for T, k in variables(s):
        if k != nxt.get(T, 0):
            return False
        nxt[T] = k + 1
    return True


def key(s):
    """Hashable form."""
    return tuple(key(c) if isinstance(c, list) else c for c in s)


def show(s, names=None):
    names = names or CANON_NAMES
    h = s[0]
    if h == 'v':
        return names[s[1]][s[2]]
    if h == 'l':
        if s[1] == 'l':
            return '.true.' if s[2] else '.false.'
        return str(s[2])
    if h == 'c':
        return f'py:{s[1]!r}'
    if h in CMP:
        return f'Comparison({show(s[1], names)} {CMP_SYM[h]} {show(s[2], names)})'
    if h in ('neg', 'pneg'):
        return f'{SHOW["mul" if h == "neg" else "pmul"]}(-1, {show(s[1], names)})'
    return f'{SHOW[h]}({", ".join(show(c, names) for c in s[1:])})'


# ------------------------------------------------------------------ enumeration
def _leaves(T, cfg):
    out = [['v', T, k] for k in range(cfg['nvars'])]
    lits = {'i': cfg['int_lits'], 'r': cfg['real_lits'], 'l': cfg['log_lits']}[T]
    out += [['l', T, v] for v in lits]
    return out


def _compositions(n, k):
    if k == 1:
        yield (n,)
        return
    for first in range(n + 1):
        for rest in _compositions(n - first, k - 1):
            yield (first,) + rest


class Enumerator:
    """All well-typed trees with exactly n operator nodes; memoised per (type, n)."""

    def __init__(self, cfg=None):
        self.cfg = dict(DEFAULT_CFG)
        if cfg:
            self.cfg.update(cfg)
        self.memo = {}

    def forms(self, op):
        f = []
        if 'plain' in self.cfg['forms']:
            f.append(op)
        if 'paren' in self.cfg['forms']:
            f.append('p' + op)
        return f

    def trees(self, T, n, role=None):
        """role='exp_r': exponent position of a real power (integer leaves only)."""
        k = (T, n, role)
        if k in self.memo:
            return self.memo[k]
        cfg = self.cfg
        out = []
        if n == 0:
            if role == 'exp_r':
                out = [['l', 'i', v] for v in cfg['int_lits']]
            else:
                out = _leaves(T, cfg)
        elif role == 'exp_r':
            out = []
        elif T in ARITH:
            # n-ary sums and products
            for op in ('add', 'mul'):
                for ar in cfg['arities']:
                    for parts in _compositions(n - 1, ar):
                        pools = [self.trees(T, p) for p in parts]
                        for combo in itertools.product(*pools):
                            for f in self.forms(op):
                                out.append([f] + [c for c in combo])
            # quotient
            for parts in _compositions(n - 1, 2):
                pools = [self.trees(T, p) for p in parts]
                for combo in itertools.product(*pools):
                    for f in self.forms('div'):
                        out.append([f] + list(combo))
            # power: integer ** integer tree;  real ** integer literal
            for parts in _compositions(n - 1, 2):
                if T == 'i':
                    pools = [self.trees('i', parts[0]), self.trees('i', parts[1])]
                else:
                    pools = [self.trees('r', parts[0]), self.trees('i', parts[1], 'exp_r')]
                for combo in itertools.product(*pools):
                    for f in self.forms('pow'):
                        out.append([f] + list(combo))
            # unary minus
            for c in self.trees(T, n - 1):
                for f in self.forms('neg'):
                    out.append([f, c])
        else:  # logical
            for c in self.trees('l', n - 1):
                out.append(['not', c])
            for op in ('and', 'or'):
                for ar in cfg['arities']:
                    for parts in _compositions(n - 1, ar):
                        pools = [self.trees('l', p) for p in parts]
                        for combo in itertools.product(*pools):
                            out.append([op] + list(combo))
            for ct in cfg['cmp_types']:
                for parts in _compositions(n - 1, 2):
                    pools = [self.trees(ct, p) for p in parts]
                    for combo in itertools.product(*pools):
                        for op in CMP:
                            out.append([op] + list(combo))
        self.memo[k] = out
        return out

    def exactly(self, T, n):
        ts = self.trees(T, n)
        if self.cfg['canonical']:
            ts = [t for t in ts if is_canonical(t)]
        return ts

    def upto(self, T, n):
        out = []
        for m in range(n + 1):
            out += self.exactly(T, m)
        return out


def count_heads(s, heads):
    """Number of nodes whose operator is in `heads`."""
    return sum(1 for _, x in positions(s) if x[0] in heads)


def minus_products(T, cfg=None):
    """Flattened signed products Product((-1, x, y)) and Product((-1, x, y, z)) whose first child is the
    Python constant -1 (what flatten/simplify and programmatic construction produce), plain and
    Parenthesised form; the other children are leaves and at most one 1-operator plain binary tree
    (Quotient / Sum / Product / Power / unary minus).  3 children: full alphabet; 4 children: 2 variables +
    1 literal.  One representative per variable renaming."""
    cfg = dict(DEFAULT_CFG, **(cfg or {}))
    out = []
    for nch, c in ((2, cfg), (3, dict(cfg, int_lits=cfg['int_lits'][-1:], real_lits=cfg['real_lits'][:1]))):
        E = Enumerator(dict(c, canonical=False, forms=('plain',), arities=(2,)))
        leaves, ones = E.trees(T, 0), E.trees(T, 1)
        combos = list(itertools.product(leaves, repeat=nch))
        for pos in range(nch):
            for t in ones:
                for rest in itertools.product(leaves, repeat=nch - 1):
                    ch = list(rest)
                    ch.insert(pos, t)
                    combos.append(tuple(ch))
        for ch in combos:
            for head in ('mul', 'pmul'):
                t = [head, ['c', -1]] + [x for x in ch]
                if is_canonical(t):
                    out.append(t)
    return out


SQRT_BASES = (['l', 'r', '4.0'], ['l', 'r', '9.0'], ['l', 'r', '0.25'], ['l', 'i', 4])
HALF_EXPONENTS = ('0.5', '1.5', '2.5')


def sqrt_powers(cfg=None):
    """Powers of a perfect-square literal with a positive non-integral literal exponent k/2 (exactly
    representable results: 4.0**0.5, 9.0**1.5, 0.25**2.5, 4**0.5 ...), alone and as one operand of a
    plain binary Sum / Product / Quotient with a real leaf."""
    cfg = dict(DEFAULT_CFG, **(cfg or {}))
    out = []
    pows = [['pow', b, ['l', 'r', e]] for b in SQRT_BASES for e in HALF_EXPONENTS]
    out += pows
    leaves = [['v', 'r', 0]] + [['l', 'r', v] for v in cfg['real_lits']]
    for p in pows:
        for op in ('add', 'mul', 'div'):
            for lf in leaves:
                out.append([op, p, lf])
                out.append([op, lf, p])
        out.append(['neg', p])
    return out


def enum_trees(T, n, cfg=None):
    return Enumerator(cfg).exactly(T, n)


def enum_upto(T, n, cfg=None):
    return Enumerator(cfg).upto(T, n)


# ------------------------------------------------------------------ Loki objects
_LOKI = {}


def _loki():
    if not _LOKI:
        from loki.expression import symbols as sym
        from loki.expression import operations as op
        from loki.types import SymbolAttributes, BasicType
        import pymbolic.primitives as pmbl
        _LOKI.update(sym=sym, op=op, pmbl=pmbl,
                     types={'i': SymbolAttributes(BasicType.INTEGER), 'r': SymbolAttributes(BasicType.REAL),
                            'l': SymbolAttributes(BasicType.LOGICAL)},
                     cls={'add': sym.Sum, 'mul': sym.Product, 'div': sym.Quotient, 'pow': sym.Power,
                          'padd': op.ParenthesisedAdd, 'pmul': op.ParenthesisedMul,
                          'pdiv': op.ParenthesisedDiv, 'ppow': op.ParenthesisedPow,
                          'and': sym.LogicalAnd, 'or': sym.LogicalOr})
    return _LOKI


def build(s, names=None):
    """The Loki expression object for a spec (typed Scalar variables without scope)."""
    L = _loki()
    sym = L['sym']
    names = names or CANON_NAMES
    h = s[0]
    if h == 'v':
        return sym.Variable(name=names[s[1]][s[2]], type=L['types'][s[1]])
    if h == 'l':
        if s[1] == 'i':
            return sym.IntLiteral(s[2])
        if s[1] == 'r':
            return sym.FloatLiteral(s[2])
        return sym.LogicLiteral('True' if s[2] else 'False')
    if h == 'c':
        return s[1]
    if h == 'neg':
        return sym.Product((-1, build(s[1], names)))
    if h == 'pneg':
        return L['op'].ParenthesisedMul((-1, build(s[1], names)))
    if h in CMP:
        return sym.Comparison(build(s[1], names), CMP_SYM[h], build(s[2], names))
    if h == 'not':
        return sym.LogicalNot(build(s[1], names))
    cls = L['cls'][h]
    ch = tuple(build(c, names) for c in s[1:])
    if BASE.get(h, h) in ('div', 'pow'):
        return cls(ch[0], ch[1])
    return cls(ch)


def from_loki(e, names=None):
    """Spec of a Loki expression over the harness alphabet (raises ValueError on anything else)."""
    L = _loki()
    sym, op, pmbl = L['sym'], L['op'], L['pmbl']
    names = names or CANON_NAMES
    if isinstance(e, bool):
        return ['c', e]
    if isinstance(e, (int, float)):
        return ['c', e]
    if isinstance(e, sym.IntLiteral):
        return ['l', 'i', int(e.value)]
    if isinstance(e, sym.FloatLiteral):
        return ['l', 'r', str(e.value)]
    if isinstance(e, sym.LogicLiteral):
        return ['l', 'l', bool(e.value)]

    def nary(plain, paren, pcls):
        return paren if isinstance(e, pcls) else plain
    if isinstance(e, pmbl.Sum):
        return [nary('add', 'padd', op.ParenthesisedAdd)] + [from_loki(c, names) for c in e.children]
    if isinstance(e, pmbl.Product):
        h = nary('mul', 'pmul', op.ParenthesisedMul)
        ch = e.children
        if len(ch) == 2 and isinstance(ch[0], int) and not isinstance(ch[0], bool) and ch[0] == -1:
            return ['neg' if h == 'mul' else 'pneg', from_loki(ch[1], names)]
        return [h] + [from_loki(c, names) for c in ch]
    if isinstance(e, pmbl.Quotient):
        return [nary('div', 'pdiv', op.ParenthesisedDiv), from_loki(e.numerator, names),
                from_loki(e.denominator, names)]
    if isinstance(e, pmbl.Power):
        return [nary('pow', 'ppow', op.ParenthesisedPow), from_loki(e.base, names), from_loki(e.exponent, names)]
    if isinstance(e, pmbl.Comparison):
        return [SYM_CMP[e.operator], from_loki(e.left, names), from_loki(e.right, names)]
    if isinstance(e, pmbl.LogicalAnd):
        return ['and'] + [from_loki(c, names) for c in e.children]
    if isinstance(e, pmbl.LogicalOr):
        return ['or'] + [from_loki(c, names) for c in e.children]
    if isinstance(e, pmbl.LogicalNot):
        return ['not', from_loki(e.child, names)]
    if isinstance(e, (sym.MetaSymbol, sym.TypedSymbol, pmbl.Variable)):
        n = e.name.lower()
        for T in ('i', 'r', 'l'):
            if n in names[T]:
                return ['v', T, names[T].index(n)]
        raise ValueError(f'unknown variable {n}')
    raise ValueError(f'node {type(e).__name__} outside the harness alphabet')


# ------------------------------------------------------------------ valuations
_GRID_CACHE = {}


def grid(vars_, pools=None):
    """Complete product of the per-type pools over the given variables -> list of {(T,k): value}."""
    vs = tuple(vars_)
    if pools is None:
        pools = {'i': INT_POOL, 'r': REAL_POOL, 'l': LOG_POOL}
    ck = (vs, tuple(pools['i']), tuple(pools['r']), tuple(pools['l']))
    if ck not in _GRID_CACHE:
        if len(_GRID_CACHE) > 2000:
            _GRID_CACHE.clear()
        _GRID_CACHE[ck] = [dict(zip(vs, combo)) for combo in itertools.product(*[pools[T] for T, _ in vs])]
    return _GRID_CACHE[ck]


def env_of(val, names=None):
    names = names or CANON_NAMES
    return {names[T][k]: v for (T, k), v in val.items()}


# ------------------------------------------------------------------ guarded evaluation
class OutOfRange(exprsem.Undefined):
    """Value outside the exactly-modelled range (default INTEGER is 32 bit; bounded powers)."""


INT_MAX = 2 ** 31 - 1
_EXACT_BITS = 20


class Guard:
    """Wraps the arithmetic of vf.exprsem (looked up as module globals at call time by treeeval,
    texteval and ctexteval) so that every intermediate result is range-checked:
      * integer results beyond 32 bit raise OutOfRange (no defined Fortran/C value);
      * powers that would explode are refused before they are computed;
      * `inexact` records whether some real intermediate is not a small dyadic rational, i.e.
        whether binary floating point would have to round (used to select the valuations that
        are handed to gfortran / gcc, where results are compared exactly).
    Installed once per process; vf/exprsem.py itself is not modified."""
    installed = False
    inexact = False

    @classmethod
    def chk(cls, v):
        if isinstance(v, bool):
            return v
        if isinstance(v, int):
            if v > INT_MAX or v < -INT_MAX - 1:
                raise OutOfRange('integer overflow')
            return v
        if isinstance(v, Fraction):
            d = v.denominator
            if d & (d - 1) or d.bit_length() > _EXACT_BITS or abs(v.numerator).bit_length() > _EXACT_BITS:
                cls.inexact = True
                if d.bit_length() > 256 or abs(v.numerator).bit_length() > 256:
                    raise OutOfRange('real magnitude')
        return v

    @classmethod
    def install(cls):
        if cls.installed:
            return
        cls.installed = True
        o_add, o_sub, o_mul, o_div, o_pow, o_neg, o_cdiv = (
            exprsem.f_add, exprsem.f_sub, exprsem.f_mul, exprsem.f_div, exprsem.f_pow, exprsem.f_neg,
            exprsem.c_div)
        chk = cls.chk

        def _exact_sqrt(a):
            a = Fraction(a)
            if a < 0:
                return None
            import math
            n, d = math.isqrt(a.numerator), math.isqrt(a.denominator)
            if n * n == a.numerator and d * d == a.denominator:
                return Fraction(n, d)
            return None

        def g_pow(a, b):
            # real exponent k/2 on a perfect square (any numeric base type: the result is REAL)
            if isinstance(b, Fraction) and b.denominator == 2 and not isinstance(a, bool) \
                    and isinstance(a, (int, Fraction)):
                r = _exact_sqrt(a)
                if r is None:
                    raise exprsem.Unsupported('non-integral exponent on a base that is no perfect square')
                if r == 0 and b < 0:
                    raise exprsem.Undefined('0.0**negative')
                return chk(Fraction(r) ** b.numerator)
            if isinstance(b, (int, Fraction)) and not isinstance(b, bool) and abs(b) > 64 \
                    and isinstance(a, (int, Fraction)) and abs(a) != 1 and a != 0:
                if isinstance(a, int) and isinstance(b, int) and b < 0:
                    return 0          # |a| > 1, negative integer exponent: integer power is 0
                raise OutOfRange('power too large')
            return chk(o_pow(a, b))
        exprsem.f_add = lambda a, b: chk(o_add(a, b))
        exprsem.f_sub = lambda a, b: chk(o_sub(a, b))
        exprsem.f_mul = lambda a, b: chk(o_mul(a, b))
        exprsem.f_div = lambda a, b: chk(o_div(a, b))
        exprsem.f_neg = lambda a: chk(o_neg(a))
        exprsem.c_div = lambda a, b: chk(o_cdiv(a, b))
        exprsem.f_pow = g_pow


UNDEF = 'U'      # undefined operation (zero divisor ...)
RANGE = 'R'      # outside the exactly-modelled range
NOPARSE = 'X'    # text not in the language of the reference evaluator


def _literals_exact(toks):
    """False if some real literal of the text is not a small dyadic rational: its binary value would
    depend on the literal's kind (REAL(4) in Fortran, double in C), so compilers are not asked."""
    for k, v in toks or ():
        if k == 'real':
            try:
                f = exprsem.parse_real_literal(v)
            except (ValueError, ZeroDivisionError):
                return False
            d = f.denominator
            if d & (d - 1) or d.bit_length() > _EXACT_BITS or abs(f.numerator).bit_length() > _EXACT_BITS:
                return False
    return True


def guarded(fn, *args):
    """-> (value | UNDEF | RANGE | NOPARSE, exact: bool)"""
    Guard.install()
    Guard.inexact = False
    try:
        v = fn(*args)
    except OutOfRange:
        return RANGE, False
    except exprsem.Undefined:
        return UNDEF, False
    except exprsem.Unsupported:
        return NOPARSE, False
    except (OverflowError, ZeroDivisionError):
        return RANGE, False
    if isinstance(v, int) and not isinstance(v, bool) and (v > INT_MAX or v < -INT_MAX - 1):
        return RANGE, False
    return v, not Guard.inexact


def tree_value(expr, env):
    return guarded(exprsem.treeeval, expr, env)


class _FParserX(exprsem._FParser):      # pylint: disable=protected-access
    """exprsem's Fortran parser accepts one extension sign after a *binary* additive operator only.
    gfortran (match_level_2 / match_ext_add_operand) also accepts signs after a leading sign and any
    number of them (`--a`, `a - --b`), all as the same GNU extension.  Added here because vf/exprsem.py
    is not mine to edit; the arithmetic still goes through exprsem's (guarded) functions."""

    def ext_add_operand(self):
        k, s = self.peek()
        if k == 'op' and s in ('+', '-'):
            if not self.allow_ext:
                raise exprsem.Unsupported('unary sign after additive operator or sign')
            self.used_ext = True
            self.eat()
            r = self.ext_add_operand()
            return exprsem.f_neg(r) if s == '-' else r
        return self.add_operand()

    def additive(self):
        k, s = self.peek()
        if k == 'op' and s in ('+', '-'):
            self.eat()
            v = self.ext_add_operand()
            v = exprsem.f_neg(v) if s == '-' else exprsem.f_add(0, v)
        else:
            v = self.add_operand()
        while self.peek()[0] == 'op' and self.peek()[1] in ('+', '-'):
            op = self.eat()[1]
            r = self.ext_add_operand()
            v = exprsem.f_add(v, r) if op == '+' else exprsem.f_sub(v, r)
        return v


class FText:
    """Fortran expression text, tokenised once."""

    def __init__(self, text):
        self.text = text
        try:
            self.toks = exprsem.f_tokenize(text)
        except exprsem.Unsupported:
            self.toks = None
        self.nonstd = False
        self.lits_exact = _literals_exact(self.toks)
        if self.toks is not None:
            p = _FParserX(self.toks, exprsem._AnyEnv(), True)   # pylint: disable=protected-access
            try:
                p.parse()
            except (exprsem.Undefined, exprsem.Unsupported, ZeroDivisionError, TypeError, OverflowError):
                pass
            self.nonstd = p.used_ext

    def _ev(self, env):
        if self.toks is None:
            raise exprsem.Unsupported('tokenize')
        return _FParserX(self.toks, env, True).parse()

    def value(self, env):
        v, ex = guarded(self._ev, env)
        return v, ex and self.lits_exact


class _CParserX(exprsem._CParser):      # pylint: disable=protected-access
    """C lexes `--` / `++` as one token (maximal munch): `--a` is a pre-decrement, valid on an lvalue
    (value a-1, a side effect on the by-value parameter), a constraint violation on anything else.
    exprsem's tokenizer splits the two signs, so the merge and the operator are added here."""

    def unary(self):
        k, s = self.peek()
        if k == 'op' and s in ('--', '++'):
            self.eat()
            # operand must be a modifiable lvalue: an identifier, possibly parenthesised
            depth = 0
            while self.peek() == ('op', '('):
                self.eat()
                depth += 1
            k2, name = self.peek()
            if k2 != 'name' or (self.i + 1 < len(self.t) and self.t[self.i + 1] == ('op', '(')):
                raise exprsem.Unsupported('lvalue required as increment/decrement operand')
            self.eat()
            for _ in range(depth):
                if self.peek() != ('op', ')'):
                    raise exprsem.Unsupported('lvalue required as increment/decrement operand')
                self.eat()
            if sum(1 for t in self.t if t == ('name', name)) > 1:
                raise exprsem.Undefined('unsequenced modification and use of ' + name)
            v = self.env[name] if name in self.env else self.env[name.lower()]
            if isinstance(v, bool):
                raise exprsem.Unsupported('decrement of a logical')
            return Guard.chk(v - 1 if s == '--' else v + 1)
        return super().unary()


def c_tokenize_mm(text):
    """exprsem's C tokens with maximal munch for -- and ++."""
    pos, out = 0, []
    rx = exprsem._C_TOKEN        # pylint: disable=protected-access
    last_end = -1
    while pos < len(text):
        if text[pos:].strip() == '':
            break
        m = rx.match(text, pos)
        if not m:
            raise exprsem.Unsupported(f'cannot tokenize {text[pos:pos + 20]!r}')
        kind, val = m.lastgroup, m.group(m.lastgroup)
        start = m.start(kind)
        if kind == 'op' and val in '+-' and out and out[-1] == ('op', val) and start == last_end:
            out[-1] = ('op', val + val)
        else:
            out.append((kind, val))
        last_end = m.end(kind)
        pos = m.end()
    return out


class CText:
    """C expression text, tokenised once (with `--` / `++` as single tokens)."""

    def __init__(self, text):
        self.text = text
        try:
            self.toks = c_tokenize_mm(text)
        except exprsem.Unsupported:
            self.toks = None
        self.lits_exact = _literals_exact(self.toks)

    def _ev(self, env):
        if self.toks is None:
            raise exprsem.Unsupported('tokenize')
        return _CParserX(self.toks, env).parse()

    def value(self, env):
        v, ex = guarded(self._ev, env)
        return v, ex and self.lits_exact


def same_value(a, b):
    """Equality of two defined values (bool never equals a number)."""
    if isinstance(a, bool) or isinstance(b, bool):
        return isinstance(a, bool) and isinstance(b, bool) and a == b
    return a == b


# ------------------------------------------------------------------ shrinking
def positions(s, path=()):
    yield path, s
    if not is_leaf(s):
        for i, c in enumerate(s[1:], start=1):
            yield from positions(c, path + (i,))


def replace_at(s, path, new):
    if not path:
        return new
    out = list(s)
    out[path[0]] = replace_at(s[path[0]], path[1:], new)
    return out


def _fresh_var(s, T, maxvars=6):
    used = {k for (t, k) in variables(s) if t == T}
    for k in range(maxvars):
        if k not in used:
            return ['v', T, k]
    return None


def _leaf_options(root, sub, T, lits):
    """Replacement leaves in canonical preference order: a fresh variable, variables already used,
    then the literals of the alphabet."""
    out = []
    fv = _fresh_var(root, T)
    if fv is not None:
        out.append(fv)
    out += [['v', t, k] for (t, k) in variables(root) if t == T]
    # literals: only those that already occur in the tree -- a literal with properties of its own (the
    # negative IntLiteral) must not be *introduced* by shrinking, or one defect's counterexample slides
    # into the core of another (Power(Power(a, b), c) -> Power(-3, a))
    present = []
    for _, x in positions(root):
        if x[0] == 'l' and x[1] == T and x[2] not in present:
            present.append(x[2])
    out += [['l', T, v] for v in lits[T] if v in present]
    out += [['l', T, v] for v in present if v not in lits[T]]
    return [o for o in out if o != sub]


def shrink_candidates(s, cfg=None):
    """Strictly 'smaller' variants, most aggressive first:
    hoist a same-typed child over its parent, replace an operator subtree by a leaf, drop a child of a
    3-ary node, plain form instead of Parenthesised*, then leaf generalisation (literal -> variable,
    repeated variable -> fresh variable)."""
    cfg = cfg or DEFAULT_CFG
    lits = {'i': list(cfg['int_lits']), 'r': list(cfg['real_lits']), 'l': list(cfg['log_lits'])}
    pos = list(positions(s))
    # 1 hoist
    for path, sub in pos:
        if is_leaf(sub):
            continue
        T = typeof(sub)
        for c in sub[1:]:
            # inside the tree the type must be kept; at the root any operand may take over
            # (e.g. the arithmetic operand of a comparison: the core's type is part of the signature)
            if (typeof(c) == T or not path) and not is_leaf(c):
                yield replace_at(s, path, c)
        for c in sub[1:]:
            if typeof(c) == T and is_leaf(c) and path:
                yield replace_at(s, path, c)
    # 2 subtree -> leaf
    for path, sub in pos:
        if is_leaf(sub) or not path:
            continue
        T = typeof(sub)
        for leaf in _leaf_options(s, sub, T, lits):
            if _role_ok(s, path, leaf):
                yield replace_at(s, path, leaf)
    # 3 drop a child of an n-ary node
    for path, sub in pos:
        if not is_leaf(sub) and BASE.get(sub[0], sub[0]) in ('add', 'mul', 'and', 'or') and len(sub) > 3:
            for i in range(1, len(sub)):
                yield replace_at(s, path, sub[:i] + sub[i + 1:])
    # 4 parenthesised -> plain
    for path, sub in pos:
        if sub[0] in BASE:
            yield replace_at(s, path, [BASE[sub[0]]] + list(sub[1:]))
    # 5 leaf generalisation
    for path, sub in pos:
        if sub[0] == 'l' and path:
            T = sub[1]
            if _role_ok(s, path, ['v', T, 0]):
                fv = _fresh_var(s, T)
                if fv is not None:
                    yield replace_at(s, path, fv)
                for (t, k) in variables(s):
                    if t == T:
                        yield replace_at(s, path, ['v', T, k])
            # (the exponent of a real power stays a literal)  literals: towards the alphabet, in its order,
            # keeping the sign (a negative literal is a different kind of leaf for the printers)
            for v in lits[T]:
                if v != sub[2] and (T == 'l' or (str(v).startswith('-') == str(sub[2]).startswith('-'))):
                    yield replace_at(s, path, ['l', T, v])
    # all occurrences of one literal at once (a relation between two occurrences may be what fails)
    litpos = {}
    for path, sub in pos:
        if sub[0] == 'l' and path and _role_ok(s, path, ['v', sub[1], 0]):
            litpos.setdefault((sub[1], sub[2] if not isinstance(sub[2], bool) else str(sub[2])), []).append(path)
    for (T, _v), paths in litpos.items():
        if len(paths) > 1:
            opts = []
            fv = _fresh_var(s, T)
            if fv is not None:
                opts.append(fv)
            opts += [['v', t, k] for (t, k) in variables(s) if t == T]
            for o in opts:
                c = s
                for pth in paths:
                    c = replace_at(c, pth, o)
                yield c
    seen_vars = set()
    for path, sub in pos:
        if sub[0] == 'v':
            if (sub[1], sub[2]) in seen_vars:
                fv = _fresh_var(s, sub[1])
                if fv is not None:
                    yield replace_at(s, path, fv)
            seen_vars.add((sub[1], sub[2]))


def _role_ok(root, path, leaf):
    """Keep trees inside the typed grammar: the exponent of a real power stays an integer literal."""
    if not path:
        return True
    parent = root
    for i in path[:-1]:
        parent = parent[i]
    if BASE.get(parent[0], parent[0]) == 'pow' and path[-1] == 2 and typeof(parent[1]) == 'r':
        return leaf[0] == 'l' and leaf[1] == 'i'
    return True


def measure(s):
    """Well-founded order used by the shrinker: fewer operators, fewer parenthesised nodes, fewer
    literals, more distinct variables, then canonical leaf order."""
    npar = sum(1 for _, x in positions(s) if x[0] in BASE)
    lit_rank = 0
    nlit = 0
    for _, x in positions(s):
        if x[0] == 'l':
            nlit += 1
            pool = DEFAULT_CFG['int_lits'] if x[1] == 'i' else DEFAULT_CFG['real_lits'] if x[1] == 'r' \
                else DEFAULT_CFG['log_lits']
            lit_rank += (list(pool).index(x[2]) if x[2] in pool else 9)
    nleaf = sum(1 for _, x in positions(s) if is_leaf(x))
    return (nops(s), nleaf, npar, nlit, -len(variables(s)), lit_rank)


def shrink_core(s, kind_of, memo, cfg=None, budget=4000):
    """Minimal failing core of `s`: greedy, memoised.  kind_of(spec) -> hashable failure kind or None.
    A candidate is accepted iff it fails with the *same kind*.  Returns the canonical core."""
    want = kind_of(s)
    assert want is not None
    cur = canonical(s)
    steps = 0
    while steps < budget:
        k0 = (key(cur), want)
        if k0 in memo:
            return memo[k0]
        m0 = measure(cur)
        nxt = None
        for c in shrink_candidates(cur, cfg):
            steps += 1
            c = canonical(c)
            if measure(c) >= m0:
                continue
            if kind_of(c) == want:
                nxt = c
                break
            if steps >= budget:
                break
        if nxt is None:
            memo[k0] = cur
            return cur
        # path compression: remember where cur ends up once known
        res = shrink_core(nxt, kind_of, memo, cfg, budget - steps)
        memo[k0] = res
        return res
    return cur
