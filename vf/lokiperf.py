"""Harness-side accelerator: every `loki.ir.Visitor()` construction calls
`inspect.getmembers` and `inspect.getfullargspec` on each of its ~60 visit methods (0.3 ms per visitor, and fgen /
FindNodes / Transformer build one per call).  The answer is a pure function of the underlying
*function object*, and the method names are a function of the class, so memoising both changes no behaviour of the code under
test; it roughly halves the cost of IR-heavy enumerations.  Call `speedup()` once per process
(before forking workers).  Nothing in /repo is modified; only the name `inspect` as seen from
`loki.ir.visitor` is rebound to a thin proxy.
"""
import inspect as _inspect

_CACHE = {}
_NAMES = {}


class _InspectProxy:
    def __getattr__(self, name):
        return getattr(_inspect, name)

    @staticmethod
    def getfullargspec(meth):
        f = getattr(meth, '__func__', meth)
        try:
            return _CACHE[f]
        except KeyError:
            r = _CACHE[f] = _inspect.getfullargspec(meth)
            return r
        except TypeError:
            return _inspect.getfullargspec(meth)


    @staticmethod
    def getmembers(obj, predicate=None):
        # Visitor.__init__ lists the bound methods of `self`; the set of names is a function of the class
        if predicate is not _inspect.ismethod or isinstance(obj, type):
            return _inspect.getmembers(obj, predicate)
        names = _NAMES.get(type(obj))
        if names is None:
            names = _NAMES[type(obj)] = [n for n, _ in _inspect.getmembers(obj, predicate)]
        return [(n, getattr(obj, n)) for n in names]


def speedup():
    import loki.ir.visitor as v
    if not isinstance(v.inspect, _InspectProxy):
        v.inspect = _InspectProxy()


def silence():
    """Loki logs warnings through its own logger; silence everything below CRITICAL."""
    import logging
    import loki.logging as ll
    ll.logger.setLevel(logging.CRITICAL)
    logging.getLogger('loki').setLevel(logging.CRITICAL)
