"""SCHED engine: stateless exploration of ALL schedules of a *virtual worker pool*.

The orchestration code under test (`Lib.build`, `lint_files_glob`, the real `workqueue()` /
`ParallelQueue` glue) runs unmodified in the main thread.  What it believes to be a
`ProcessPoolExecutor` / `multiprocessing.Manager` / `as_completed` is the model below:

* `VirtualExecutor`  FIFO hand-out of submitted tasks to `max_workers` virtual workers.  A task is
  an iterator of *labels*: every label announces the next visible step of that task (compile
  `start` / `finish`, `append` to a shared list, `complete`); advancing the iterator executes the
  step.  The step of a handed-out task is an *enabled event*; nothing happens in the pool unless
  the scheduler fires an event.
* `VirtualManager`   shared dict/list/queue with manager semantics: everything that crosses the
  boundary is pickled (stored copies, returned copies), proxies pickle to handles on the same
  store, every list operation performed by a task is a scheduling point.
* `thread_task`      runs a real Python callable as a task in its own baton-controlled thread on a
  pickled copy of its arguments (what a worker process would receive); exactly one thread runs at
  any time, control changes hands only at scheduling points.
* choice points      whenever the main thread enters the pool API (submit, `result()`,
  `as_completed`, shutdown) the scheduler decides which enabled event fires next.  In
  `main_mode='eager'` the main thread proceeds as soon as it is able to (choice points only while
  it is blocked); in `main_mode='full'` "main thread proceeds" is itself one of the options at
  every pool API call, so worker events may also fire while the main thread could run.
* `Explorer`         depth-first search over choice sequences with replay-from-prefix: each
  execution re-runs the system from scratch, re-taking the recorded choices of the current prefix
  (the enabled events - in canonical order - and the observations so far must be *identical* to
  the recorded ones, otherwise `ReplayDivergence`, a hard harness error) and then the first
  option at every new choice point; afterwards the deepest choice with an untried option is
  advanced.  Nothing is sampled; the search ends when every option of every choice point has
  been taken.  Reports executions, distinct traces, maximum choice depth, and the number of
  distinct pool states / state transitions seen.

The second half (`GateController`) forces an event order explored on the model onto the *real*
`ProcessPoolExecutor`: participants announce `at <gate>` on a log FIFO and block on a gate FIFO
until the controller (a separate process that knows the schedule) releases it.
"""
import collections
import contextlib
import json
import os
import pickle
import queue as _queue
import select
import threading
import time

from vf.core import HarnessError

MAIN = ('main',)


class ReplayDivergence(HarnessError):
    """Re-executing a recorded choice prefix did not reproduce the recorded run."""


class _Abort(BaseException):
    """Raised inside parked task threads when an execution is abandoned."""


# ------------------------------------------------------------------------------------------
# Explorer: DFS over choice sequences, replay from prefix
# ------------------------------------------------------------------------------------------
class _Frame:
    __slots__ = ('enabled', 'idx', 'obs', 'fixed')

    def __init__(self, enabled, idx, obs, fixed):
        self.enabled, self.idx, self.obs, self.fixed = enabled, idx, obs, fixed


class Chooser:
    """Handed to one execution of the system; `choose` is called at every choice point."""

    def __init__(self, explorer):
        self.ex = explorer
        self.pos = 0

    def choose(self, enabled, obs=None, state=None):
        ex = self.ex
        enabled = tuple(enabled)
        if not enabled:
            raise HarnessError('choice point without enabled events')
        p = self.pos
        if p < len(ex.stack):
            fr = ex.stack[p]
            if fr.enabled != enabled or fr.obs != obs:
                raise ReplayDivergence(
                    f'replay diverged at choice depth {p}: recorded enabled={fr.enabled} obs={fr.obs}, '
                    f'now enabled={enabled} obs={obs}')
        elif ex.limit is not None and p >= ex.limit:
            # splitting run: no branching below the limit, first option always
            self.pos += 1
            return 0
        else:
            if p < len(ex.prefix):
                want = ex.prefix[p]
                if want not in enabled:
                    raise ReplayDivergence(f'forced prefix step {want} at depth {p} is not enabled: {enabled}')
                fr = _Frame(enabled, enabled.index(want), obs, True)
            else:
                fr = _Frame(enabled, 0, obs, False)
            ex.stack.append(fr)
            ex.nodes += 1
        self.pos += 1
        if p + 1 > ex.max_depth:
            ex.max_depth = p + 1
        if state is not None:
            ex.states.add(state)
            ex.edges.add((state, enabled[fr.idx]))
        return fr.idx


class Explorer:
    """explore(run): `run(chooser)` executes the system once and returns a result (any object;
    `key(result)` must be hashable and identifies the observed trace).  `prefix` (labels) pins
    the first choices (used to split one search over several processes); `limit` stops branching
    below a depth (used to produce those prefixes)."""

    def __init__(self, prefix=(), limit=None):
        self.prefix = tuple(prefix)
        self.limit = limit
        self.stack = []
        self.nodes = 0
        self.max_depth = 0
        self.executions = 0
        self.states = set()
        self.edges = set()
        self.traces = collections.Counter()

    def _backtrack(self):
        st = self.stack
        while st:
            top = st[-1]
            if not top.fixed and top.idx + 1 < len(top.enabled):
                top.idx += 1
                return True
            st.pop()
        return False

    def explore(self, run, key=lambda r: r, on_result=None, max_executions=None):
        """Returns True iff the space was exhausted (False: stopped at max_executions)."""
        while True:
            ch = Chooser(self)
            res = run(ch)
            if ch.pos < len(self.stack):
                raise ReplayDivergence(f'execution ended after {ch.pos} choices, recorded prefix has {len(self.stack)}')
            self.executions += 1
            self.traces[key(res)] += 1
            if on_result is not None:
                on_result(res, self.current_choices())
            if not self._backtrack():
                return True
            if max_executions is not None and self.executions >= max_executions:
                return False

    def current_choices(self):
        return [fr.enabled[fr.idx] for fr in self.stack]

    def stats(self):
        return dict(schedules=self.executions, distinct_traces=len(self.traces), max_choice_depth=self.max_depth,
                    choice_nodes=self.nodes, states=len(self.states), transitions=len(self.edges))


def split_prefixes(run, depth):
    """All distinct choice prefixes of length <= depth (one execution each): work units for a
    parallel search.  Complete executions shorter than `depth` are their own unit."""
    ex = Explorer(limit=depth)
    out = []
    ex.explore(run, key=lambda r: 0, on_result=lambda res, choices: out.append(tuple(choices)))
    return out


class FixedChooser:
    """Replays one recorded schedule (list of labels) without an explorer; used by replay files
    and by the conformance pass.  Labels must be enabled where they are taken."""

    def __init__(self, labels):
        self.labels = list(labels)
        self.pos = 0

    def choose(self, enabled, obs=None, state=None):
        enabled = tuple(enabled)
        if self.pos >= len(self.labels):
            raise ReplayDivergence(f'recorded schedule exhausted after {self.pos} choices; enabled={enabled}')
        want = tuple(self.labels[self.pos]) if isinstance(self.labels[self.pos], list) else self.labels[self.pos]
        if want not in enabled:
            raise ReplayDivergence(f'recorded step {want} at depth {self.pos} is not enabled: {enabled}')
        self.pos += 1
        return enabled.index(want)


# ------------------------------------------------------------------------------------------
# One execution: scheduler + virtual pool + virtual manager
# ------------------------------------------------------------------------------------------
class _Task:
    __slots__ = ('name', 'gen', 'future', 'pending', 'index', 'thread_task')

    def __init__(self, name, gen, future, index, thread_task=None):
        self.name, self.gen, self.future, self.index = name, gen, future, index
        self.pending = None
        self.thread_task = thread_task


class VFuture:
    """Model of concurrent.futures.Future as far as the orchestration code uses it."""

    def __init__(self, sched, name):
        self._sched, self.name = sched, name
        self._done = False
        self._result = None
        self._exc = None

    def done(self):
        return self._done

    def _wait(self):
        if not self._done:
            self._sched.drive(lambda: self._done, what=f'result({self.name})')
        else:
            self._sched.drive(lambda: True, what=f'result({self.name})')

    def result(self, timeout=None):
        self._wait()
        if self._exc is not None:
            raise self._exc
        return self._result

    def exception(self, timeout=None):
        self._wait()
        return self._exc

    def __repr__(self):
        return f'<VFuture {self.name} {"done" if self._done else "pending"}>'


class Sched:
    """State of one execution.  `task_factory(fn, args, kwargs, index, sched)` turns a submitted
    call into `(name, iterator_of_labels[, thread_task])`."""

    _counter = 0

    def __init__(self, chooser, task_factory, main_mode='eager'):
        assert main_mode in ('eager', 'full')
        self.chooser = chooser
        self.task_factory = task_factory
        self.main_mode = main_mode
        self.trace = []            # worker events in the order they fired
        self.choices = []          # labels chosen at every choice point (the schedule)
        self.assigned_after = [()]  # names handed out to a worker after k events (k = 0, 1, ...)
        self.tasks = []
        self.queue = collections.deque()
        self.running = []
        self.free = 0
        self.executors = 0
        self.completed = []        # futures in completion order
        self.api_calls = 0
        self.managers = []
        self.overlap = 0           # max number of tasks in flight at the same time
        Sched._counter += 1
        self.key = Sched._counter

    # -- state signature (for the state/transition counts) ------------------------------
    def state_sig(self, what):
        return (self.api_calls, what,
                tuple((t.name, 'q') for t in self.queue) + tuple((t.name, t.pending) for t in self.running),
                tuple(f.name for f in self.completed))

    # -- pool mechanics -------------------------------------------------------------------
    def _advance(self, task):
        try:
            task.pending = next(task.gen)
            return False
        except StopIteration as s:
            task.pending = None
            task.future._result = s.value
        except _Abort:
            raise
        except BaseException as e:  # pylint: disable=broad-except
            task.pending = None
            task.future._exc = e
        task.future._done = True
        self.running.remove(task)
        self.free += 1
        self.completed.append(task.future)
        return True

    def _hand_out(self):
        while self.free > 0 and self.queue:
            t = self.queue.popleft()
            self.free -= 1
            self.running.append(t)
            self._advance(t)     # runs the task up to its first visible step
        self.overlap = max(self.overlap, len(self.running))
        self.assigned_after[-1] = tuple(t.name for t in self.tasks if t not in self.queue)

    def submit(self, fn, args, kwargs):
        made = self.task_factory(fn, args, kwargs, len(self.tasks), self)
        name, gen = made[0], made[1]
        fut = VFuture(self, name)
        task = _Task(name, gen, fut, len(self.tasks), made[2] if len(made) > 2 else None)
        self.tasks.append(task)
        self.queue.append(task)
        self._hand_out()
        self.drive(lambda: True, what='submit')
        return fut

    def enabled(self):
        return [((t.pending, t.name), t) for t in self.running]

    def fire(self, label, task):
        self.trace.append(label)
        self.assigned_after.append(())
        self._advance(task)
        self._hand_out()

    def drive(self, can_proceed, what=''):
        """The main thread is inside a pool API call; fire events until it proceeds."""
        self.api_calls += 1
        while True:
            ok = can_proceed()
            events = self.enabled()
            if ok and (self.main_mode == 'eager' or not events):
                return
            options = [lab for lab, _ in events]
            if ok:
                options.append(MAIN)
            if not options:
                raise HarnessError(f'virtual deadlock: main thread blocked in {what} and no worker event is enabled; '
                                   f'queue={[t.name for t in self.queue]} trace={self.trace}')
            i = self.chooser.choose(options, obs=tuple(self.trace), state=self.state_sig(what))
            self.choices.append(options[i])
            if ok and i == len(events):
                return
            self.fire(*events[i])

    def drain(self):
        self.drive(lambda: not self.queue and not self.running, what='shutdown')

    def as_completed(self, fs, timeout=None):
        """Model of concurrent.futures.as_completed: yields futures in completion order."""
        fs = list(fs)
        mine = set(map(id, fs))
        yielded = set()
        while len(yielded) < len(mine):
            def ready():
                return any(id(f) in mine and id(f) not in yielded for f in self.completed)
            self.drive(ready, what='as_completed')
            for f in self.completed:
                if id(f) in mine and id(f) not in yielded:
                    yielded.add(id(f))
                    yield f
                    break

    # -- clean-up -------------------------------------------------------------------------
    def close(self):
        """Abandon whatever is still parked (after an exception in the main thread)."""
        for t in self.tasks:
            if t.thread_task is not None:
                t.thread_task.abort()
        for m in self.managers:
            _MANAGERS.pop(m.key, None)


class VirtualExecutor:
    """Drop-in for ProcessPoolExecutor in the orchestration code."""

    def __init__(self, sched, max_workers=None):
        self.sched = sched
        if sched.executors:
            raise HarnessError('model supports one executor per execution')
        sched.executors += 1
        sched.free = max_workers or (os.cpu_count() or 1)
        self.max_workers = sched.free

    def submit(self, fn, /, *args, **kwargs):
        return self.sched.submit(fn, args, kwargs)

    def shutdown(self, wait=True, cancel_futures=False):
        if wait:
            self.sched.drain()

    def __enter__(self):
        return self

    def __exit__(self, et, ev, tb):
        if et is None:
            self.shutdown(wait=True)
        return False


# ------------------------------------------------------------------------------------------
# Tasks that are real Python callables: baton threads
# ------------------------------------------------------------------------------------------
_CUR = threading.local()


def current_task():
    return getattr(_CUR, 'task', None)


class ThreadTask:
    """Runs fn(*args, **kwargs) in its own thread on pickled copies of the arguments.  The
    thread only runs while the scheduler thread waits for it (baton), and hands control back
    at every `sync(label)` - i.e. at every operation on shared (manager) state."""

    def __init__(self, fn, args, kwargs, name):
        self.name = name
        self.fn, self.args, self.kwargs = pickle.loads(pickle.dumps((fn, args, kwargs)))
        self.label = None
        self.result = None
        self.exc = None
        self.finished = False
        self._abort = False
        self._go = threading.Semaphore(0)
        self._back = threading.Semaphore(0)
        self.thread = None

    def _body(self):
        _CUR.task = self
        try:
            self.result = pickle.loads(pickle.dumps(self.fn(*self.args, **self.kwargs)))
        except _Abort:
            pass
        except BaseException as e:  # pylint: disable=broad-except
            self.exc = e
        self.finished = True
        self._back.release()

    def sync(self, label):
        """Called from inside the task thread: announce the next visible step and park."""
        self.label = label
        self._back.release()
        self._go.acquire()
        if self._abort:
            raise _Abort()

    def steps(self):
        self.thread = threading.Thread(target=self._body, daemon=True)
        self.thread.start()
        self._back.acquire()
        while not self.finished:
            yield self.label
            self._go.release()
            self._back.acquire()
        self.thread.join()
        # completion of the future is a visible event of its own
        yield 'complete'
        if self.exc is not None:
            raise self.exc
        return self.result

    def abort(self):
        if self.thread is not None and not self.finished:
            self._abort = True
            self._go.release()
            self.thread.join(5)


def thread_task_factory(namer):
    """task factory for pools whose tasks are real callables; namer(fn, args, kwargs, index) -> name"""
    def factory(fn, args, kwargs, index, sched):
        name = namer(fn, args, kwargs, index)
        tt = ThreadTask(fn, args, kwargs, name)
        return name, tt.steps(), tt
    return factory


# ------------------------------------------------------------------------------------------
# Virtual manager
# ------------------------------------------------------------------------------------------
_MANAGERS = {}


def _copy(x):
    return pickle.loads(pickle.dumps(x))


def _lookup(mkey, okey):
    return _MANAGERS[mkey].objects[okey]


class _Shared:
    def __init__(self, manager, name):
        self._m, self._name = manager, name

    def __reduce__(self):
        return (_lookup, (self._m.key, self._name))

    def _sync(self, op):
        t = current_task()
        if t is not None:
            t.sync(f'{op}:{self._name}')


class VList(_Shared):
    """manager.list(): values are pickled in and out; every operation by a task is a scheduling point.
    (Like the real ListProxy it has no __iter__: iteration goes through __getitem__/IndexError.)"""

    def __init__(self, manager, name, seq=()):
        super().__init__(manager, name)
        self._items = [pickle.dumps(x) for x in seq]

    def append(self, x):
        data = pickle.dumps(x)
        self._sync('append')
        self._items.append(data)

    def extend(self, xs):
        data = [pickle.dumps(x) for x in xs]
        self._sync('extend')
        self._items.extend(data)

    def insert(self, i, x):
        data = pickle.dumps(x)
        self._sync('insert')
        self._items.insert(i, data)

    def __setitem__(self, i, x):
        data = [pickle.dumps(y) for y in x] if isinstance(i, slice) else pickle.dumps(x)
        self._sync('setitem')
        self._items[i] = data

    def __delitem__(self, i):
        self._sync('delitem')
        del self._items[i]

    def pop(self, i=-1):
        self._sync('pop')
        return pickle.loads(self._items.pop(i))

    def __len__(self):
        self._sync('len')
        return len(self._items)

    def __getitem__(self, i):
        self._sync('get')
        if isinstance(i, slice):
            return [pickle.loads(d) for d in self._items[i]]
        return pickle.loads(self._items[i])

    def __contains__(self, x):
        self._sync('contains')
        return any(pickle.loads(d) == x for d in self._items)

    def snapshot(self):
        """harness-side view (no scheduling point)"""
        return [pickle.loads(d) for d in self._items]


class VDict(_Shared):
    """manager.dict(): keys and values are copied in and out; mutations by a task are scheduling points."""

    def __init__(self, manager, name):
        super().__init__(manager, name)
        self._d = {}

    def __setitem__(self, k, v):
        k, v = _copy(k), _copy(v)
        self._sync('setitem')
        self._d[k] = v

    def __getitem__(self, k):
        return _copy(self._d[_copy(k)])

    def __contains__(self, k):
        return _copy(k) in self._d

    def __len__(self):
        return len(self._d)

    def get(self, k, default=None):
        k = _copy(k)
        return _copy(self._d[k]) if k in self._d else default

    def items(self):
        return [(_copy(k), _copy(v)) for k, v in self._d.items()]

    def keys(self):
        return [_copy(k) for k in self._d]

    def values(self):
        return [_copy(v) for v in self._d.values()]

    def __iter__(self):
        return iter(self.keys())


class VQueue(_Shared):
    """manager.Queue() as used for log funnelling (never a scheduling point)."""

    def __init__(self, manager, name):
        super().__init__(manager, name)
        self._q = _queue.Queue()

    def put(self, x, block=True, timeout=None):
        self._q.put(x, block, timeout)

    def put_nowait(self, x):
        self._q.put_nowait(x)

    def get(self, block=True, timeout=None):
        return self._q.get(block, timeout)

    def get_nowait(self):
        return self._q.get_nowait()

    def task_done(self):
        self._q.task_done()


class VirtualManager:
    def __init__(self, sched):
        self.sched = sched
        self.objects = {}
        self.key = (sched.key, len(sched.managers))
        sched.managers.append(self)
        _MANAGERS[self.key] = self
        self._n = collections.Counter()

    def _name(self, kind):
        self._n[kind] += 1
        return f'{kind}{self._n[kind] - 1}'

    def list(self, seq=()):
        o = VList(self, self._name('L'), seq)
        self.objects[o._name] = o
        return o

    def dict(self):
        o = VDict(self, self._name('D'))
        self.objects[o._name] = o
        return o

    def Queue(self, maxsize=0):  # pylint: disable=invalid-name,unused-argument
        o = VQueue(self, self._name('Q'))
        self.objects[o._name] = o
        return o

    def shutdown(self):
        pass


class NoListener:
    """Stand-in for logging.handlers.QueueListener in the virtual world: log funnelling from worker
    processes is not modelled (tasks log directly), so no listener thread is started per execution."""

    def __init__(self, *args, **kwargs):
        pass

    def start(self):
        pass

    def stop(self):
        pass


@contextlib.contextmanager
def rebound(*bindings):
    """rebound((module, 'name', value), ...): rebind module globals for the duration of a block."""
    saved = []
    try:
        for mod, name, val in bindings:
            saved.append((mod, name, getattr(mod, name)))
            setattr(mod, name, val)
        yield
    finally:
        for mod, name, val in reversed(saved):
            setattr(mod, name, val)


# ------------------------------------------------------------------------------------------
# Forcing a schedule on the real process pool: gates
# ------------------------------------------------------------------------------------------
GATE_ENV = 'VF_GATE_DIR'


def gate_wait(name, ctl=None):
    """Participant side (Python): announce `at <name>` and block until the controller opens the gate."""
    ctl = ctl or os.environ.get(GATE_ENV)
    if not ctl:
        return
    with open(os.path.join(ctl, 'log'), 'w') as f:
        f.write(f'at {name}\n')
    with open(os.path.join(ctl, f'g.{name}'), 'r') as f:
        f.readline()


def gate_note(line, ctl=None):
    ctl = ctl or os.environ.get(GATE_ENV)
    if ctl:
        with open(os.path.join(ctl, 'log'), 'w') as f:
            f.write(line + '\n')


GATE_SH = r'''#!/bin/sh
# gating fake compiler: <fc> -c ... -o <target> <source>
# log "at start.<stem>" -> wait for gate -> "did start.<stem>" -> [real compile into private dir]
# -> "at finish.<stem>" -> wait for gate -> publish outputs -> "did finish.<stem>"
ctl="$VF_GATE_DIR"
prev=""; tgt=""; src=""
for a in "$@"; do
  if [ "$prev" = "-o" ]; then tgt="$a"; fi
  prev="$a"; src="$a"
done
stem="${src##*/}"; stem="${stem%.*}"
echo "at start.$stem" > "$ctl/log"
read x < "$ctl/g.start.$stem"
echo "did start.$stem" > "$ctl/log"
echo "at finish.$stem" > "$ctl/log"
read x < "$ctl/g.finish.$stem"
: > "$tgt"
echo "did finish.$stem" > "$ctl/log"
exit 0
'''


def make_gate_dir(ctl, gate_names):
    """Create the log FIFO and one FIFO per gate.  Returns the fd that keeps the log open."""
    os.makedirs(ctl, exist_ok=True)
    os.mkfifo(os.path.join(ctl, 'log'))
    for g in gate_names:
        os.mkfifo(os.path.join(ctl, f'g.{g}'))
    return os.open(os.path.join(ctl, 'log'), os.O_RDWR)


def run_controller(ctl, log_fd, steps, timeout, result_path, first_timeout=None):
    """Controller loop (runs in its own process).  steps: list of dict(gate=<name>, confirm=<log line>|None).
    For every step: wait until `at <gate>` was logged, open the gate, wait for the confirmation line.
    Writes dict(ok, log=[lines in arrival order], error) to result_path.  On timeout every gate is opened
    so that the system under test can drain."""
    seen = []
    have = set()
    buf = b''
    fds = []
    opened = set()

    def pump(deadline):
        nonlocal buf
        left = deadline - time.time()
        if left <= 0:
            return False
        r, _, _ = select.select([log_fd], [], [], left)
        if not r:
            return False
        buf += os.read(log_fd, 65536)
        while b'\n' in buf:
            line, buf = buf.split(b'\n', 1)
            line = line.decode()
            seen.append(line)
            have.add(line)
        return True

    def wait_for(line, deadline):
        while line not in have:
            if not pump(deadline):
                return False
        return True

    def open_gate(g):
        if g in opened:
            return
        opened.add(g)
        fd = os.open(os.path.join(ctl, f'g.{g}'), os.O_RDWR)
        os.write(fd, b'go\n')
        fds.append(fd)

    ok, err = True, None
    for k, st in enumerate(steps):
        # the first arrival includes the start-up of the whole pool (and manager) of the system under test
        deadline = time.time() + (first_timeout if k == 0 and first_timeout else timeout)
        if not wait_for(f'at {st["gate"]}', deadline):
            ok, err = False, f'step {k}: participant never arrived at gate {st["gate"]} (log so far: {seen})'
            break
        seen.append(f'>> {st["gate"]}')
        open_gate(st['gate'])
        if st.get('confirm') and not wait_for(st['confirm'], deadline):
            ok, err = False, f'step {k}: no confirmation {st["confirm"]!r} after opening {st["gate"]} (log: {seen})'
            break

    def report():
        with open(result_path + '.tmp', 'w') as f:
            json.dump(dict(ok=ok, error=err, log=seen), f)
        os.replace(result_path + '.tmp', result_path)

    if ok:
        end = time.time() + 0.05        # late arrivals are part of the observation
        while pump(end):
            pass
        report()
        return True
    # failure: open every gate so that the system under test can drain, and stay alive (a FIFO forgets what was
    # written to it once the last descriptor is closed) until the parent terminates us
    for name in os.listdir(ctl):
        if name.startswith('g.'):
            open_gate(name[2:])
    report()
    while True:
        pump(time.time() + 1.0)


def fork_controller(ctl, log_fd, steps, timeout=45.0, first_timeout=300.0):
    """Fork the controller; returns (pid, result_path)."""
    result_path = os.path.join(ctl, 'result.json')
    pid = os.fork()
    if pid == 0:
        code = 0
        try:
            run_controller(ctl, log_fd, steps, timeout, result_path, first_timeout)
        except BaseException:  # pylint: disable=broad-except
            code = 3
        finally:
            os._exit(code)
    return pid, result_path


def join_controller(pid, result_path, fds=(), grace=10.0):
    """Called after the system under test returned.  A successful controller exits by itself; a failed one
    keeps the gates open until it is terminated here."""
    import signal
    end = time.time() + grace
    while True:
        done, _ = os.waitpid(pid, os.WNOHANG)
        if done:
            break
        failed = False
        if os.path.exists(result_path):
            try:
                with open(result_path) as f:
                    failed = not json.load(f)['ok']
            except (OSError, ValueError):
                failed = False
        if failed or time.time() > end:
            os.kill(pid, signal.SIGKILL)
            os.waitpid(pid, 0)
            break
        time.sleep(0.005)
    for fd in fds:
        try:
            os.close(fd)
        except OSError:
            pass
    if not os.path.exists(result_path):
        return dict(ok=False, error='controller died', log=[])
    with open(result_path) as f:
        return json.load(f)


@contextlib.contextmanager
def real_slot(scratch, slots):
    """At most `slots` real-pool runs at a time across all pmap workers (each spawns a manager, W workers, a
    controller and the participants: running 16 of them at once only makes every one of them slow)."""
    import fcntl
    d = os.path.join(scratch, 'slots')
    os.makedirs(d, exist_ok=True)
    fds = [os.open(os.path.join(d, f's{k}'), os.O_CREAT | os.O_RDWR) for k in range(slots)]
    held = None
    try:
        while held is None:
            for fd in fds:
                try:
                    fcntl.flock(fd, fcntl.LOCK_EX | fcntl.LOCK_NB)
                    held = fd
                    break
                except OSError:
                    continue
            else:
                time.sleep(0.02)
        yield
    finally:
        for fd in fds:
            os.close(fd)


def undaemonize():
    """ctx.pmap workers are daemonic multiprocessing children, which may not start processes of their
    own (ProcessPoolExecutor, Manager).  Conformance runs need exactly that."""
    import multiprocessing as mp
    mp.current_process()._config['daemon'] = False  # pylint: disable=protected-access
