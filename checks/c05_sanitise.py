"""C05  Frontend input sanitisation leaves untargeted text untouched.

ENUM, deviation-bounded: a base kernel (a module procedure that assigns, prints its string
variables, opens / writes / re-reads a scratch file) plus every placement of one (quick) or two
(thorough) *trigger texts* of the sanitiser:

  triggers   __FILE__  __FILENAME__  __DATE__  __VERSION__  __LINE__  @PROCESS  CONVERT=  NEWUNIT=
  positions  sq         inside a single-quoted literal         (s1 = 'alpha <T> beta')
             dq         inside a double-quoted literal         (s2 = "gamma <T> delta")
             cmt        full-line comment
             icmt       inline comment behind a statement
             ident      inside an identifier                   (n/a for @PROCESS)
             open_arg   real OPEN argument                     (CONVERT= / NEWUNIT= only)
             cont_arg   real OPEN argument on a continuation line (CONVERT= / NEWUNIT= only)
             open_lit   OPEN-statement text inside a literal   (s4 = "open(9, <T>)")
             open_file  inside the FILE= literal of the real OPEN statement
             cont_lit   literal on a continuation line
             directive  on a '#define' line of an unused macro
  case       as written (upper) / lower / Mixed   (both triggers of a pair use the same variant)
  dup        switch: the whole kernel is in the file twice, as two textually identical routines kern / kern2
             (the sanitiser works line by line and keys its undo records by line number: a statement that
             occurs twice must be restored twice).  Applied to the base kernel and to every single placement
             (quick: the upper-case variants); both copies are judged, the driver calls both.
  (8 x 11 x 3 minus the inapplicable combinations; the nine positions of the design plus
   open_file and cont_arg.)

Oracle -- exactly the statement, weakest reading where it leaves room:
  1. the program parses with Frontend.FP;
  2. every StringLiteral value the harness put into the source is in the IR with exactly that value;
  3. every comment text (full-line and inline) is in the IR with exactly its original text;
  4. the identifier that merely contains the trigger is still a variable of the routine;
  5. a real CONVERT= / NEWUNIT= argument is back in the regenerated OPEN statement (argument-wise
     comparison of the OPEN statement, harness lexer: keywords case-insensitive, literals exact);
  6. original and regenerated module, each linked with the harness-owned driver program, compile
     with gfortran -cpp and print the same (string variables, file name reported by INQUIRE, the
     integer re-read from the scratch file as a raw stream -- so a lost CONVERT= changes the output).
Real uses of the macro tokens themselves (call abor1(__FILE__, __LINE__)) need a C preprocessor to
mean anything and are not in the space; the text of a '#define' line is not compared (the statement
lists literals, comments and identifiers) -- a directive placement must only leave everything else
intact.  A real CONVERT=/NEWUNIT= on a continuation line is not reached by the line-based workaround;
if the frontend then rejects the statement this is counted as `unsupported_by_workaround`, not as a
violation (the workaround changed nothing it did not target).
"""
import itertools
import re

from vf import w1_text_a as lx
from vf import gf

PROPERTY = 'C05'
LEVEL = 'exploration'
META = dict(
    engine='enum',
    technique='deviation-bounded enumeration of trigger placements on a printing base kernel; IR literal/comment/identifier '
              'comparison + gfortran differential of original vs regenerated module',
    level_text='every placement of <= 1 (quick) / <= 2 (thorough) sanitiser trigger texts (8 triggers x 11 positions x 3 '
               'letter cases) on the base kernel: program parses, literal values / comment texts / identifiers are exact, real '
               'CONVERT=/NEWUNIT= arguments are restored, regenerated program compiles and prints the same as the original',
    level_note='gfortran 12 -cpp is the ground truth for behaviour; the driver PROGRAM is harness-owned and never passes '
               'through Loki; directive text itself is not compared',
)

TRIGGERS = ['__FILE__', '__FILENAME__', '__DATE__', '__VERSION__', '__LINE__', '@PROCESS', 'CONVERT=', 'NEWUNIT=']
FAMILY = {'__FILE__': 'string macro', '__FILENAME__': 'string macro', '__DATE__': 'string macro',
          '__VERSION__': 'string macro', '__LINE__': '__LINE__', '@PROCESS': '@PROCESS',
          'CONVERT=': 'CONVERT=', 'NEWUNIT=': 'NEWUNIT='}
POSITIONS = ['sq', 'dq', 'cmt', 'icmt', 'ident', 'open_arg', 'cont_arg', 'open_lit', 'open_file', 'cont_lit', 'directive']
CASES = ['upper', 'lower', 'mixed']
# which slot of the kernel a position occupies (two placements of one program need different slots)
SLOT = {'sq': 's1', 'dq': 's2', 'cmt': 'cmt', 'icmt': 'icmt', 'ident': 'ident', 'open_arg': 'openarg',
        'cont_arg': 'openarg', 'open_lit': 's4', 'open_file': 'openfile', 'cont_lit': 's3', 'directive': 'directive'}


def slot_of(p):
    """Two real OPEN arguments (CONVERT= and NEWUNIT=) may share the one OPEN statement."""
    if p[1] in ('open_arg', 'cont_arg'):
        return 'openarg:' + p[0]
    return SLOT[p[1]]


def _silence():
    import logging
    logging.disable(logging.CRITICAL)


def applicable(trig, pos):
    if pos == 'ident' and trig == '@PROCESS':
        return False
    if pos in ('open_arg', 'cont_arg') and trig not in ('CONVERT=', 'NEWUNIT='):
        return False
    return True


def recase(text, case):
    if case == 'upper':
        return text
    if case == 'lower':
        return text.lower()
    return re.sub(r'[A-Za-z]+', lambda m: m.group(0).capitalize(), text)     # Mixed: __File__, @Process, Convert=


def spell(seed):
    pools = [dict(w=('alpha', 'beta', 'gamma', 'delta'), endian='BIG_ENDIAN', unit='iu', idp='va', ids='b'),
             dict(w=('north', 'south', 'east', 'west'), endian='LITTLE_ENDIAN', unit='lun', idp='qx', ids='z'),
             dict(w=('red', 'green', 'blue', 'grey'), endian='BIG_ENDIAN', unit='kunit', idp='tmp', ids='k')]
    return pools[seed % len(pools)]


def trigger_text(trig, case, ctx, sp):
    """Text of the trigger as it is written in context ctx in ('sq','dq','plain','arg','ident')."""
    if trig == 'CONVERT=':
        if ctx == 'ident':
            return recase('CONVERT', case)
        q = '"' if ctx == 'sq' else "'"
        return recase(f'CONVERT={q}{sp["endian"]}{q}', case)
    if trig == 'NEWUNIT=':
        if ctx == 'ident':
            return recase('NEWUNIT', case)
        return recase('NEWUNIT=', case) + sp['unit']
    return recase(trig, case)


def build(placements, seed=0, modname='c05_mod', dup=False):
    """placements: list of (trigger, position, case).  Returns dict(source, expect...)"""
    sp = spell(seed)
    w = sp['w']
    u = sp['unit']
    P = {slot_of((trig, pos, case)): (trig, pos, case) for trig, pos, case in placements}
    assert len(P) == len(placements), 'two placements in one slot'

    def T(slot, ctx):
        trig, pos, case = P[slot]
        return trigger_text(trig, case, ctx, sp)

    lit = {}
    lit['s1'] = f'{w[0]} {T("s1", "sq")} {w[1]}' if 's1' in P else f'{w[0]} {w[1]}'
    lit['s2'] = f'{w[2]} {T("s2", "dq")} {w[3]}' if 's2' in P else f'{w[2]} {w[3]}'
    lit['s3b'] = f' right {T("s3", "sq")} end' if 's3' in P else ' right end'
    lit['s4'] = f'open(9, {T("s4", "dq")})' if 's4' in P else 'open(9, status="old")'.replace('"', "'")
    cmt = f'! note {T("cmt", "plain")} here' if 'cmt' in P else '! note here'
    icmt = f'! tail {T("icmt", "plain")} end' if 'icmt' in P else '! tail end'
    if 'ident' in P:
        trig, _, case = P['ident']
        ident = f'{sp["idp"]}{T("ident", "ident")}{sp["ids"] if trig not in ("CONVERT=", "NEWUNIT=") else ""}'
    else:
        ident = f'{sp["idp"]}plain{sp["ids"]}'
    fname = f'c05_{T("openfile", "sq")}.dat' if 'openfile' in P else 'c05_scratch.dat'
    # the real OPEN statement: arguments of the first and (if any placement asks for it) of a continuation line
    unit_arg = f'unit={u}'
    unit_on_cont = False
    conv1 = conv2 = ''
    cont_form = False
    real_args = {}
    if 'openarg:NEWUNIT=' in P:
        trig, pos, case = P['openarg:NEWUNIT=']
        unit_arg = recase('NEWUNIT=', case) + u
        real_args['newunit'] = [u]
        unit_on_cont = pos == 'cont_arg'
        cont_form |= unit_on_cont
    if 'openarg:CONVERT=' in P:
        trig, pos, case = P['openarg:CONVERT=']
        val = recase(sp['endian'], case)
        arg = ', ' + recase('CONVERT=', case) + f"'{val}'"
        real_args['convert'] = [f"'{val}'"]
        if pos == 'cont_arg':
            conv2 = arg
            cont_form = True
        else:
            conv1 = arg
    if cont_form:
        line1 = ([] if unit_on_cont else [unit_arg]) + [f"file='{fname}'", "form='unformatted'", "access='stream'"]
        line2 = ([unit_arg] if unit_on_cont else []) + ["status='replace'"]
        open_stmt = (f"open({', '.join(line1)}{conv1}, &\n"
                     f"       & {', '.join(line2)}{conv2})")
    else:
        open_stmt = f"open({unit_arg}, file='{fname}', form='unformatted', access='stream', status='replace'{conv1})"
    directive = f'#define {modname.upper()}_UNUSED {T("directive", "plain")}\n' if 'directive' in P else ''
    # the ident assignment is written without blanks around '=' so that 'xconvert=' / 'xnewunit=' occur literally
    body = f"""    integer, intent(in) :: n
    character(len=96) :: s1, s2, s3, s4, fname
    integer :: {u}, ival, jval, {ident}
{directive}    {cmt}
    s1 = '{lit['s1']}'
    s2 = "{lit['s2']}"
    ival = n + 1  {icmt}
    {ident}=ival + 2
    s3 = 'left' // &
       & '{lit['s3b']}'
    s4 = "{lit['s4']}"
    {u} = 11
    {open_stmt}
    write({u}) ival
    inquire(unit={u}, name=fname)
    close({u})
    open(unit=12, file=fname, form='unformatted', access='stream', status='old')
    read(12) jval
    close(12, status='delete')
    print '(A)', trim(s1)
    print '(A)', trim(s2)
    print '(A)', trim(s3)
    print '(A)', trim(s4)
    print '(A)', trim(fname)
    print '(I0,1X,I0,1X,I0)', ival, jval, {ident}
"""
    # 'dup': the same routine body a second time, textually identical line by line, under another name
    routines = ['kern', 'kern2'] if dup else ['kern']
    src = f'module {modname}\n  implicit none\ncontains\n' + ''.join(
        f'  subroutine {r}(n)\n{body}  end subroutine {r}\n' for r in routines) + f'end module {modname}\n'
    # literal values as Fortran sees them (a doubled delimiter would be one character; none are generated)
    expect_lits = {'s1': [lit['s1']], 's2': [lit['s2']], 's3': ['left', lit['s3b']], 's4': [lit['s4']]}
    return dict(source=src, lits=expect_lits, comments=[cmt, icmt], ident=ident, real_args=real_args, unit=u,
                routines=routines,
                open_stmt=open_stmt, cont_real=cont_form)


def driver(mods):
    """Harness-owned driver (never goes through Loki): calls every kernel, framing its output.
    mods: list of (module name, [routine names])."""
    lines = ['program c05_drv']
    for k, (m, rs) in enumerate(mods):
        lines += [f'  use {m}, only: ' + ', '.join(f'{r}_{k} => {r}' for r in rs)]
    lines += ['  implicit none']
    for k, (m, rs) in enumerate(mods):
        lines += [f"  print '(A)', '#@ {m}'"] + [f'  call {r}_{k}(3)' for r in rs]
    lines += ['end program c05_drv', '']
    return '\n'.join(lines)


def split_frames(out):
    frames, cur = {}, None
    for line in out.split('\n'):
        if line.startswith('#@ '):
            cur = line[3:].strip()
            frames[cur] = []
        elif cur is not None:
            frames[cur].append(line)
    return {k: '\n'.join(v) for k, v in frames.items()}


def open_args(stmt_tokens):
    """{keyword: [value tokens]} of an OPEN statement token list (harness view); names lower-cased, literals exact."""
    toks = stmt_tokens
    if len(toks) < 3 or toks[0].lower() != 'open' or toks[1] != '(':
        return None
    depth = 0
    args, cur = [], []
    for t in toks[2:]:
        if t == '(':
            depth += 1
        elif t == ')':
            if depth == 0:
                break
            depth -= 1
        if t == ',' and depth == 0:
            args.append(cur)
            cur = []
        else:
            cur.append(t)
    args.append(cur)
    out = {}
    for k, a in enumerate(args):
        norm = [t if t[:1] in '\'"' else t.lower() for t in a]
        if len(norm) >= 2 and norm[1] == '=':
            out[norm[0]] = norm[2:]
        else:
            out['unit' if k == 0 else f'#{k}'] = norm
    return out


def all_opens(text):
    out = []
    for st in lx.statements(text):
        toks = lx.statement_tokens(st)
        if toks and toks[0].lower() == 'open' and len(toks) > 1 and toks[1] == '(':
            out.append(toks)
    return out


def ir_facts(sf, rname='kern'):
    """Literal values per assigned string variable, comment texts, variable names -- read off the IR."""
    from loki.ir import nodes as ir, FindNodes
    from loki.ir.expr_visitors import FindLiterals
    from loki.expression import symbols as sym
    routine = sf[rname]
    lits = {}
    comments = []
    for a in FindNodes(ir.Assignment).visit(routine.body):
        name = str(a.lhs.name).lower()
        vals = [l.value for l in sorted(FindLiterals(unique=False).visit(a.rhs), key=lambda l: 0)
                if isinstance(l, sym.StringLiteral)]
        if vals:
            lits.setdefault(name, []).extend(vals)
    for node in FindNodes(ir.Node).visit(routine.ir):
        if isinstance(node, ir.Comment):
            comments.append(node.text)
        elif isinstance(node, ir.CommentBlock):
            comments.extend(c.text for c in node.comments)
        c = getattr(node, 'comment', None)
        if c is not None and not isinstance(node, (ir.Comment, ir.CommentBlock)):
            comments.append(c.text)
    names = {str(v.name).lower() for v in routine.variables}
    return lits, comments, names


def analyse(placements, seed=0, modname='c05_mod', dup=False):
    """Stages 1-5 (no compiler).  Returns dict(atoms=[(slot, kind, detail)], info, source, regen).
    With dup the kernel is in the file twice (textually identical routines kern and kern2); everything is demanded of
    both copies.  A failure that only the second copy shows gets ' (only in the second, identical copy)' in its kind."""
    _silence()
    from loki import Sourcefile, Frontend
    b = build(placements, seed, modname, dup=dup)
    info = dict(parsed=False, unsupported=False, compared=False)
    atoms = []
    res = dict(atoms=atoms, info=info, source=b['source'], regen=None, modname=modname, routines=b['routines'])
    try:
        sf = Sourcefile.from_source(b['source'], frontend=Frontend.FP)
        regen = sf.to_fortran()
        facts = [ir_facts(sf, r) for r in b['routines']]
    except Exception as e:  # pylint: disable=broad-except
        if b['cont_real']:
            # is it the real argument on the continuation line alone that the frontend rejects?
            alone = [p for p in placements if p[1] == 'cont_arg']
            try:
                Sourcefile.from_source(build(alone, seed, modname)['source'], frontend=Frontend.FP)
            except Exception:  # pylint: disable=broad-except
                info['unsupported'] = True
                return res
        atoms.append(('program', 'does not parse', f'{type(e).__name__}: {str(e)[:160]}'))
        return res
    info['parsed'] = True
    res['regen'] = regen
    SECOND = ' (only in the second, identical copy)'

    def add(copy, slot, kind, detail):
        if copy and not any(a[0] == slot and a[1] == kind for a in atoms):
            kind += SECOND
        if not any(a[0] == slot and a[1] == kind for a in atoms):
            atoms.append((slot, kind, detail if not copy else f'routine kern2: {detail}'))

    for copy, (lits, comments, names) in enumerate(facts):
        for var, want in b['lits'].items():
            got = lits.get(var, [])
            if sorted(got) != sorted(want):
                add(copy, var, 'literal value changed', f'{var}: source has {want!r}, IR has {got!r}')
        got_c = [c.strip() for c in comments]
        for slot, want in zip(('cmt', 'icmt'), b['comments']):
            if want not in got_c:
                near = [c for c in got_c if c[:6] == want[:6]]
                add(copy, slot, 'comment text changed', f'source has {want!r}, IR has {near or got_c!r}')
        if b['ident'].lower() not in names:
            add(copy, 'ident', 'identifier changed', f'{b["ident"]!r} is not a variable of the routine: {sorted(names)}')
    # every OPEN statement: argument-wise equal to its original (covers restoration and the FILE= literal)
    src_opens, reg_opens = all_opens(b['source']), all_opens(regen)
    per = len(src_opens) // len(b['routines'])
    for k, so in enumerate(src_opens):
        copy = k // per
        o_src = open_args(so)
        ro = reg_opens[k] if k < len(reg_opens) else None
        o_reg = open_args(ro) if ro else None
        if o_reg == o_src:
            continue
        lost = sorted(set(o_src) - set(o_reg or {}))
        changed = sorted(x for x in o_src if o_reg and x in o_reg and o_reg[x] != o_src[x])
        extra = sorted(set(o_reg or {}) - set(o_src))
        real = b['real_args'] if k % per == 0 else {}
        if real and any(x in real for x in lost + changed):
            add(copy, 'openarg', 'real OPEN argument not restored',
                f'lost {lost} changed {changed} extra {extra}; regenerated: {" ".join(ro or [])[:200]}')
        if not real or any(x not in real for x in lost + changed) or extra:
            add(copy, 'openfile', 'OPEN statement altered',
                f'lost {lost} changed {changed} extra {extra}; regenerated: {" ".join(ro or [])[:200]}')
    return res


GF_FLAGS = ['-cpp']


def _first_error(err):
    return next((l for l in err.split('\n') if l.startswith('Error')), err.strip()[-160:])[:200]


def gf_stage(results, scratch):
    """Compile+run the originals of all parsed cases as one program, the regenerated modules as another, and
    compare the framed outputs per case (atoms are appended in place).  A regenerated batch that does not build is
    re-run case by case so that the failure is attributed to exactly one case."""
    todo = [r for r in results if r['regen'] is not None]
    if not todo:
        return
    mods = [(r['modname'], r['routines']) for r in todo]
    r0 = gf.compile_and_run([('orig.f90', '\n'.join(r['source'] for r in todo)), ('drv.f90', driver(mods))],
                            flags=GF_FLAGS, base=scratch, timeout=300)
    if not r0['ok']:
        raise RuntimeError(f'harness: original programs do not build/run ({r0["stage"]}): {r0["err"][-400:]}')
    f0 = split_frames(r0['out'])
    r1 = gf.compile_and_run([('regen.f90', '\n'.join(r['regen'] + '\n' for r in todo)), ('drv.f90', driver(mods))],
                            flags=GF_FLAGS, base=scratch, timeout=300)
    f1 = split_frames(r1['out']) if r1['ok'] else None
    for r in todo:
        m = r['modname']
        r['info']['compared'] = True
        r['info']['out'] = f0[m]
        if f1 is not None:
            out1, fail = f1.get(m), None
        else:
            x = gf.compile_and_run([('regen.f90', r['regen'] + '\n'), ('drv.f90', driver([(m, r['routines'])]))], flags=GF_FLAGS,
                                   base=scratch, timeout=120)
            out1 = split_frames(x['out']).get(m) if x['ok'] else None
            fail = None if x['ok'] else ('regenerated code does not compile' if x['stage'] == 'compile'
                                         else 'regenerated program fails at run time', _first_error(x['err']))
        if fail:
            r['atoms'].append(('program', fail[0], fail[1]))
        elif out1 != f0[m]:
            d0, d1 = f0[m].split('\n'), (out1 or '').split('\n')
            k = next((i for i, (x, y) in enumerate(zip(d0, d1)) if x != y), min(len(d0), len(d1)))
            r['atoms'].append(('program', 'output differs',
                               f'line {k + 1}: original {d0[k:k + 1]!r}, regenerated {d1[k:k + 1]!r}'))


def judge(placements, seed=0, scratch=None, dup=False):
    """One case, all stages.  Returns (atoms, info)."""
    r = analyse(placements, seed, dup=dup)
    gf_stage([r], scratch)
    return r['atoms'], r['info']


CONTEXT = {'sq': 'character literal', 'dq': 'character literal', 'open_lit': 'character literal',
           'open_file': 'character literal', 'cont_lit': 'character literal', 'cmt': 'comment', 'icmt': 'comment',
           'ident': 'identifier', 'open_arg': 'real OPEN argument', 'cont_arg': 'real OPEN argument',
           'directive': 'preprocessor directive'}


def placement_name(p):
    trig, pos, case = p
    return f'{FAMILY[trig]} inside {CONTEXT[pos]}'


def atom_sig(p, atom):
    """One signature per root cause: which sanitiser rule family touched which lexical context.  The observable
    consequence (does not parse / value changed / output differs) depends on the quote character and the position
    and is reported in the detail, not in the signature."""
    if CONTEXT[p[1]] in ('real OPEN argument', 'preprocessor directive'):
        return f'{placement_name(p)}: {atom[1]}'
    return f'{placement_name(p)} is rewritten'


def owner(placements, atom):
    """Which placement owns the slot an atom is about (None for whole-program atoms)."""
    for p in placements:
        if slot_of(p).split(':')[0] == atom[0]:
            return p
    return None


def all_singles():
    return [(t, pos, c) for t in TRIGGERS for pos in POSITIONS for c in CASES if applicable(t, pos)]


def work_batch(arg):
    """arg = (list of placement lists, seed, scratch) -> list of (placements, atoms, info) or an error string."""
    cases, seed, scratch = arg
    dup = False
    if cases and cases[0] == 'DUP':
        dup, cases = True, cases[1:]
    try:
        results = [analyse(pl, seed, modname=f'c05_mod_{k}', dup=dup) for k, pl in enumerate(cases)]
        gf_stage(results, scratch)
        return [(pl, r['atoms'], r['info']) for pl, r in zip(cases, results)], None
    except Exception as e:  # pylint: disable=broad-except
        return [], f'{type(e).__name__}: {e}'


def batches(cases, size):
    return [cases[k:k + size] for k in range(0, len(cases), size)]


def run(ctx):
    from vf.explore import seeded_order
    _silence()
    scratch = str(ctx.scratch)
    # ---- d = 0: the base kernel must be clean (harness sanity + vacuity: it prints something)
    atoms, info = judge([], ctx.seed, scratch)
    ctx.require(not atoms, f'base kernel without any trigger already violates: {atoms}')
    ctx.require(info.get('compared') and len(info['out'].split('\n')) >= 6, 'base kernel printed nothing')
    base_out = info['out']
    # ---- d = 1
    singles = seeded_order(all_singles(), ctx.seed)
    out1 = ctx.pmap(work_batch, [(bt, ctx.seed, scratch) for bt in batches([[p] for p in singles], 8)], chunksize=1)
    errs = [e for _, e in out1 if e]
    ctx.require(not errs, 'harness error in single placements: ' + ' | '.join(errs[:3]))
    res1 = [(pl[0], atoms, info, None) for lst, _ in out1 for pl, atoms, info in lst]
    table = {}
    unsupported = 0
    outputs = {base_out}
    nontrivial = 0
    for p, atoms, info, _ in res1:
        table[p] = {(a[0], a[1]) for a in atoms}
        unsupported += bool(info.get('unsupported'))
        if info.get('out'):
            outputs.add(info['out'])
        nontrivial += 1
    viol = []          # (signature, order key, case, detail)
    for p, atoms, info, _ in res1:
        for a in atoms:
            viol.append((atom_sig(p, a), (1, TRIGGERS.index(p[0]), POSITIONS.index(p[1]), CASES.index(p[2])),
                         dict(placements=[list(p)], seed=ctx.seed), f'{p[0]} ({p[2]}) at {p[1]}: {a[2]}'))
    evaluations = 1 + len(singles)
    npairs = clean_pairs = 0
    # ---- d = 1 + switch "the kernel is in the file twice" (textually identical routines kern / kern2):
    #      quick: base kernel and every placement written in upper case; thorough: every placement
    atoms, info = judge([], ctx.seed, scratch, dup=True)
    ctx.require(not atoms, f'duplicated base kernel without any trigger already violates: {atoms}')
    dups = [p for p in singles if p[2] == 'upper' or not ctx.quick]
    outd = ctx.pmap(work_batch, [(['DUP'] + bt, ctx.seed, scratch) for bt in batches([[p] for p in dups], 6)], chunksize=1)
    errs = [e for _, e in outd if e]
    ctx.require(not errs, 'harness error in duplicated-kernel placements: ' + ' | '.join(errs[:3]))
    ndup_fresh = 0
    for lst, _ in outd:
        for pl, atoms, info in lst:
            p = pl[0]
            if info.get('out'):
                outputs.add(info['out'])
            key = (1, TRIGGERS.index(p[0]), POSITIONS.index(p[1]), CASES.index(p[2]), 1)
            case = dict(placements=[list(p)], seed=ctx.seed, dup=True)
            fresh = [a for a in sorted(atoms, key=lambda a: a[0] == 'program') if (a[0], a[1]) not in table[p]]
            for a in atoms:
                if (a[0], a[1]) in table[p]:
                    viol.append((atom_sig(p, a), key, case, f'{p[0]} ({p[2]}) at {p[1]}, kernel duplicated: {a[2]}'))
            if fresh:
                ndup_fresh += 1
                kind = fresh[0][1].replace(' (only in the second, identical copy)', '')
                viol.append((f'{placement_name(p)} in a routine that is in the file twice: {kind}', key, case,
                             f'{p[0]} ({p[2]}) at {p[1]}, kernel duplicated: ' + '; '.join(f'{a[1]}: {a[2]}' for a in fresh)))
    evaluations += 1 + len(dups)
    # ---- d = 2 (thorough)
    if not ctx.quick:
        pairs = []
        for pa, pb in itertools.combinations(sorted(all_singles(), key=lambda p: (TRIGGERS.index(p[0]),
                                                                                  POSITIONS.index(p[1]),
                                                                                  CASES.index(p[2]))), 2):
            if slot_of(pa) == slot_of(pb) or pa[2] != pb[2]:
                continue            # bound: both triggers of a pair use the same letter-case variant
            pairs.append((pa, pb))
        pairs = seeded_order(pairs, ctx.seed)
        out2 = ctx.pmap(work_batch, [(bt, ctx.seed, scratch) for bt in batches([[pa, pb] for pa, pb in pairs], 24)],
                        chunksize=1)
        errs = [e for _, e in out2 if e]
        ctx.require(not errs, 'harness error in pair placements: ' + ' | '.join(errs[:3]))
        res2 = [(pl[0], pl[1], atoms, info, None) for lst, _ in out2 for pl, atoms, info in lst]
        npairs = len(pairs)
        for pa, pb, atoms, info, _ in res2:
            unsupported += bool(info.get('unsupported'))
            if info.get('out'):
                outputs.add(info['out'])
            if not table[pa] and not table[pb]:
                clean_pairs += 1
            key = (2, TRIGGERS.index(pa[0]), POSITIONS.index(pa[1]), CASES.index(pa[2]),
                   TRIGGERS.index(pb[0]), POSITIONS.index(pb[1]), CASES.index(pb[2]))
            case = dict(placements=[list(pa), list(pb)], seed=ctx.seed)
            fresh = []
            for a in sorted(atoms, key=lambda a: a[0] == 'program'):
                k = (a[0], a[1])
                own = owner([pa, pb], a)
                if own is not None and k in table[own]:
                    sig = atom_sig(own, a)                       # the single placement fails the same way on its own
                elif own is None and (k in table[pa] or k in table[pb]):
                    sig = atom_sig(pa if k in table[pa] else pb, a)
                else:
                    fresh.append(a)
                    continue
                viol.append((sig, key, case, f'{pa[0]} ({pa[2]}) at {pa[1]} + {pb[0]} ({pb[2]}) at {pb[1]}: {a[2]}'))
            if fresh:
                # something neither placement shows on its own: one violation, named after its first symptom
                sig = f'interaction of {placement_name(pa)} + {placement_name(pb)}: {fresh[0][1]}'
                viol.append((sig, key, case, f'{pa[0]} ({pa[2]}) at {pa[1]} + {pb[0]} ({pb[2]}) at {pb[1]}: ' +
                             '; '.join(f'{a[1]}: {a[2]}' for a in fresh)))
        evaluations += npairs
    for sig, key, case, det in sorted(viol, key=lambda v: (v[0], v[1])):
        ctx.violation(sig, case, det)
    ctx.require(len(outputs) >= 10, f'vacuous: only {len(outputs)} distinct program outputs observed')
    ctx.cov.update(
        evaluations=evaluations, distinct_nontrivial=evaluations - 1, exhaustive=True,
        rule='base kernel, every applicable (trigger, position, letter case) placement, the same with the kernel duplicated as '
             'a second textually identical routine (quick: upper-case placements; thorough: all), and (thorough) every unordered pair '
             'of placements in different slots with the same letter-case variant; non-trivial = the program contains at least one trigger text (all but the '
             'base kernel); all programs are pairwise distinct texts',
        singles=len(singles), duplicated_kernel_cases=1 + len(dups), pairs=npairs, pairs_of_individually_clean_placements=clean_pairs,
        unsupported_by_workaround=unsupported, distinct_program_outputs=len(outputs),
        placements_violating_alone=sum(1 for p in table if table[p]),
        samples=[dict(placements=[list(singles[0])], seed=ctx.seed, source=build([singles[0]], ctx.seed)['source'])],
        bound=dict(triggers=TRIGGERS, positions=POSITIONS, cases=CASES, max_triggers_per_program=1 if ctx.quick else 2),
    )
    ctx.assumptions += [
        'gfortran 12 with -cpp decides compilability and program output; macros inside literals/comments are not expanded by it',
        'real uses of __FILE__/__LINE__ tokens (which need a C preprocessor) are outside the space',
        'the text of #define lines is not compared',
    ]


def replay(case):
    import tempfile
    import shutil
    scratch = tempfile.mkdtemp(prefix='c05r_', dir='/dev/shm')
    try:
        atoms, info = judge([tuple(p) for p in case['placements']], case.get('seed', 0), scratch,
                            dup=bool(case.get('dup')))
    finally:
        shutil.rmtree(scratch, ignore_errors=True)
    return '; '.join(f'[{a[0]}: {a[1]}] {a[2]}' for a in atoms) if atoms else None
