"""A zoo of small Fortran program units shared by C17 (clone) and C18 (pickle).

Every entry is plain source text (never a golden output) plus the text of the *definition*
modules it may be enriched with.  `build(entry, enrich)` parses a fresh `Sourcefile` (full FP
frontend) and returns a `Built` with the file and the list of addressable units:

    path ()            the Sourcefile itself
    path (i,)          i-th program unit of the file (Module or Subroutine/Function)
    path (i, j)        j-th procedure contained in unit i (module procedure or internal procedure)

33 entries; the zoo is ordered by family (routines, modules, files); `ZOO_QUICK` is the prefix/selection used by quick tiers.
Features per entry are listed in `features` so that a check can assert coverage (vacuity guards).
"""
import collections

Entry = collections.namedtuple('Entry', 'name source defs features')

KMOD = """
module kmod
  implicit none
  integer, parameter :: jprb = selected_real_kind(13, 300)
  integer, parameter :: jpim = selected_int_kind(9)
  type ext_t
    real(kind=jprb) :: val
    integer :: idx(3)
  end type ext_t
  real(kind=jprb) :: gscale = 1.0
contains
  subroutine ext_sub(n, a, b)
    integer, intent(in) :: n
    real(kind=jprb), intent(in) :: a(n)
    real(kind=jprb), intent(out) :: b(n)
    b(:) = a(:)
  end subroutine ext_sub
  function ext_fun(x) result(y)
    real(kind=jprb), intent(in) :: x
    real(kind=jprb) :: y
    y = 2.0 * x
  end function ext_fun
end module kmod
"""

_Z = []


def _add(name, source, defs=(), features=()):
    _Z.append(Entry(name, source.lstrip('\n'), tuple(defs), tuple(features)))


_add('r_plain', """
subroutine r_plain(n, a)
  implicit none
  integer, intent(in) :: n
  real, intent(inout) :: a(n)
  integer :: i
  do i = 1, n
    a(i) = a(i) + 1.0
  end do
end subroutine r_plain
""", features=['routine', 'loop', 'array'])

_add('r_scalar', """
subroutine r_scalar(x, y)
  real, intent(in) :: x
  real, intent(out) :: y
  real :: t
  t = x * 2.0
  y = t + x
end subroutine r_scalar
""", features=['routine'])

_add('f_result', """
function f_result(x) result(y)
  real, intent(in) :: x
  real :: y
  y = x * x
end function f_result
""", features=['function'])

_add('f_plain', """
integer function f_plain(k)
  integer, intent(in) :: k
  f_plain = k + 1
end function f_plain
""", features=['function'])

_add('r_init', """
subroutine r_init(a)
  implicit none
  integer, parameter :: nlev = 3
  real, parameter :: eps = 1.0e-3
  real, intent(inout) :: a(nlev, 2*nlev)
  real :: work(0:nlev)
  integer :: j
  work(:) = eps
  do j = 1, nlev
    a(j, 1) = work(j)
  end do
end subroutine r_init
""", features=['routine', 'initial', 'shape-expr'])

_add('r_member', """
subroutine r_member(n, a)
  implicit none
  integer, intent(in) :: n
  real, intent(inout) :: a(n)
  integer :: i
  do i = 1, n
    call bump(a(i))
  end do
contains
  subroutine bump(v)
    real, intent(inout) :: v
    v = v + 0.5 * n
  end subroutine bump
end subroutine r_member
""", features=['routine', 'contains', 'call'])

_add('r_member_fn', """
subroutine r_member_fn(n, a)
  integer, intent(in) :: n
  real, intent(out) :: a(n)
  integer :: i
  do i = 1, n
    a(i) = twice(i)
  end do
contains
  function twice(k) result(r)
    integer, intent(in) :: k
    real :: r
    r = 2.0 * k
  end function twice
  subroutine unused(q)
    integer, intent(inout) :: q
    q = q + n
  end subroutine unused
end subroutine r_member_fn
""", features=['routine', 'contains', 'function'])

_add('r_assoc', """
subroutine r_assoc(n, a, b)
  integer, intent(in) :: n
  real, intent(inout) :: a(n), b(n)
  integer :: i
  associate (p => a, q => b(1))
    do i = 1, n
      p(i) = p(i) + q
    end do
  end associate
end subroutine r_assoc
""", features=['routine', 'associate'])

_add('r_assoc_nested', """
subroutine r_assoc_nested(n, a, b)
  integer, intent(in) :: n
  real, intent(inout) :: a(n), b(n)
  integer :: i
  associate (p => a)
    p(1) = 0.0
    associate (q => b, m => n)
      do i = 1, m
        q(i) = p(i) + 1.0
      end do
    end associate
  end associate
end subroutine r_assoc_nested
""", features=['routine', 'associate', 'nested-scoped-node'])

_add('r_assoc_loop', """
subroutine r_assoc_loop(n, a, b)
  integer, intent(in) :: n
  real, intent(inout) :: a(n), b(n)
  integer :: i
  associate (p => a)
    do i = 1, n
      associate (q => b(i))
        q = p(i) * 2.0
      end associate
    end do
  end associate
end subroutine r_assoc_loop
""", features=['routine', 'associate', 'loop', 'nested-scoped-node'])

_add('r_cond', """
subroutine r_cond(k, x, flag)
  integer, intent(in) :: k
  real, intent(inout) :: x
  logical, intent(in), optional :: flag
  if (present(flag)) then
    if (flag) x = -x
  else if (k > 0) then
    x = x + 1.0
  else
    x = 0.0
  end if
  select case (k)
  case (1)
    x = 1.0
  case (2:4)
    x = 2.0
  case default
    x = 3.0
  end select
end subroutine r_cond
""", features=['routine', 'conditional', 'optional'])

_add('r_import', """
subroutine r_import(n, a)
  use kmod, only: jprb, ext_sub
  implicit none
  integer, intent(in) :: n
  real(kind=jprb), intent(inout) :: a(n)
  real(kind=jprb) :: tmp(n)
  call ext_sub(n, a, tmp)
  a(:) = tmp(:)
end subroutine r_import
""", defs=[KMOD], features=['routine', 'import', 'call', 'kind', 'enrichable'])

_add('r_import_type', """
subroutine r_import_type(e, s)
  use kmod, only: jprb, ext_t, ext_fun
  implicit none
  type(ext_t), intent(inout) :: e
  real(kind=jprb), intent(out) :: s
  s = ext_fun(e%val) + e%idx(1)
  e%val = s
end subroutine r_import_type
""", defs=[KMOD], features=['routine', 'import', 'derived-var', 'kind', 'enrichable'])

_add('r_cast', """
subroutine r_cast(n, x, k)
  use kmod, only: jprb
  implicit none
  integer, intent(in) :: n
  real(kind=jprb), intent(out) :: x
  integer, intent(out) :: k
  x = real(n, kind=jprb) + real(n)
  k = int(x)
end subroutine r_cast
""", defs=[KMOD], features=['routine', 'cast', 'kind', 'import'])

_add('r_import_all', """
subroutine r_import_all(e)
  use kmod
  type(ext_t), intent(inout) :: e
  e%val = gscale * e%val
  e%idx(:) = 0
end subroutine r_import_all
""", defs=[KMOD], features=['routine', 'import', 'derived-var', 'enrichable'])

_add('r_rename', """
subroutine r_rename(a)
  use kmod, only: wp => jprb, copy => ext_sub
  real(kind=wp), intent(inout) :: a(4)
  real(kind=wp) :: b(4)
  call copy(4, a, b)
  a = b
end subroutine r_rename
""", defs=[KMOD], features=['routine', 'import', 'rename', 'enrichable'])

_add('r_intf', """
subroutine r_intf(n, a)
  implicit none
  integer, intent(in) :: n
  real, intent(inout) :: a(n)
  interface
    subroutine helper(m, v)
      integer, intent(in) :: m
      real, intent(inout) :: v(m)
    end subroutine helper
  end interface
  call helper(n, a)
end subroutine r_intf
""", features=['routine', 'interface', 'call'])

_add('r_alloc', """
subroutine r_alloc(n, s)
  integer, intent(in) :: n
  real, intent(out) :: s
  real, allocatable :: buf(:)
  real, pointer :: p(:) => null()
  real, target :: t(4)
  allocate(buf(n))
  buf(:) = 1.0
  p => t
  p(:) = 0.5
  s = sum(buf) + sum(p)
  deallocate(buf)
end subroutine r_alloc
""", features=['routine', 'allocatable', 'pointer'])

_add('r_pragma', """
subroutine r_pragma(n, a)
  integer, intent(in) :: n
  !$loki dimension(n)
  real, intent(inout) :: a(:)
  integer :: i
  ! a comment
  !$loki data
  do i = 1, n
    a(i) = 0.0
  end do
  !$loki end data
end subroutine r_pragma
""", features=['routine', 'pragma', 'comment'])

_add('m_vars', """
module m_vars
  implicit none
  integer, parameter :: nmax = 8
  real :: table(nmax) = 0.0
  logical, save :: ready = .false.
end module m_vars
""", features=['module', 'initial'])

_add('m_type', """
module m_type
  implicit none
  type point
    real :: x, y
    integer :: tag = 0
  end type point
  type(point) :: origin
end module m_type
""", features=['module', 'typedef', 'derived-var'])

_add('m_proc', """
module m_proc
  implicit none
  real :: scale = 2.0
contains
  subroutine apply(n, a)
    integer, intent(in) :: n
    real, intent(inout) :: a(n)
    a(:) = scale * a(:)
  end subroutine apply
end module m_proc
""", features=['module', 'contains'])

_add('m_two', """
module m_two
  implicit none
  private
  public :: first, second
  integer, parameter :: nk = 4
contains
  subroutine first(a)
    real, intent(inout) :: a(nk)
    integer :: i
    do i = 1, nk
      a(i) = a(i) * 2.0
    end do
    call second(a)
  end subroutine first
  subroutine second(a)
    real, intent(inout) :: a(nk)
    a(1) = 0.0
  end subroutine second
end module m_two
""", features=['module', 'contains', 'call', 'access-spec', 'enrichable'])

_add('m_full', """
module m_full
  use kmod, only: jprb, ext_t
  implicit none
  integer, parameter :: nmax = 4
  type point
    real(kind=jprb) :: x
    integer :: tags(nmax)
  end type point
  type(point) :: origin
contains
  subroutine alpha(n, p, a)
    integer, intent(in) :: n
    type(point), intent(inout) :: p
    real(kind=jprb), intent(inout) :: a(n)
    integer :: i
    do i = 1, n
      a(i) = a(i) + p%x
    end do
    call beta(n, a)
  end subroutine alpha
  subroutine beta(n, a)
    integer, intent(in) :: n
    real(kind=jprb), intent(out) :: a(n)
    a(:) = 0.0
  end subroutine beta
end module m_full
""", defs=[KMOD], features=['module', 'typedef', 'import', 'contains', 'call', 'derived-var', 'kind', 'enrichable'])

_add('m_nested_type', """
module m_nested_type
  implicit none
  type inner_t
    real :: v(3)
  end type inner_t
  type outer_t
    type(inner_t) :: in
    integer :: n
  end type outer_t
contains
  subroutine reset(o)
    type(outer_t), intent(inout) :: o
    o%in%v(:) = 0.0
    o%n = 0
  end subroutine reset
end module m_nested_type
""", features=['module', 'typedef', 'contains', 'derived-var', 'nested-type'])

_add('m_func', """
module m_func
  implicit none
contains
  elemental function sq(x) result(y)
    real, intent(in) :: x
    real :: y
    y = x * x
  end function sq
  subroutine use_sq(a)
    real, intent(inout) :: a(3)
    a = sq(a)
  end subroutine use_sq
end module m_func
""", features=['module', 'contains', 'function', 'prefix'])

_add('m_generic', """
module m_generic
  implicit none
  interface swap
    module procedure swap_r, swap_i
  end interface swap
contains
  subroutine swap_r(a, b)
    real, intent(inout) :: a, b
    real :: t
    t = a
    a = b
    b = t
  end subroutine swap_r
  subroutine swap_i(a, b)
    integer, intent(inout) :: a, b
    integer :: t
    t = a
    a = b
    b = t
  end subroutine swap_i
end module m_generic
""", features=['module', 'contains', 'interface'])

_add('m_bound', """
module m_bound
  implicit none
  type counter
    integer :: n = 0
  contains
    procedure :: inc => counter_inc
  end type counter
contains
  subroutine counter_inc(self)
    class(counter), intent(inout) :: self
    self%n = self%n + 1
  end subroutine counter_inc
  subroutine twice(c)
    type(counter), intent(inout) :: c
    call c%inc()
    call c%inc()
  end subroutine twice
end module m_bound
""", features=['module', 'typedef', 'contains', 'type-bound', 'call'])

_add('m_member', """
module m_member
  implicit none
  integer :: calls = 0
contains
  subroutine outer(n, a)
    integer, intent(in) :: n
    real, intent(inout) :: a(n)
    integer :: i
    do i = 1, n
      call inner(a(i))
    end do
  contains
    subroutine inner(v)
      real, intent(inout) :: v
      v = v + 1.0
      calls = calls + 1
    end subroutine inner
  end subroutine outer
end module m_member
""", features=['module', 'contains', 'nested-contains', 'call'])

_add('m_use_m', """
module m_use_m
  use kmod, only: jprb, jpim, ext_sub, gscale
  implicit none
  integer(kind=jpim), parameter :: klen = 5
contains
  subroutine drive(a)
    real(kind=jprb), intent(inout) :: a(klen)
    real(kind=jprb) :: b(klen)
    call ext_sub(klen, a, b)
    a(:) = gscale * b(:)
  end subroutine drive
end module m_use_m
""", defs=[KMOD], features=['module', 'import', 'contains', 'call', 'kind', 'enrichable'])

_add('file_two_routines', """
subroutine caller(n, a)
  integer, intent(in) :: n
  real, intent(inout) :: a(n)
  call callee(n, a)
end subroutine caller

subroutine callee(n, a)
  integer, intent(in) :: n
  real, intent(inout) :: a(n)
  a(:) = a(:) + 1.0
end subroutine callee
""", features=['file', 'routine', 'call', 'enrichable'])

_add('file_mod_and_routine', """
module fm_types
  implicit none
  type box
    real :: w, h
  end type box
contains
  subroutine grow(b, f)
    type(box), intent(inout) :: b
    real, intent(in) :: f
    b%w = b%w * f
    b%h = b%h * f
  end subroutine grow
end module fm_types

subroutine fm_driver(f)
  use fm_types, only: box, grow
  implicit none
  real, intent(in) :: f
  type(box) :: b
  b%w = 1.0
  b%h = 2.0
  call grow(b, f)
contains
  subroutine report(bb)
    type(box), intent(in) :: bb
    print *, bb%w, bb%h
  end subroutine report
end subroutine fm_driver
""", features=['file', 'module', 'routine', 'typedef', 'contains', 'import', 'call', 'derived-var', 'enrichable'])

_add('file_two_modules', """
! leading comment
module fa_mod
  implicit none
  integer, parameter :: na = 3
  real :: fa_data(na)
end module fa_mod

module fb_mod
  use fa_mod, only: na, fa_data
  implicit none
contains
  subroutine fb_fill(v)
    real, intent(in) :: v
    integer :: i
    do i = 1, na
      fa_data(i) = v
    end do
  end subroutine fb_fill
end module fb_mod
""", features=['file', 'module', 'import', 'contains', 'comment', 'enrichable'])

ZOO = tuple(_Z)
ZOO_BY_NAME = {e.name: e for e in ZOO}
# quick tiers: one representative of every structural family
QUICK_NAMES = ('r_plain', 'f_result', 'r_init', 'r_member', 'r_assoc', 'r_assoc_nested', 'r_assoc_loop', 'r_import_type', 'r_cast', 'r_intf', 'm_type', 'm_two',
               'm_full', 'm_bound', 'm_member', 'file_mod_and_routine', 'file_two_modules')
ZOO_QUICK = tuple(ZOO_BY_NAME[n] for n in QUICK_NAMES)


class Built:
    """A freshly parsed zoo entry."""

    def __init__(self, entry, sourcefile, definitions, enriched):
        self.entry = entry
        self.file = sourcefile
        self.definitions = definitions      # parsed definition Sourcefiles (kept alive: parents are weak refs)
        self.enriched = enriched

    def unit(self, path):
        path = tuple(path)
        if not path:
            return self.file
        units = [n for n in self.file.ir.body if _is_unit(n)]
        u = units[path[0]]
        for j in path[1:]:
            u = u.subroutines[j]
        return u

    def paths(self, nested=True):
        """All addressable unit paths: (), (i,), (i, j), (i, j, k)"""
        out = [()]
        units = [n for n in self.file.ir.body if _is_unit(n)]

        def rec(u, p):
            out.append(p)
            if nested:
                for j, s in enumerate(u.subroutines):
                    rec(s, p + (j,))
        for i, u in enumerate(units):
            rec(u, (i,))
        return out


def _is_unit(n):
    from loki.program_unit import ProgramUnit
    return isinstance(n, ProgramUnit)


def build(entry, enrich=False):
    """Parse `entry` afresh.  With `enrich`, the definition modules are parsed first and handed to the
    frontend as `definitions`; afterwards every unit is enriched with the definition modules *and*
    with the units of the file itself (so calls between sibling routines carry `call.routine`)."""
    from loki import Sourcefile
    if isinstance(entry, str):
        entry = ZOO_BY_NAME[entry]
    defs = []
    definitions = []
    if enrich:
        for d in entry.defs:
            sf = Sourcefile.from_source(d)
            defs.append(sf)
            definitions += list(sf.modules)
    sf = Sourcefile.from_source(entry.source, definitions=definitions or None)
    if enrich:
        local = list(sf.modules) + list(sf.routines)
        for m in sf.modules:
            local += list(m.subroutines)
        for u in list(sf.modules) + list(sf.routines):
            u.enrich(definitions + local, recurse=True)
    return Built(entry, sf, defs, enrich)


def describe(path):
    return 'file' if not path else 'unit' + ''.join(f'[{i}]' for i in path)


def is_valid_fortran(source, defs=()):
    """gfortran -fsyntax-only on the definition modules followed by `source` (one file, so the
    modules are visible to later units).  Used to keep shrunk examples standard-conforming and to
    validate the zoo itself; Loki never sees the answer."""
    from vf import gf
    with gf.Build(prefix='zoo_') as b:
        f = b.write('unit.f90', '\n'.join(defs) + '\n' + source)
        ok, _ = b.fsyntax([f])
        return bool(ok)
