"""Ground truth for expression *texts*: gfortran / gcc evaluate each text on a grid of valuations.

vf.gf.eval_fortran_expressions needs one contained procedure with a CLASS(*) call per (text, valuation)
(~30 ms of compile time each, measured), which rules out compiling every emitted text.  Here a text
becomes one three-line module function of its variables; a driver per (result type, variable types)
calls it on the complete product grid of the value pools, filtered by a per-text mask (the valuations
the reference evaluator says are defined, in range and exact).  ~2 ms of compile time per text.
Compile errors are attributed through the compiler's own line numbers (each text sits alone on its own
source line); a run that dies is re-run in halves.

item   = dict(id=int, text=str, rtype='i'|'r'|'l', vars=[(name, 'i'|'r'|'l'), ...], mask='0110...')
         mask[n] refers to the n-th element of itertools.product(*[pools[T] for (_, T) in vars])
result = {id: [str, ...]}   one printed value per '1' of the mask, or {id: ('ERR', message)}
Printed forms: integers decimal, logicals 'T'/'F', reals as repr(float(printed value)).
"""
import re
from fractions import Fraction

from vf import gf

F_TYPES = {'i': 'integer', 'r': 'real(kind=8)', 'l': 'logical'}
C_TYPES = {'i': 'int', 'r': 'double', 'l': 'int'}
MAXVARS = 4


def _flit(v):
    if isinstance(v, bool):
        return '.true.' if v else '.false.'
    if isinstance(v, int):
        return str(v)
    return f'{float(v)!r}_8'


def _clit(v):
    if isinstance(v, bool):
        return '1' if v else '0'
    if isinstance(v, int):
        return str(v)
    return repr(float(v))


def _sig(it):
    return it['rtype'] + '_' + ''.join(T for _, T in it['vars'])


def _fmask(mask, width=90):
    if len(mask) <= width:
        return [f"'{mask}'"]
    parts = [mask[i:i + width] for i in range(0, len(mask), width)]
    return [f"'{p}'" + (' // &' if n + 1 < len(parts) else '') for n, p in enumerate(parts)]


def fortran_source(items, pools):
    """-> (source text, {line number of a text: item id})"""
    src = ['module m_', '  implicit none']
    for T in 'irl':
        vals = ', '.join(_flit(v) for v in pools[T])
        src.append(f'  {F_TYPES[T]}, parameter :: g{T}_({len(pools[T])}) = [ {vals} ]')
    src.append('contains')
    linemap = {}
    sigs = {}
    for it in items:
        sigs.setdefault(_sig(it), [T for _, T in it['vars']])
        args = ', '.join(n for n, _ in it['vars'])
        src.append(f'{F_TYPES[it["rtype"]]} function f{it["id"]}_({args})')
        for n, T in it['vars']:
            src.append(f'  {F_TYPES[T]}, intent(in) :: {n}')
        src.append(f'  f{it["id"]}_ = &')
        src.append(f'    {it["text"]}')
        linemap[len(src)] = it['id']
        src.append('end function')
    for sg, vts in sigs.items():
        rt = sg[0]
        dums = ', '.join(f'a{j}_' for j in range(len(vts)))
        src.append(f'subroutine run_{sg}(id_, f_, mask_)')
        src.append('  integer, intent(in) :: id_')
        src.append('  character(len=*), intent(in) :: mask_')
        src.append('  interface')
        src.append(f'    {F_TYPES[rt]} function f_({dums})')
        for j, T in enumerate(vts):
            src.append(f'      {F_TYPES[T]}, intent(in) :: a{j}_')
        src.append('    end function')
        src.append('  end interface')
        src.append('  integer :: n_' + ''.join(f', i{j}_' for j in range(len(vts))))
        src.append("  write(*,'(A,I0)',advance='no') '#', id_")
        src.append('  n_ = 0')
        for j, T in enumerate(vts):
            src.append(f'  do i{j}_ = 1, {len(pools[T])}')
        src.append('  n_ = n_ + 1')
        src.append("  if (mask_(n_:n_) == '1') then")
        fmt = {'i': '(1X,I0)', 'r': '(1X,ES24.16E3)', 'l': '(1X,L1)'}[rt]
        actual = ', '.join(f'g{T}_(i{j}_)' for j, T in enumerate(vts))
        src.append(f"    write(*,'{fmt}',advance='no') f_({actual})")
        src.append('  end if')
        for _ in vts:
            src.append('  end do')
        src.append("  write(*,'(A)') ''")
        src.append('end subroutine')
    src.append('end module m_')
    src += ['program p', '  use m_', '  implicit none']
    for it in items:
        m = _fmask(it['mask'])
        if len(m) == 1:
            src.append(f'  call run_{_sig(it)}({it["id"]}, f{it["id"]}_, {m[0]})')
        else:
            src.append(f'  call run_{_sig(it)}({it["id"]}, f{it["id"]}_, &')
            src += ['    ' + x for x in m[:-1]]
            src.append('    ' + m[-1] + ')')
    src.append('end program p')
    return '\n'.join(src) + '\n', linemap


def c_source(items, pools):
    src = ['#include <stdio.h>', '#include <math.h>', '#include <stdbool.h>']
    for T in 'irl':
        src.append(f'static const {C_TYPES[T]} g{T}_[] = {{ {", ".join(_clit(v) for v in pools[T])} }};')
    linemap = {}
    sigs = {}
    for it in items:
        sigs.setdefault(_sig(it), [T for _, T in it['vars']])
        args = ', '.join(f'{C_TYPES[T]} {n}' for n, T in it['vars']) or 'void'
        src.append(f'static {C_TYPES[it["rtype"]]} f{it["id"]}_({args}) {{')
        src.append('  return (')
        src.append(f'    {it["text"]}')
        linemap[len(src)] = it['id']
        src.append('  ) ? 1 : 0;' if it['rtype'] == 'l' else '  );')
        src.append('}')
    for sg, vts in sigs.items():
        rt = sg[0]
        proto = ', '.join(C_TYPES[T] for T in vts) or 'void'
        src.append(f'static void run_{sg}(int id_, {C_TYPES[rt]} (*f_)({proto}), const char *mask_) {{')
        src.append('  int n_ = 0;')
        src.append('  printf("#%d", id_);')
        for j, T in enumerate(vts):
            src.append(f'  for (int i{j}_ = 0; i{j}_ < {len(pools[T])}; i{j}_++)')
        actual = ', '.join(f'g{T}_[i{j}_]' for j, T in enumerate(vts))
        if rt == 'r':
            pr = f'printf(" %.17g", f_({actual}));'
        elif rt == 'i':
            pr = f'printf(" %d", f_({actual}));'
        else:
            pr = f'printf(" %c", f_({actual}) ? \'T\' : \'F\');'
        src.append(f'  {{ if (mask_[n_++] == \'1\') {pr} }}')
        src.append('  printf("\\n");')
        src.append('}')
    src.append('int main(void) {')
    for it in items:
        src.append(f'  run_{_sig(it)}({it["id"]}, f{it["id"]}_, "{it["mask"]}");')
    src.append('  return 0;')
    src.append('}')
    return '\n'.join(src) + '\n', linemap


_ERRLINE = re.compile(r'^p\.(?:f90|c):(\d+)[:.](?:\d+[:.])?', re.M)
_F_ERR = re.compile(r'\bError:', re.I)
_C_ERR = re.compile(r'\berror:', re.I)


def _diagnostics(stderr, errre):
    """[(line number, message)] of the *errors* in a compiler's stderr."""
    out = []
    locs = [(m.start(), int(m.group(1))) for m in _ERRLINE.finditer(stderr)]
    for n, (pos, line) in enumerate(locs):
        end = locs[n + 1][0] if n + 1 < len(locs) else len(stderr)
        chunk = stderr[pos:end]
        if errre.search(chunk):
            out.append((line, ' '.join(chunk.split())[:300]))
    return out


def _parse_out(out, rtype_of):
    got = {}
    for line in out.splitlines():
        if not line.startswith('#'):
            continue
        parts = line[1:].split()
        if not parts:
            continue
        try:
            i = int(parts[0])
        except ValueError:
            continue
        vals = parts[1:]
        if rtype_of.get(i) == 'r':
            vals = [repr(float(v) + 0.0) for v in vals]      # + 0.0: IEEE -0.0 and 0.0 are the same value
        got[i] = vals
    return got


def _compile_cmd(lang, flags):
    if lang == 'f':
        return [gf.GFORTRAN, '-O0', '-w', '-ffree-line-length-none', '-fmax-errors=0', '-ffpe-summary=none',
                *flags, 'p.f90', '-o', 'a.out']
    return [gf.GCC, '-O0', '-w', '-std=c11', '-fmax-errors=0', *flags, 'p.c', '-o', 'a.out', '-lm']


def _run(items, lang, pools, base, flags):
    """Compile + run one batch; returns {id: [..] | ('ERR', msg)}."""
    res = {}
    for it in items:
        if len(it['vars']) > MAXVARS:
            res[it['id']] = ('ERR', 'too many variables for the compiled grid')
    items = [it for it in items if '1' in it['mask'] and it['id'] not in res]
    if not items:
        return res
    rtype_of = {it['id']: it['rtype'] for it in items}
    errre = _F_ERR if lang == 'f' else _C_ERR
    with gf.Build(base, prefix='eb_') as b:
        todo = list(items)
        ok = False
        for _attempt in range(5):
            if not todo:
                break
            text, linemap = (fortran_source if lang == 'f' else c_source)(todo, pools)
            b.write('p.f90' if lang == 'f' else 'p.c', text)
            rc, _out, err = b.run(_compile_cmd(lang, flags), timeout=900)
            if rc == 0:
                ok = True
                break
            bad = {}
            for line, msg in _diagnostics(err, errre):
                if line in linemap:
                    bad.setdefault(linemap[line], msg)
            if not bad:
                for it in todo:
                    res[it['id']] = ('ERR', 'compile (unattributed): ' + err[-600:])
                return res
            for iid, msg in bad.items():
                res[iid] = ('ERR', 'compile: ' + msg)
            todo = [it for it in todo if it['id'] not in bad]
        if not todo:
            return res
        if not ok:
            for it in todo:
                res[it['id']] = ('ERR', 'compile: error attribution did not converge')
            return res
        rc, out, err = b.run(['./a.out'], timeout=300)
        got = _parse_out(out, rtype_of)
        missing = []
        for it in todo:
            if it['id'] in got and len(got[it['id']]) == it['mask'].count('1'):
                res[it['id']] = got[it['id']]
            else:
                missing.append(it)
    if missing:
        if len(items) == 1:
            res[items[0]['id']] = ('ERR', f'run rc={rc}: ' + (err or '')[-300:])
        else:
            mid = (len(missing) + 1) // 2
            for part in (missing[:mid], missing[mid:]):
                if part:
                    res.update(_run(part, lang, pools, base, flags))
    return res


def eval_fortran(items, pools, base=None, std='gnu', chunk=800):
    out = {}
    for s in range(0, len(items), chunk):
        out.update(_run(items[s:s + chunk], 'f', pools, base, [f'-std={std}']))
    return out


def eval_c(items, pools, base=None, chunk=800):
    out = {}
    for s in range(0, len(items), chunk):
        out.update(_run(items[s:s + chunk], 'c', pools, base, []))
    return out


def fortran_rejected(items, pools, base=None, std='f2008', chunk=800):
    """{id: message} of the items whose text gfortran -std=<std> -fsyntax-only flags with an error."""
    bad = {}
    items = [it for it in items if len(it['vars']) <= MAXVARS]
    for s in range(0, len(items), chunk):
        part = items[s:s + chunk]
        with gf.Build(base, prefix='eb_') as b:
            text, linemap = fortran_source(part, pools)
            b.write('p.f90', text)
            rc, _out, err = b.run([gf.GFORTRAN, '-w', '-ffree-line-length-none', '-fmax-errors=0', f'-std={std}',
                                   '-fsyntax-only', 'p.f90'], timeout=900)
            if rc == 0:
                continue
            found = False
            for line, msg in _diagnostics(err, _F_ERR):
                if line in linemap:
                    bad.setdefault(linemap[line], msg)
                    found = True
            if not found:
                raise RuntimeError('gfortran -fsyntax-only failed outside the expression lines: ' + err[-600:])
    return bad


def expected_repr(v):
    """How a reference value compares with the printed forms above."""
    if isinstance(v, bool):
        return 'T' if v else 'F'
    if isinstance(v, int):
        return str(v)
    if isinstance(v, Fraction):
        return repr(float(v))
    raise TypeError(v)
