"""Reference semantics for expressions, written from the Fortran / C standards.
Shares no code with loki.expression.evaluation.

treeeval(tree, env)      value of a Loki/pymbolic expression tree under Fortran semantics
texteval(text, env)      value of Fortran expression *text* (own tokenizer + precedence climbing)
ctexteval(text, env)     value of C expression text

Values: Python int = INTEGER (truncating division, integer power), Fraction = REAL
(exact), bool = LOGICAL.  Undefined operations raise Undefined.
"""
import re
from fractions import Fraction

import pymbolic.primitives as pmbl


class Undefined(Exception):
    """Operation without a defined value (zero divisor, 0**negative, ...)."""


class Unsupported(Exception):
    """Construct outside the reference evaluator's alphabet."""


# ---------------------------------------------------------------- arithmetic
def _isint(v):
    return isinstance(v, int) and not isinstance(v, bool)


def _num(v):
    if isinstance(v, bool) or not isinstance(v, (int, Fraction)):
        raise Unsupported(f'non-numeric operand {v!r}')
    return v


def f_add(a, b):
    return _num(a) + _num(b)


def f_sub(a, b):
    return _num(a) - _num(b)


def f_mul(a, b):
    return _num(a) * _num(b)


def f_div(a, b):
    _num(a), _num(b)
    if b == 0:
        raise Undefined('division by zero')
    if _isint(a) and _isint(b):
        q = abs(a) // abs(b)
        return q if (a >= 0) == (b >= 0) else -q
    return Fraction(a) / Fraction(b)


def f_pow(a, b):
    _num(a), _num(b)
    if _isint(b):
        if _isint(a):
            if b >= 0:
                return a ** b
            if a == 0:
                raise Undefined('0**negative')
            if a == 1:
                return 1
            if a == -1:
                return 1 if b % 2 == 0 else -1
            return 0
        if a == 0 and b < 0:
            raise Undefined('0.0**negative')
        return Fraction(a) ** b
    # real exponent: only integral-valued exponents are in the exact alphabet
    b = Fraction(b)
    if b.denominator != 1:
        raise Unsupported('non-integral real exponent')
    a = Fraction(a)
    if a < 0:
        raise Undefined('negative base with real exponent')
    if a == 0 and b <= 0:
        raise Undefined('0.0**non-positive real')
    return a ** int(b)


def f_neg(a):
    return -_num(a)


_CMP = {
    '==': lambda a, b: a == b, '!=': lambda a, b: a != b, '/=': lambda a, b: a != b,
    '<': lambda a, b: a < b, '>': lambda a, b: a > b,
    '<=': lambda a, b: a <= b, '>=': lambda a, b: a >= b,
}


def f_cmp(op, a, b):
    return _CMP[op](_num(a), _num(b))


def _bool(v):
    if not isinstance(v, bool):
        raise Unsupported(f'non-logical operand {v!r}')
    return v


def parse_real_literal(s):
    s = s.strip().lower()
    if '_' in s:
        s = s.split('_', 1)[0]
    s = s.replace('d', 'e')
    if s.endswith('f'):
        s = s[:-1]
    return Fraction(s)


def intrinsic(name, args):
    name = name.lower()
    if name == 'abs':
        return abs(_num(args[0]))
    if name == 'min':
        return min(_num(a) for a in args) if all(_isint(a) for a in args) else min(Fraction(a) for a in args)
    if name == 'max':
        return max(_num(a) for a in args) if all(_isint(a) for a in args) else max(Fraction(a) for a in args)
    if name == 'mod':
        a, p = args
        if p == 0:
            raise Undefined('mod by zero')
        if _isint(a) and _isint(p):
            return a - f_div(a, p) * p
        q = Fraction(a) / Fraction(p)
        t = int(q) if q >= 0 else -int(-q)
        return Fraction(a) - t * Fraction(p)
    if name == 'sign':
        a, b = args
        return abs(a) if b >= 0 else -abs(a)
    if name == 'real':
        return Fraction(_num(args[0]))
    if name == 'int':
        v = _num(args[0])
        if _isint(v):
            return v
        return int(v) if v >= 0 else -int(-v)
    if name == 'merge':
        return args[0] if _bool(args[2]) else args[1]
    raise Unsupported(f'intrinsic {name}')


# ---------------------------------------------------------------- tree evaluator
def treeeval(e, env):
    """env maps lower-case variable names to int / Fraction / bool."""
    from loki.expression import symbols as sym  # local import: harness can be imported without loki
    if isinstance(e, bool):
        return e
    if isinstance(e, int):
        return e
    if isinstance(e, float):
        return Fraction(e)
    if isinstance(e, Fraction):
        return e
    if isinstance(e, sym.IntLiteral):
        return int(e.value)
    if isinstance(e, sym.FloatLiteral):
        return parse_real_literal(str(e.value))
    if isinstance(e, sym.LogicLiteral):
        return bool(e.value)
    if isinstance(e, pmbl.Sum):
        vals = [treeeval(c, env) for c in e.children]
        r = vals[0]
        for v in vals[1:]:
            r = f_add(r, v)
        return r
    if isinstance(e, pmbl.Product):
        vals = [treeeval(c, env) for c in e.children]
        r = vals[0]
        for v in vals[1:]:
            r = f_mul(r, v)
        return r
    if isinstance(e, pmbl.Quotient):
        return f_div(treeeval(e.numerator, env), treeeval(e.denominator, env))
    if isinstance(e, pmbl.Power):
        return f_pow(treeeval(e.base, env), treeeval(e.exponent, env))
    if isinstance(e, pmbl.Comparison):
        return f_cmp(e.operator, treeeval(e.left, env), treeeval(e.right, env))
    if isinstance(e, pmbl.LogicalAnd):
        vals = [_bool(treeeval(c, env)) for c in e.children]   # no short circuit: all operands defined
        return all(vals)
    if isinstance(e, pmbl.LogicalOr):
        vals = [_bool(treeeval(c, env)) for c in e.children]
        return any(vals)
    if isinstance(e, pmbl.LogicalNot):
        return not _bool(treeeval(e.child, env))
    if isinstance(e, sym.Cast):
        v = treeeval(e.parameters[0], env)
        return intrinsic(e.name, [v])
    if isinstance(e, sym.InlineCall):
        if e.kw_parameters:
            raise Unsupported('kwargs')
        return intrinsic(e.function.name, [treeeval(a, env) for a in e.parameters])
    if isinstance(e, sym.Array) and e.dimensions:
        idx = tuple(treeeval(d, env) for d in e.dimensions)
        key = (e.name.lower(), idx)
        if key in env:
            return env[key]
        raise Unsupported(f'array element {key}')
    if isinstance(e, (sym.MetaSymbol, sym.TypedSymbol, pmbl.Variable)):
        name = e.name.lower()
        if name in env:
            return env[name]
        raise Unsupported(f'unbound variable {name}')
    raise Unsupported(f'node {type(e).__name__}')


# ---------------------------------------------------------------- Fortran text evaluator
_F_TOKEN = re.compile(r'''
    \s*(?:
      (?P<real>(?:\d+\.\d*|\.\d+)(?:[eEdD][+-]?\d+)?(?:_\w+)?|\d+[eEdD][+-]?\d+(?:_\w+)?)
    | (?P<int>\d+(?:_\w+)?)
    | (?P<dotop>\.(?:and|or|not|eqv|neqv|eq|ne|lt|le|gt|ge|true|false)\.(?:_\w+)?)
    | (?P<name>[A-Za-z_]\w*(?:%[A-Za-z_]\w*)*)
    | (?P<op>\*\*|==|/=|<=|>=|//|[-+*/<>(),])
    )''', re.X | re.I)


def f_tokenize(text):
    pos, out = 0, []
    text = text.replace('&\n', ' ').replace('&', ' ')
    while pos < len(text):
        if text[pos:].strip() == '':
            break
        m = _F_TOKEN.match(text, pos)
        if not m:
            raise Unsupported(f'cannot tokenize {text[pos:pos+20]!r}')
        kind = m.lastgroup
        out.append((kind, m.group(kind)))
        pos = m.end()
    return out


_DOT_REL = {'.eq.': '==', '.ne.': '/=', '.lt.': '<', '.le.': '<=', '.gt.': '>', '.ge.': '>='}


class _FParser:
    """Fortran 2008 R7xx precedence.  Unary sign after * / ** (gfortran extension)
    binds to the following mult-operand, as gfortran's match_ext_mult_operand does."""

    def __init__(self, toks, env, allow_ext=True):
        self.t = toks
        self.i = 0
        self.env = env
        self.allow_ext = allow_ext
        self.used_ext = False

    def peek(self):
        return self.t[self.i] if self.i < len(self.t) else (None, None)

    def eat(self):
        tok = self.t[self.i]
        self.i += 1
        return tok

    def expect(self, s):
        k, v = self.eat()
        if v != s:
            raise Unsupported(f'expected {s} got {v}')

    def parse(self):
        v = self.equiv()
        if self.i != len(self.t):
            raise Unsupported(f'trailing tokens {self.t[self.i:]}')
        return v

    def equiv(self):
        v = self.or_()
        while self.peek()[0] == 'dotop' and self.peek()[1].lower() in ('.eqv.', '.neqv.'):
            op = self.eat()[1].lower()
            r = self.or_()
            v = (_bool(v) == _bool(r)) if op == '.eqv.' else (_bool(v) != _bool(r))
        return v

    def or_(self):
        v = self.and_()
        while self.peek()[0] == 'dotop' and self.peek()[1].lower() == '.or.':
            self.eat()
            r = self.and_()
            v = _bool(v) | _bool(r)
        return v

    def and_(self):
        v = self.not_()
        while self.peek()[0] == 'dotop' and self.peek()[1].lower() == '.and.':
            self.eat()
            r = self.not_()
            v = _bool(v) & _bool(r)
        return v

    def not_(self):
        if self.peek()[0] == 'dotop' and self.peek()[1].lower() == '.not.':
            self.eat()
            return not _bool(self.rel())
        return self.rel()

    def rel(self):
        v = self.additive()
        k, s = self.peek()
        op = None
        if k == 'op' and s in ('==', '/=', '<', '>', '<=', '>='):
            op = s
        elif k == 'dotop' and s.lower() in _DOT_REL:
            op = _DOT_REL[s.lower()]
        if op:
            self.eat()
            r = self.additive()
            return f_cmp(op, v, r)
        return v

    def additive(self):
        k, s = self.peek()
        if k == 'op' and s in '+-':
            self.eat()
            v = self.add_operand()
            if s == '-':
                v = f_neg(v)
            else:
                _num(v)
        else:
            v = self.add_operand()
        while self.peek()[0] == 'op' and self.peek()[1] in ('+', '-'):
            op = self.eat()[1]
            k2, s2 = self.peek()
            if k2 == 'op' and s2 in '+-':
                # gfortran extension: a + -b   (match_ext_add_operand)
                if not self.allow_ext:
                    raise Unsupported('unary sign after additive operator')
                self.used_ext = True
                self.eat()
                r = self.add_operand_ext()
                if s2 == '-':
                    r = f_neg(r)
            else:
                r = self.add_operand()
            v = f_add(v, r) if op == '+' else f_sub(v, r)
        return v

    def add_operand_ext(self):
        return self.add_operand()

    def add_operand(self):
        v = self.mult_operand()
        while self.peek()[0] == 'op' and self.peek()[1] in ('*', '/'):
            op = self.eat()[1]
            r = self.ext_mult_operand()
            v = f_mul(v, r) if op == '*' else f_div(v, r)
        return v

    def ext_mult_operand(self):
        k, s = self.peek()
        if k == 'op' and s in '+-':
            if not self.allow_ext:
                raise Unsupported('unary sign after multiplicative operator')
            self.used_ext = True
            self.eat()
            r = self.ext_mult_operand()
            return f_neg(r) if s == '-' else r
        return self.mult_operand()

    def mult_operand(self):
        b = self.primary()
        if self.peek() == ('op', '**'):
            self.eat()
            e = self.ext_mult_operand()   # right associative
            return f_pow(b, e)
        return b

    def primary(self):
        k, s = self.eat() if self.i < len(self.t) else (None, None)
        if k == 'int':
            return int(s.split('_')[0])
        if k == 'real':
            return parse_real_literal(s)
        if k == 'dotop' and s.lower().startswith('.true.'):
            return True
        if k == 'dotop' and s.lower().startswith('.false.'):
            return False
        if k == 'op' and s == '(':
            v = self.equiv()
            self.expect(')')
            return v
        if k == 'name':
            if self.peek() == ('op', '('):
                self.eat()
                args = []
                if self.peek() != ('op', ')'):
                    args.append(self.equiv())
                    while self.peek() == ('op', ','):
                        self.eat()
                        args.append(self.equiv())
                self.expect(')')
                key = (s.lower(), tuple(args))
                if key in self.env:
                    return self.env[key]
                return intrinsic(s, args)
            if s.lower() in self.env:
                return self.env[s.lower()]
            raise Unsupported(f'unbound name {s}')
        raise Unsupported(f'unexpected token {s!r}')


def texteval(text, env, allow_ext=True):
    p = _FParser(f_tokenize(text), env, allow_ext)
    return p.parse()


def text_uses_extension(text):
    p = _FParser(f_tokenize(text), _AnyEnv(), True)
    try:
        p.parse()
    except (Undefined, Unsupported, ZeroDivisionError, TypeError):
        pass
    return p.used_ext


class _AnyEnv(dict):
    def __contains__(self, k):
        return True

    def __getitem__(self, k):
        return 1


# ---------------------------------------------------------------- C text evaluator
_C_TOKEN = re.compile(r'''
    \s*(?:
      (?P<real>(?:\d+\.\d*|\.\d+)(?:[eE][+-]?\d+)?[fFlL]?|\d+[eE][+-]?\d+[fFlL]?)
    | (?P<int>\d+[uUlL]*)
    | (?P<name>[A-Za-z_]\w*)
    | (?P<op>&&|\|\||==|!=|<=|>=|[-+*/%<>()!,])
    )''', re.X)


def c_div(a, b):
    if b == 0:
        raise Undefined('division by zero')
    if _isint(a) and _isint(b):
        q = abs(a) // abs(b)
        return q if (a >= 0) == (b >= 0) else -q
    return Fraction(a) / Fraction(b)


class _CParser:
    def __init__(self, toks, env):
        self.t, self.i, self.env = toks, 0, env

    def peek(self):
        return self.t[self.i] if self.i < len(self.t) else (None, None)

    def eat(self):
        tok = self.t[self.i]
        self.i += 1
        return tok

    def parse(self):
        v = self.lor()
        if self.i != len(self.t):
            raise Unsupported('trailing tokens')
        return v

    def _truth(self, v):
        return v if isinstance(v, bool) else v != 0

    def lor(self):
        v = self.land()
        while self.peek() == ('op', '||'):
            self.eat()
            r = self.land()
            v = self._truth(v) | self._truth(r)
        return v

    def land(self):
        v = self.eq()
        while self.peek() == ('op', '&&'):
            self.eat()
            r = self.eq()
            v = self._truth(v) & self._truth(r)
        return v

    def eq(self):
        v = self.relc()
        while self.peek()[0] == 'op' and self.peek()[1] in ('==', '!='):
            op = self.eat()[1]
            r = self.relc()
            v = (v == r) if op == '==' else (v != r)
        return v

    def relc(self):
        v = self.add()
        while self.peek()[0] == 'op' and self.peek()[1] in ('<', '>', '<=', '>='):
            op = self.eat()[1]
            r = self.add()
            v = _CMP[op](v, r)
        return v

    def add(self):
        v = self.mul()
        while self.peek()[0] == 'op' and self.peek()[1] in ('+', '-'):
            op = self.eat()[1]
            r = self.mul()
            v = v + r if op == '+' else v - r
        return v

    def mul(self):
        v = self.unary()
        while self.peek()[0] == 'op' and self.peek()[1] in ('*', '/', '%'):
            op = self.eat()[1]
            r = self.unary()
            if op == '*':
                v = v * r
            elif op == '/':
                v = c_div(v, r)
            else:
                if r == 0:
                    raise Undefined('mod by zero')
                v = v - c_div(v, r) * r
        return v

    def unary(self):
        k, s = self.peek()
        if k == 'op' and s == '-':
            self.eat()
            return -self.unary()
        if k == 'op' and s == '+':
            self.eat()
            return self.unary()
        if k == 'op' and s == '!':
            self.eat()
            return not self._truth(self.unary())
        return self.primary()

    def primary(self):
        k, s = self.eat() if self.i < len(self.t) else (None, None)
        if k == 'int':
            return int(s.rstrip('uUlL'))
        if k == 'real':
            return Fraction(s.rstrip('fFlL'))
        if k == 'op' and s == '(':
            # cast?  (int) x / (double) x
            if self.peek()[0] == 'name' and self.peek()[1] in ('int', 'double', 'float', 'long') \
                    and self.t[self.i + 1] == ('op', ')'):
                ty = self.eat()[1]
                self.eat()
                v = self.unary()
                if ty in ('int', 'long'):
                    return intrinsic('int', [v])
                return Fraction(v)
            v = self.lor()
            k2, s2 = self.eat()
            if s2 != ')':
                raise Unsupported('expected )')
            return v
        if k == 'name':
            if self.peek() == ('op', '('):
                self.eat()
                args = []
                if self.peek() != ('op', ')'):
                    args.append(self.lor())
                    while self.peek() == ('op', ','):
                        self.eat()
                        args.append(self.lor())
                self.eat()
                if s == 'pow':
                    # C pow() is a double function
                    r = f_pow(Fraction(args[0]), args[1] if _isint(args[1]) else Fraction(args[1]))
                    return Fraction(r)
                if s in ('fabs', 'abs'):
                    return abs(args[0])
                if s in ('fmin', 'min'):
                    return min(args)
                if s in ('fmax', 'max'):
                    return max(args)
                raise Unsupported(f'C function {s}')
            if s in ('true', 'false'):
                return s == 'true'
            if s in self.env:
                return self.env[s]
            if s.lower() in self.env:
                return self.env[s.lower()]
            raise Unsupported(f'unbound name {s}')
        raise Unsupported(f'unexpected token {s!r}')


def c_tokenize(text):
    pos, out = 0, []
    while pos < len(text):
        if text[pos:].strip() == '':
            break
        m = _C_TOKEN.match(text, pos)
        if not m:
            raise Unsupported(f'cannot tokenize {text[pos:pos+20]!r}')
        out.append((m.lastgroup, m.group(m.lastgroup)))
        pos = m.end()
    return out


def ctexteval(text, env):
    return _CParser(c_tokenize(text), env).parse()
