"""C36  Fortran-to-Python transpilation preserves behaviour.

ENUM (deviation-bounded) + gfortran vs CPython/numpy differential.  A template kernel (stand-alone SUBROUTINE
over scalars and arrays, kinds real32/real64, as in loki/backend/tests/test_pygen.py) is assembled from
*feature blocks*; every single block (quick) and in addition every pair of *structural* blocks (thorough; see
STRUCT: the blocks that change declarations, arrays, loops, substituted names or the returned scalars, 32 of the
63) added to the base kernel is translated with FortranPythonTransformation(suffix='_py') in two variants (invert_indices False / True), the
generated text is exec'd in-process and the function is called on 6 input sets.

Ground truth: the original kernel is built with gfortran (-O0 -fcheck=bounds) behind a harness-owned driver
(a PROGRAM, never seen by Loki).  The driver prints, per input set, every *input* right before the call and
every *output* right after it, as `I|O name type rank dims... values...` lines with round-trip precision.  The
numpy inputs of the Python call are built from the driver's own `I` lines (so they are equal to the driver's
by construction: np.int32 / np.float32 / np.float64 / bool scalars, Fortran-ordered arrays of the declared
element type, element `lower bound` of a dimension at numpy index 0; for invert_indices=True the arrays are
passed transposed, which is that option's calling convention) and the results are compared with the `O` lines:
integers and logicals exactly (by value), reals to relative 2^-20 (kind 4) / 2^-40 (kind 8).
Calling convention of the generated function (pygen.visit_Subroutine): arguments in order without scalar
INTENT(OUT) arguments, arrays updated in place, scalar INTENT(INOUT/OUT) arguments returned in argument order.

Switches = feature blocks (branches / shortcuts visible in fortran_python.py and pygen.py):
  arithmetic   int_div int_mod int_pow real_pow_int
               real_pow_real int_real_promotion int_div_promotion real_to_int_assign cast literal_kinds
               literal_d_exponent kind4_accumulate
  intrinsics   minmax_real minmax_3arg minmax_int abs_real abs_int sign_same sign_neg_first sign_zero sqrt_exp
               real_mod                                   (intrinsic_map, sign_map: a*np.sign(b))
  arrays       arr1d_index arr1d_reverse arr2d arr2d_index_arith arr3d arr_lb_element arr_lb_loop arr_lb_2d
               arr_real32 local_array local_array_2d local_int_array local_array_lb slice_full slice_section
               slice_lb slice_shift_inplace slice_stride slice_whole            (shift_to_zero_indexing, invert_array_indices,
               local-array declarations in visit_VariableDeclaration)
  loops        loop_index_value loop_neg_step loop_step2 loop_neg_step2 loop_var_step loop_after_value
               loop_zero_trip loop_bounds_expr while_loop                       (visit_Loop: range(start, end + incr, incr))
  control      nested_cond inline_if logical_ops logical_in_cond logical_literal
  expressions  expr_quot expr_pow_nest expr_unary long_expr comments
  environment  param_local assoc_local scalar_out                                (init_decls, do_resolve_associates, return list)
Scalar INTENT(IN)/(INOUT)/(OUT) of every type and a 1-D array loop are in the base kernel.

Deliberately outside the space (the statement's subset is "scalars, arrays, loops, conditionals, intrinsics" and the
repository marks them TODO): derived types, SELECT CASE, CYCLE/EXIT, modules, calls; with_dace (dace is not installed).
Explicit refusals (NotImplementedError, "not supported") are counted as refused.
"""
import shutil
import signal
import tempfile
import traceback
from pathlib import Path

from vf import gf, xform
from vf.explore import deviations, seeded_order

PROPERTY = 'C36'
LEVEL = 'exploration'
META = dict(
    engine='enum',
    technique='deviation-bounded exhaustive template enumeration x transformation variants; gfortran run of the original vs '
              'in-process execution of the generated Python on the same inputs',
    level_text='base kernel + every single feature block (+ every pair of structural blocks in thorough) x {invert_indices False, True}: the generated Python '
               'compiles, runs and returns integers/logicals equal to and reals within 2^-20 (kind 4) / 2^-40 (kind 8) of the '
               'gfortran results on 6 input sets; exhaustive for d',
    level_note='gfortran 12 -O0 -fcheck=bounds is the Fortran semantics, CPython 3.12 + numpy 2 the Python semantics; inputs of '
               'the Python call are read back from the driver output; original program must build (else HARNESS-ERROR)',
)

B = {}


def block(name, body, **kw):
    B[name] = dict(body=body, **kw)


block('base', '''  s = s * 2.0_real64 + x
  k = k + i1
  r4 = r4 + z4
  lo = lg
  ko = i1 + i2
  so = x + y
  do i = 1, n
    a(i) = a(i) + y
  end do
''')

# ---- arithmetic
block('int_div', '''  ie(1) = i1 / i2
  ie(2) = (i1 + 1) / i2 - i1 / (i2 + 5)
  k = k + i1 / i2
  ie(3) = (i1 / i2) * 2 + (7 / 2) * 10
''')
block('int_mod', '''  ie(4) = mod(i1, i2)
''')
block('int_pow', '''  ie(5) = i1**2 + (-2)**3
  ie(6) = i2**3 - i1**3
''')
block('real_pow_int', '''  e(1) = x**2 + x**3
  e(2) = y**i2
  e(3) = y**(-2)
''')
block('real_pow_real', '''  e(4) = p**y
  e(5) = p**0.5_real64
''')
block('int_real_promotion', '''  e(6) = z4 * x + i1
  e(7) = 2.5_real64 * i2 + z4 / 2
  s = s + i1
  r4 = r4 + real(x * 0.25_real64, kind=real32) + 1.5_real32
''')
block('int_div_promotion', '''  e(8) = i1 / 2
  e(9) = real(i1, kind=real64) / 2
  e(10) = i1 / 2.0_real64 + (i1 / i2) * 0.5_real64
''')
block('real_to_int_assign', '''  ie(8) = x * 2.5_real64
  ko = x * 2.5_real64
''')
block('cast', '''  e(11) = real(i1, kind=real64) * 0.5_real64 + real(z4, kind=real64)
  ie(9) = int(x) + int(z4 * 2.0_real32)
  r4 = r4 + real(i2, kind=real32)
''')
block('literal_kinds', '''  e(12) = 1.5_real64 * x + 2.5e0_real64 - 1.e0_real64
  r4 = r4 * 0.5_real32 + 2._real32
  e(13) = 3 * x - 0.125_real64
''')
block('literal_d_exponent', '''  e(14) = 0.5d0 * x + 1.0d0
''')
block('kind4_accumulate', '''  do i = 1, n
    r4 = r4 + a4(i) * 0.1_real32
  end do
  a4(1) = r4 * z4 + 0.3_real32
''')

# ---- intrinsics
block('minmax_real', '''  e(15) = min(x, y) + max(x, y) * 2.0_real64
  e(16) = max(min(x, p), -1.0_real64)
''')
block('minmax_3arg', '''  e(17) = min(x, y, p) + 2.0_real64 * max(x, y, p)
''')
block('minmax_int', '''  ie(10) = min(i1, i2) + 3 * max(i1, i2)
''')
block('abs_real', '''  e(18) = abs(x) + abs(x - y)
''')
block('abs_int', '''  ie(11) = abs(i1) + abs(i1 - i2)
''')
block('sign_same', '''  e(19) = sign(p, x)
''')
block('sign_neg_first', '''  e(20) = sign(x, y)
  ie(12) = sign(i2, i1 + 1)
''')
block('sign_zero', '''  e(21) = sign(p, x - x)
''')
block('sqrt_exp', '''  e(22) = sqrt(p)
  e(23) = sqrt(p + 1.0_real64) + exp(y)
  a4(2) = sqrt(abs(z4)) + exp(z4)
''')
block('real_mod', '''  e(24) = mod(x, y)
''')

# ---- arrays
block('arr1d_index', '''  do i = 1, n - 1
    a(i + 1) = a(i + 1) + a(i) * 0.5_real64
  end do
  a(n - 1) = a(n) + a(1)
  ia(n - 2 + 1) = ia(1) + 7
''')
block('arr1d_reverse', '''  do i = 1, n
    ia(n - i + 1) = ia(n - i + 1) * 2 + i
  end do
''')
block('arr2d', '''  do j = 1, m
    do i = 1, n
      b(i, j) = b(i, j) + 10.0_real64 * j + i
    end do
  end do
  b(n, 1) = b(1, m) + b(n - 1, m - 1)
''')
block('arr2d_index_arith', '''  do i = 1, n
    do j = 1, m
      b(i, j) = b(i, j) + b(n - i + 1, m - j + 1) * 0.5_real64
    end do
  end do
''')
block('arr3d', '''  do l = 1, 2
    do j = 1, m
      do i = 1, n
        c(i, j, l) = c(i, j, l) + i + 10 * j + 100 * l
      end do
    end do
  end do
  c(1, 1, 2) = c(n, m, 1) + c(2, 1, 2)
''')
block('arr_lb_element', '''  cl(1) = cl(1) + 100.0_real64
  cl(n) = cl(n - 1) + 1.0_real64
''')
block('arr_lb_loop', '''  do i = 0, n
    cl(i) = cl(i) + i
  end do
''')
block('arr_lb_2d', '''  ib(1, 1) = ib(n, 2) + 1
  do i = 1, n
    ib(i, 2) = ib(i, 1) * 2 + i
  end do
''')
block('arr_real32', '''  do i = 1, n
    a4(i) = a4(i) * z4 + 0.5_real32
  end do
''')
block('local_array', '''  do i = 1, n
    w(i) = a(i) * 2.0_real64
  end do
  do i = 1, n
    a(i) = w(n - i + 1)
  end do
''', decl='  real(kind=real64) :: w(n)\n')
block('local_array_2d', '''  do j = 1, 2
    do i = 1, n
      w2(i, j) = a(i) + j
    end do
  end do
  do i = 1, n
    a(i) = w2(i, 2) - w2(n - i + 1, 1) * 0.5_real64
  end do
''', decl='  real(kind=real64) :: w2(n, 2)\n')
block('local_int_array', '''  do i = 1, n
    iw(i) = a(i) * 3.0_real64 + x
  end do
  do i = 1, n
    ia(i) = iw(i) * 2
  end do
''', decl='  integer :: iw(n)\n')
block('local_array_lb', '''  do i = 0, n
    w0(i) = real(i, kind=real64) + x
  end do
  do i = 1, n
    a(i) = a(i) + w0(i - 1) + w0(n)
  end do
''', decl='  real(kind=real64) :: w0(0:n)\n')
block('slice_full', '''  a(:) = a(:) * 2.0_real64 + x
  b(:, 1) = a(:)
''')
block('slice_section', '''  a(2:n) = b(2:n, 2) + 1.0_real64
  ia(1:n-1) = ia(1:n-1) + ia(2:n)
''')
block('slice_lb', '''  cl(1:n) = cl(1:n) + a(1:n)
''')
block('slice_shift_inplace', '''  a(2:n) = a(1:n-1)
  ia(1:n-1) = ia(2:n) + 1
''')
block('slice_stride', '''  a(1:n:2) = a(1:n:2) + 10.0_real64
''')
block('slice_whole', '''  b(:, :) = b(:, :) + 1.0_real64
  a4 = a4 * 2.0_real32
''')

# ---- loops
block('loop_index_value', '''  do i = 1, n
    a(i) = a(i) + real(i, kind=real64) * x + i
    ia(i) = ia(i) + i * i
  end do
''')
block('loop_neg_step', '''  do i = n, 1, -1
    s = s * 0.5_real64 + a(i)
    ia(i) = ia(i) + i - n
  end do
''')
block('loop_step2', '''  do i = 1, n, 2
    ie(13) = ie(13) + 100 + i
  end do
''')
block('loop_neg_step2', '''  do i = n, 2, -2
    ie(14) = ie(14) + 100 + i
  end do
''')
block('loop_var_step', '''  do i = 1, n, m
    ie(15) = ie(15) + 1000 + i
  end do
''')
block('loop_after_value', '''  do i = 1, n
    ie(16) = ie(16) + 1
  end do
  k = k + 10 * i
''')
block('loop_zero_trip', '''  do i = n, 1
    ie(17) = ie(17) + 1
  end do
  do i = 3, i2
    ie(17) = ie(17) + 10
  end do
''')
block('loop_bounds_expr', '''  do i = max(1, i2), n - 1
    ia(i) = ia(i) + 5
  end do
  do i = 2, min(n, 4)
    ia(i) = ia(i) - 1
  end do
''')
block('while_loop', '''  i = 1
  do while (i <= n .and. s < 100.0_real64)
    s = s + a(i)
    i = i + 2
  end do
''')

# ---- control flow and logicals
block('nested_cond', '''  if (i1 > 0) then
    if (x > y) then
      ie(18) = 1
    else if (x > -y) then
      ie(18) = 2
    else
      ie(18) = 3
    end if
  else if (i1 == 0) then
    ie(18) = 4
  else
    if (i2 >= 0 .and. p /= 1.0_real64) ie(18) = 5
    ie(19) = 6
  end if
''')
block('inline_if', '''  if (x > y) e(25) = 1.0_real64
  if (i1 <= i2) ie(20) = 7
''')
block('logical_ops', '''  lo = lg .and. .not. (i1 > i2)
  la(1) = lg .or. (x < y)
  la(2) = lg .eqv. (i1 == 7)
  la(3) = lg .neqv. (p >= 1.0_real64)
''')
block('logical_in_cond', '''  if (lg) then
    ie(21) = 1
  end if
  if (.not. lg .and. i1 > 0) ie(21) = 2
  if (la(1) .or. la(2)) ie(22) = 3
  do i = 1, n
    la(i) = a(i) > 0.0_real64
  end do
''')
block('logical_literal', '''  la(n) = .true.
  la(1) = .false. .or. lg
  lt = .true.
  if (lt .and. lg) ie(23) = 9
''', decl='  logical :: lt\n')

# ---- expression shapes
block('expr_quot', '''  e(26) = x / (y * p)
  e(27) = x / (y / p) + x * (y / p)
''')
block('expr_pow_nest', '''  e(28) = (y**2)**3
  e(29) = y**2**2
  e(30) = -y**2 + (-y)**2 * 2.0_real64
''')
block('expr_unary', '''  e(31) = x * (-y)
  e(32) = -(-x) + (-x) * y
  e(33) = x - (-y) + x / (-y)
  ie(24) = i1 - (-i2) * (-3)
''')
block('long_expr', '''  e(34) = x * y + x * p + y * p + x * x + y * y + p * p + x * 0.5_real64 + y * 0.25_real64 + p * 0.125_real64 &
       & + a(1) * a(2) + a(2) * a(3) + a(1) * a(3) + s * 2.0_real64 + real(i1, kind=real64) + real(i2, kind=real64) &
       & - x * y * p - a(1) * x - a(2) * y - a(3) * p + e(1) * e(2) - e(3) * e(4) + x * y + x * p + y * p + x * x &
       & + y * y + p * p + x * 0.5_real64 + y * 0.25_real64 + p * 0.125_real64 + a(1) * a(2) + a(2) * a(3) + a(1) * a(3)
''')
block('comments', '''  ! a comment line with ! a second mark and "quotes"
  e(35) = x  ! inline comment
  ! another comment
  e(36) = y
''')

# ---- environment
block('param_local', '''  ie(25) = ie(25) + npar * i1
  e(37) = half * x + npar
''', decl='  integer, parameter :: npar = 3\n  real(kind=real64), parameter :: half = 0.5_real64\n')
block('assoc_local', '''  associate (aa => a, qq => x)
    aa(2) = aa(1) + qq
    s = s + qq * 0.5_real64
  end associate
''')
block('scalar_out', '''  ko = ko * 2 + k
  so = so * 0.5_real64 + s
  lo = .not. lo
''')

NE = 40
# name, type, intent, dims (Fortran bounds per dimension; None for scalars)
ARGS = [
    ('n', 'i', 'in', None), ('m', 'i', 'in', None), ('i1', 'i', 'in', None), ('i2', 'i', 'in', None),
    ('x', 'r8', 'in', None), ('y', 'r8', 'in', None), ('p', 'r8', 'in', None), ('z4', 'r4', 'in', None),
    ('lg', 'l', 'in', None),
    ('ko', 'i', 'out', None), ('s', 'r8', 'inout', None), ('r4', 'r4', 'inout', None), ('so', 'r8', 'out', None),
    ('k', 'i', 'inout', None), ('lo', 'l', 'out', None),
    ('e', 'r8', 'inout', [str(NE)]), ('ie', 'i', 'inout', [str(NE)]),
    ('a', 'r8', 'inout', ['n']), ('b', 'r8', 'inout', ['n', 'm']), ('c', 'r8', 'inout', ['n', 'm', '2']),
    ('cl', 'r8', 'inout', ['0:n']), ('a4', 'r4', 'inout', ['n']),
    ('ia', 'i', 'inout', ['n']), ('ib', 'i', 'inout', ['0:n', '2']), ('la', 'l', 'inout', ['n']),
]
FTYPE = dict(i='integer', r8='real(kind=real64)', r4='real(kind=real32)', l='logical')
FMT = dict(i='I0', r8='ES25.17E3', r4='ES16.9', l='L1')

GRID = dict(
    n=[4, 5, 3, 4, 6, 5], m=[3, 2, 3, 2, 2, 3],
    i1=[7, -7, 2, -5, 0, 3], i2=[2, -2, 3, -3, 2, 4],
    x=['2.0', '-1.5', '0.5', '-4.0', '1.0', '-0.25'],
    y=['0.5', '4.0', '-2.0', '2.0', '-0.5', '0.25'],
    p=['4.0', '0.25', '2.25', '1.0', '16.0', '6.25'],
    z4=['1.5', '-2.5', '0.75', '3.0', '-0.5', '2.0'],
    lg=['.true.', '.false.', '.true.', '.false.', '.true.', '.false.'],
)


def blocks_of(switches):
    return ['base'] + [k for k in B if k != 'base' and k in switches]


def _dimdecl(dims):
    return '(' + ', '.join(dims) + ')'


def _alloc(dims):
    return _dimdecl(dims)


def build_sources(switches):
    blk = [B[k] for k in blocks_of(list(switches))]
    names = [a[0] for a in ARGS]
    kern = f'subroutine kern({", ".join(names)})\n  use iso_fortran_env, only: real32, real64\n  implicit none\n'
    for name, ty, intent, dims in ARGS:
        kern += f'  {FTYPE[ty]}, intent({intent}) :: {name}{_dimdecl(dims) if dims else ""}\n'
    kern += '  integer :: i, j, l\n' + ''.join(b.get('decl', '') for b in blk)
    kern += ''.join(b['body'] for b in blk) + 'end subroutine kern\n'

    def arr(name, kind=None):
        vals = GRID[name]
        return '(/ ' + ', '.join(f'{v}_{kind}' if kind else str(v) for v in vals) + ' /)'
    d = ['program drv', '  use iso_fortran_env, only: real32, real64', '  implicit none', '  integer :: g, q1, q2, q3']
    for name, ty, intent, dims in ARGS:
        if dims and not dims[0].isdigit():
            d.append(f'  {FTYPE[ty]}, allocatable :: {name}({", ".join(":" for _ in dims)})')
        else:
            d.append(f'  {FTYPE[ty]} :: {name}{_dimdecl(dims) if dims else ""}')
    d += [f'  integer, parameter :: vn(6) = {arr("n")}, vm(6) = {arr("m")}, vi1(6) = {arr("i1")}, vi2(6) = {arr("i2")}',
          f'  real(kind=real64), parameter :: vx(6) = {arr("x", "real64")}',
          f'  real(kind=real64), parameter :: vy(6) = {arr("y", "real64")}',
          f'  real(kind=real64), parameter :: vp(6) = {arr("p", "real64")}',
          f'  real(kind=real32), parameter :: vz(6) = {arr("z4", "real32")}',
          f'  logical, parameter :: vl(6) = {arr("lg")}',
          '  do g = 1, 6',
          '    n = vn(g); m = vm(g); i1 = vi1(g); i2 = vi2(g)',
          '    x = vx(g); y = vy(g); p = vp(g); z4 = vz(g); lg = vl(g)',
          '    s = 0.5_real64 * g; r4 = 1.25_real32; k = 3 - g',
          '    allocate(a(n), b(n, m), c(n, m, 2), cl(0:n), a4(n), ia(n), ib(0:n, 2), la(n))',
          '    do q1 = 1, n',
          '      a(q1) = 0.5_real64 * q1 - 1.0_real64',
          '      a4(q1) = 0.25_real32 * q1 + 1.0_real32',
          '      ia(q1) = q1 * 3 - 4',
          '      la(q1) = mod(q1 + g, 3) == 0',
          '      do q2 = 1, m',
          '        b(q1, q2) = 0.25_real64 * q1 + 2.0_real64 * q2',
          '        do q3 = 1, 2',
          '          c(q1, q2, q3) = 0.5_real64 * q1 + 0.25_real64 * q2 + 4.0_real64 * q3',
          '        end do',
          '      end do',
          '    end do',
          '    do q1 = 0, n',
          '      ib(q1, 1) = q1 - 2; ib(q1, 2) = 10 * q1 + 1; cl(q1) = 0.75_real64 * q1 - 2.0_real64',
          '    end do',
          f'    do q1 = 1, {NE}',
          '      e(q1) = 0.125_real64 * q1; ie(q1) = -q1',
          '    end do',
          "    write(*,'(A,I0)') 'G ', g"]

    def pr(tag, name, ty, dims):
        if dims:
            r = len(dims)
            shp = ', '.join(f'size({name}, {q + 1})' for q in range(r))
            return (f"    write(*,'(A,1X,I0,{r}(1X,I0),2000(1X,{FMT[ty]}))') '{tag} {name} {ty}', {r}, {shp}, {name}")
        return f"    write(*,'(A,1X,I0,1X,{FMT[ty]})') '{tag} {name} {ty}', 0, {name}"
    for name, ty, intent, dims in ARGS:
        if intent != 'out':
            d.append(pr('I', name, ty, dims))
    d.append(f'    call kern({", ".join(names)})')
    for name, ty, intent, dims in ARGS:
        if intent != 'in':
            d.append(pr('O', name, ty, dims))
    d += ['    deallocate(a, b, c, cl, a4, ia, ib, la)', '  end do', 'end program drv']
    return [['kern.f90', kern]], '\n'.join(d) + '\n'


XFORMS = [('f2py', dict(invert_indices=False)), ('f2py', dict(invert_indices=True))]


# Structural switches change something the translation of *other* statements can depend on: declarations, array index
# transformations (maps keyed by variable over the whole routine), loops and their index variables, associate /
# parameter substitution, the list of returned scalars.  The remaining switches are statement-local: they add
# assignments or branches over the fixed scalars and the slots e(:) / ie(:).
STRUCT = {
    'arr1d_index', 'arr1d_reverse', 'arr2d', 'arr2d_index_arith', 'arr3d', 'arr_lb_element', 'arr_lb_loop', 'arr_lb_2d',
    'arr_real32', 'local_array', 'local_array_2d', 'local_int_array', 'local_array_lb', 'slice_full', 'slice_section',
    'slice_lb', 'slice_shift_inplace', 'slice_stride', 'slice_whole',
    'loop_index_value', 'loop_neg_step', 'loop_step2', 'loop_neg_step2', 'loop_var_step', 'loop_after_value',
    'loop_zero_trip', 'loop_bounds_expr', 'while_loop', 'logical_literal',
    'param_local', 'assoc_local', 'scalar_out',
}


def switch_sets(d):
    """every set of <= d switches, smallest first: all single switches, and for two or more switches every
    combination of *structural* switches (see STRUCT)."""
    names = [k for k in B if k != 'base']
    assert STRUCT <= set(names), STRUCT - set(names)
    for dev in deviations({k: [True] for k in names}, min(d, 1)):
        yield [k for k in names if k in dev]
    if d >= 2:
        snames = [k for k in names if k in STRUCT]
        for dev in deviations({k: [True] for k in snames}, d):
            if len(dev) >= 2:
                yield [k for k in snames if k in dev]


def make_cases(d):
    cases = []
    for sw in switch_sets(d):
        sources, driver = build_sources(sw)
        for xf, opts in XFORMS:
            oid = ','.join(f'{k}={v}' for k, v in sorted(opts.items()))
            cases.append(dict(id=f'{"+".join(["base"] + sw)}|{xf}({oid})', sources=sources, driver=driver,
                              xform=xf, opts=opts, switches=sw))
    return cases


# --------------------------------------------------------------------------------------------------- transformation
def transpile(case, files, base=None):
    """-> (function name, generated Python text).  Transforms the routine in place (as the transformation does)."""
    from loki.transformations.transpile import FortranPythonTransformation
    out = Path(tempfile.mkdtemp(prefix='f2py_', dir=str(base) if base else gf._tmpbase()))  # pylint: disable=protected-access
    try:
        f2p = FortranPythonTransformation(suffix='_py', invert_indices=bool(case['opts'].get('invert_indices')))
        for sf in files.values():
            for routine in sf.routines:
                f2p.apply(source=routine, path=out)
        return f2p.mod_name, Path(f2p.py_path).read_text()
    finally:
        shutil.rmtree(out, ignore_errors=True)


LAST = {}


def apply(case, files):
    """Group-T contract (C40/C41 reuse).  The transformation rewrites the routine into a Python-targeted IR and
    writes Python text; there is no Fortran result to hand back, so the returned dict of Fortran texts is empty
    (C41 must not parse Python as Fortran); name and text of the generated module are left in LAST."""
    name, text = transpile(case, files)
    LAST.clear()
    LAST.update(name=name, text=text)
    return {}


# --------------------------------------------------------------------------------------------------- oracle
TOL = dict(r8=2.0 ** -40, r4=2.0 ** -20)


def parse_driver_output(text):
    """-> list (per input set) of dict(I={name: (type, shape, values)}, O={...}); values as strings."""
    sets = []
    for ln in text.splitlines():
        f = ln.split()
        if not f:
            continue
        if f[0] == 'G':
            sets.append(dict(I={}, O={}))
        elif f[0] in ('I', 'O'):
            name, ty, rank = f[1], f[2], int(f[3])
            shape = tuple(int(v) for v in f[4:4 + rank])
            sets[-1][f[0]][name] = (ty, shape, f[4 + rank:])
    return sets


def _conv(ty, v):
    if ty == 'i':
        return int(v)
    if ty == 'l':
        return v == 'T'
    return float(v)


def to_numpy(ty, shape, vals):
    import numpy as np
    dt = dict(i=np.int32, r8=np.float64, r4=np.float32, l=np.bool_)[ty]
    if not shape:
        if ty == 'l':
            return bool(_conv(ty, vals[0]))
        return dt(_conv(ty, vals[0]))
    return np.array([_conv(ty, v) for v in vals], dtype=dt).reshape(shape, order='F')


class _Timeout(Exception):
    pass


def _alarm(*_):
    raise _Timeout()


def run_python(name, text, sets, inverted):
    """exec the generated module, call it on every input set; -> (stage, detail) with stage None when all agree."""
    import numpy as np
    ns = {}
    try:
        code = compile(text, f'{name}.py', 'exec')
        exec(code, ns)  # pylint: disable=exec-used
        func = ns[name]
    except Exception as ex:  # pylint: disable=broad-except
        return 'xform-compile-error', f'generated Python does not load: {type(ex).__name__}: {str(ex)[:300]}'
    for g, st in enumerate(sets, 1):
        args, arrays = [], {}
        for aname, ty, intent, dims in ARGS:
            if intent == 'out' and not dims:
                continue
            t, shape, vals = st['I'][aname]
            v = to_numpy(t, shape, vals)
            if dims:
                arrays[aname] = v
                v = v.T if inverted else v
            args.append(v)
        old = signal.signal(signal.SIGALRM, _alarm)
        signal.alarm(20)
        try:
            with np.errstate(all='ignore'):
                ret = func(*args)
        except _Timeout:
            return 'xform-run-error', f'input set {g}: generated Python does not terminate within 20 s'
        except Exception as ex:  # pylint: disable=broad-except
            tb = traceback.extract_tb(ex.__traceback__)
            line = next((fr.lineno for fr in reversed(tb) if fr.filename == f'{name}.py'), None)
            src = text.splitlines()[line - 1].strip() if line else ''
            return 'xform-run-error', f'input set {g}: {type(ex).__name__}: {str(ex)[:200]} at `{src[:160]}`'
        finally:
            signal.alarm(0)
            signal.signal(signal.SIGALRM, old)
        scal = [a for a in ARGS if a[3] is None and a[2] in ('inout', 'out')]
        if isinstance(ret, tuple):
            rets = list(ret)
        else:
            rets = [ret]
        if len(rets) != len(scal):
            return 'output-differs', f'input set {g}: function returns {len(rets)} values, {len(scal)} scalar (in)out arguments expected'
        got = {a[0]: r for a, r in zip(scal, rets)}
        got.update(arrays)
        for aname, ty, intent, dims in ARGS:
            if intent == 'in':
                continue
            t, shape, vals = st['O'][aname]
            exp = [_conv(t, v) for v in vals]
            val = got[aname]
            try:
                flat = list(np.asarray(val).reshape(-1, order='F')) if dims else [val]
            except Exception as ex:  # pylint: disable=broad-except
                return 'output-differs', f'input set {g}: {aname} is not array-like: {type(ex).__name__}'
            if len(flat) != len(exp):
                return 'output-differs', f'input set {g}: {aname} has {len(flat)} elements, expected {len(exp)}'
            for q, (u, v) in enumerate(zip(exp, flat)):
                try:
                    if t in ('i', 'l'):
                        same = (v == u) and not isinstance(v, str)
                    else:
                        v = float(v)
                        same = abs(u - v) <= TOL[t] * max(abs(u), abs(v))
                    same = bool(same)
                except Exception:  # pylint: disable=broad-except
                    same = False
                if not same:
                    where = f'{aname}' if not dims else f'{aname}[{q}]'
                    return 'output-differs', f'input set {g}: {where}: gfortran {u!r} vs python {v!r}'
    return None, ''


def run_variant(case, sets, base=None, keep=False):
    xform.quiet()
    try:
        files = xform.parse_sources(case)
        name, text = transpile(case, files, base=base)
    except Exception as ex:  # pylint: disable=broad-except
        tb = traceback.format_exc().strip().splitlines()
        where = next((ln.strip() for ln in reversed(tb) if ln.strip().startswith('File "') and '/loki/' in ln), '')
        if xform.is_refusal(ex):
            return dict(verdict='refused', detail=f'{type(ex).__name__}: {str(ex)[:200]}', changed=False)
        return dict(verdict='loki-exception', detail=f'{type(ex).__name__}: {str(ex)[:300]} @ {where}', changed=False)
    out = dict(changed=True)
    if keep:
        out['generated'] = text
    stage, detail = run_python(name, text, sets, bool(case['opts'].get('invert_indices')))
    if stage:
        out.update(verdict=stage, detail=detail)
    else:
        out.update(verdict='ok', detail='', nsets=len(sets))
    return out


def build_original(case, base):
    srcs = [tuple(s) for s in case['sources']] + [('zz_driver.f90', case['driver'])]
    return gf.compile_and_run(srcs, flags=list(xform.FLAGS), base=base)


def _sets_of(orig):
    sets = parse_driver_output(orig['out'])
    if len(sets) != 6 or any(len(s['O']) != sum(1 for a in ARGS if a[2] != 'in') for s in sets):
        return None
    return sets


def run_case(case, base=None, keep=False):
    orig = build_original(case, base)
    if not orig['ok']:
        return dict(verdict='HARNESS', detail=f'original fails at {orig["stage"]}: {orig["err"][-600:]}', changed=False)
    sets = _sets_of(orig)
    if sets is None:
        return dict(verdict='HARNESS', detail='driver output incomplete', changed=False)
    return run_variant(case, sets, base=base, keep=keep)


def worker(group):
    orig = build_original(group[0], worker.base)
    sets = _sets_of(orig) if orig['ok'] else None
    res = []
    for case in group:
        if not orig['ok']:
            r = dict(verdict='HARNESS', detail=f'original fails at {orig["stage"]}: {orig["err"][-600:]}', changed=False)
        elif sets is None:
            r = dict(verdict='HARNESS', detail='driver output incomplete', changed=False)
        else:
            r = run_variant(case, sets, base=worker.base)
        r['id'] = case['id']
        res.append(r)
    return res


worker.base = None


def sigfn(results_by_id):
    def sig(case, r):
        xf = case['id'].split('|', 1)[1]
        fam = case['xform']
        base = results_by_id.get(f'base|{xf}')
        if base and base['verdict'] == r['verdict']:
            # the base kernel itself fails this way: every program containing it inherits the signature
            return f'{r["verdict"]} block=<base> xform={fam}'
        for sw in case['switches']:
            single = results_by_id.get(f'base+{sw}|{xf}')
            if single and single['verdict'] == r['verdict']:
                return f'{r["verdict"]} block={sw} xform={fam}'
        return f'{r["verdict"]} blocks={"+".join(case["switches"]) or "base"} xform={fam}'
    return sig


def run(ctx):
    d = 1 if ctx.quick else 2
    cases = make_cases(d)
    groups = {}
    for i, c in enumerate(cases):
        groups.setdefault(c['id'].split('|', 1)[0], []).append(i)
    glist = list(groups.values())
    worker.base = str(ctx.scratch)
    ctx.reset_pool()
    order = seeded_order(list(range(len(glist))), ctx.seed)
    res = ctx.pmap(worker, [[cases[i] for i in glist[g]] for g in order], chunksize=1)
    results = [None] * len(cases)
    for g, rs in zip(order, res):
        for i, r in zip(glist[g], rs):
            results[i] = r
    by_id = {r['id']: r for r in results}
    xform.summarise(ctx, cases, results, sigfn(by_id), min_changed=0)
    nok = sum(1 for r in results if r['verdict'] == 'ok')
    # vacuity guard; when (nearly) everything fails the violations are the message, not a harness error
    ctx.require(nok >= len(cases) // 2 or ctx.violations, f'vacuous: only {nok} of {len(cases)} programs were transpiled and agreed')
    nb = len(B) - 1
    judged = sum(1 for r in results if r['verdict'] in ('ok', 'output-differs', 'xform-run-error', 'xform-compile-error'))
    ctx.cov.update(
        distinct_nontrivial=judged, agreed=nok,
        exhaustive=True, bound=dict(max_blocks=d, blocks=nb, structural_blocks=len(STRUCT), xforms=len(XFORMS), input_sets=6),
        programs=len(glist),
        rule=f'base kernel + every single one of {nb} feature blocks' + (f' + every pair of the {len(STRUCT)} structural blocks'
                                                                          if d >= 2 else '') +
             f' x {len(XFORMS)} variants '
             '(invert_indices False/True); 6 input sets per run; non-trivial = Python was generated and judged by loading and running '
             'it on all input sets (`agreed` = those whose every output agreed with the gfortran run)',
        samples=[dict(id=cases[0]['id']), dict(id=cases[-1]['id'], text=cases[-1]['sources'][-1][1])],
    )
    ctx.assumptions += ['gfortran -O0 -fcheck=bounds defines the Fortran behaviour; CPython 3.12 / numpy 2 the Python behaviour',
                        'only standard-conforming, fully defined programs are generated',
                        'scalars are passed as np.int32 / np.float32 / np.float64 / bool (the annotated types of the generated signature)']


def replay(case):
    r = run_case(case)
    if r['verdict'] == 'HARNESS':
        raise RuntimeError(r['detail'])
    return None if r['verdict'] in ('ok', 'unchanged-ok', 'refused') else f'{r["verdict"]}: {r["detail"]}'
