"""Batch building of MF kernels with gfortran and comparison helpers."""
from vf import mf, gf


def build_and_run(mod_text, knames, base=None, flags=('-fcheck=bounds',), mod='kmod', extra_sources=()):
    """Compile module text + harness driver, run, return (ok, stage, parsed outputs or error text)."""
    drv = mf.driver_text(mod, knames)
    r = gf.compile_and_run(list(extra_sources) + [('kmod.f90', mod_text), ('drv.f90', drv)], flags=list(flags),
                           base=base, timeout=120)
    if not r['ok'] and r['stage'] == 'compile':
        return False, 'compile', r['err']
    outs = mf.parse_driver_output(r['out'])
    if not r['ok']:
        return False, 'run', (outs, r['err'])
    return True, 'ok', outs


def run_batch_bisect(kernels, make_text, base=None, flags=('-fcheck=bounds',)):
    """kernels: list of (kname, payload).  make_text(list of (kname, payload)) -> module text.
    Returns {kname: ('ok', {g: lines}) | ('compile', err) | ('run', err)}; a batch that fails is
    bisected so an error is attributed to exactly one kernel."""
    res = {}

    def go(ks):
        if not ks:
            return
        text = make_text(ks)
        ok, stage, data = build_and_run(text, [k for k, _ in ks], base=base, flags=flags)
        if ok:
            for k, _ in ks:
                res[k] = ('ok', {g: v for (kn, g), v in data.items() if kn == k})
            return
        if len(ks) == 1:
            if stage == 'compile':
                res[ks[0][0]] = ('compile', data[-1500:])
            else:
                outs, err = data
                res[ks[0][0]] = ('run', err[-600:])
            return
        mid = len(ks) // 2
        go(ks[:mid])
        go(ks[mid:])
    go(list(kernels))
    return res
