"""Bounded-exhaustive generators of MF kernels (see vf/mf.py).

outer_alphabet()   ~40 statement forms (compound forms carry a default body)
inner_alphabet(v)  body statements that may use loop variable v
stream(L, nest)    every statement sequence of length <= L over the outer alphabet, plus every
                   compound form x every inner statement (x every second inner statement if nest>=2),
                   each optionally preceded by every simple form; invalid kernels (per the
                   reference interpreter, on any input of the grid) are dropped.
"""
import itertools

from vf import mf

I = lambda n: ('i', n)          # noqa: E731
R = lambda s: ('r', s)          # noqa: E731
V = lambda n: ('v', n)          # noqa: E731
E = lambda a, i: ('e', a, i)    # noqa: E731
B = lambda op, a, b: ('bin', op, a, b)   # noqa: E731
C = lambda op, a, b: ('cmp', op, a, b)   # noqa: E731
FN = lambda n, *a: ('fn', n, list(a))    # noqa: E731
ASG = lambda l, r: ('asg', l, r)         # noqa: E731
P = lambda e: ('par', e)                 # noqa: E731


def simple_forms():
    """Non-compound statements (name, stmt)."""
    p, q, k, x, y, lg, n = V('p'), V('q'), V('k'), V('x'), V('y'), V('lg'), V('n')
    return [
        ('p=q+2', ASG(p, B('+', q, I(2)))),
        ('q=p*q-1', ASG(q, B('-', B('*', p, q), I(1)))),
        ('p=q/2', ASG(p, B('/', q, I(2)))),
        ('p=-q**2', ASG(p, ('neg', B('**', q, I(2))))),
        ('p=q-(p-3)', ASG(p, B('-', q, P(B('-', p, I(3)))))),
        ('p=p/(q*2)', ASG(p, B('/', p, P(B('*', q, I(2)))))),
        ('k=mod+abs', ASG(k, B('+', FN('mod', p, I(3)), FN('abs', q)))),
        ('k=max-min', ASG(k, B('-', FN('max', p, q, I(1)), FN('min', p, q)))),
        ('x=y*0.5+1.5', ASG(x, B('+', B('*', y, R('0.5')), R('1.5')))),
        ('y=x+p', ASG(y, B('+', x, p))),
        ('x=(x+y)/2.0', ASG(x, B('/', P(B('+', x, y)), R('2.0')))),
        ('x=real(p)/4.0', ASG(x, B('/', FN('real', p), R('4.0')))),
        ('lg=cmp-and-not', ASG(lg, ('and', C('>', p, q), ('not', lg)))),
        ('lg=or-eq', ASG(lg, ('or', C('==', p, I(2)), C('<=', x, y)))),
        ('ia(1)=ia(n)+p', ASG(E('ia', I(1)), B('+', E('ia', n), p))),
        ('ib(0)=ib(n-1)*2', ASG(E('ib', I(0)), B('*', E('ib', B('-', n, I(1))), I(2)))),
        ('ra(n)=ra(1)*0.5', ASG(E('ra', n), B('*', E('ra', I(1)), R('0.5')))),
        ('t%m=t%m+p', ASG(('c', 't', 'm'), B('+', ('c', 't', 'm'), p))),
        ('t%v(2)=t%v(1)+x', ASG(('ce', 't', 'v', I(2)), B('+', ('ce', 't', 'v', I(1)), x))),
        ('ia(1:n)=p', ('secasg', 'ia', I(1), n, p)),
        ('ia=ib', ('whole', 'ia', V('ib'))),
        ('ia=ia*2+ib', ('whole', 'ia', B('+', B('*', V('ia'), I(2)), V('ib')))),
        ('ra(2:n)=ra(1:n-1)', ('secasg', 'ra', I(2), n, ('sec', 'ra', I(1), B('-', n, I(1))))),
        ('ia(1:n-1)=ia(2:n)+1', ('secasg', 'ia', I(1), B('-', n, I(1)), B('+', ('sec', 'ia', I(2), n), I(1)))),
        ('ib(:)=ia(:)', ('secasg', 'ib', None, None, ('sec', 'ia', None, None))),
        ('p=sum(ia)', ASG(p, FN('sum', V('ia')))),
        ('q=sum(ib(0:n-1))+size', ASG(q, B('+', FN('sum', ('sec', 'ib', I(0), B('-', n, I(1)))), FN('size', V('ia'))))),
        ('k=lbound+ubound', ASG(k, B('+', FN('lbound', V('ib'), I(1)), FN('ubound', V('ib'), I(1))))),
        ('call helper(q+1,p)', ('call', 'helper', [B('+', q, I(1)), p])),
        ('p=fsq(q)+fsq(2)', ASG(p, B('+', FN('fsq', q), FN('fsq', I(2))))),
        ('call ext(p,k,q,ia(1))', ('call', 'ext', [p, k, q, E('ia', I(1))])),
        ('call ext(2,ia(n),p,q)', ('call', 'ext', [I(2), E('ia', n), p, q])),
        ('print', ('print', [p, x, lg, E('ia', I(1))])),
        ('iounit', ('iounit',)),
        ('comment', ('comment', 'a comment with do i = 1, n and end if in it')),
        ('k=3', ASG(k, I(3))),
        ('call internal ext shadowing module ext', ('callshadow', B('+', q, I(1)), p)),
        ('p=ia(size(ia))', ASG(p, E('ia', FN('size', V('ia'))))),
        ('x=real(ubound(ra,1))*ra(1)', ASG(x, B('*', FN('real', FN('ubound', V('ra'), I(1))), E('ra', I(1))))),
        ('q=ib(lbound(ib,1))+size(ib)', ASG(q, B('+', E('ib', FN('lbound', V('ib'), I(1))), FN('size', V('ib'))))),
    ]


def inner_alphabet(v):
    """Body statements; v is the loop variable name or None (outside loops)."""
    p, q, k, x = V('p'), V('q'), V('k'), V('x')
    out = [
        ('p=p+1', ASG(p, B('+', p, I(1)))),
        ('q=q*2-p', ASG(q, B('-', B('*', q, I(2)), p))),
        ('x=x*0.5', ASG(x, B('*', x, R('0.5')))),
        ('t%v(1)+=0.5', ASG(('ce', 't', 'v', I(1)), B('+', ('ce', 't', 'v', I(1)), R('0.5')))),
        ('if1 p>q', ('if1', C('>', p, q), ASG(q, B('+', q, I(1))))),
    ]
    if v:
        iv = V(v)
        out += [
            ('ia(v)+=v', ASG(E('ia', iv), B('+', E('ia', iv), iv))),
            ('ra(v)=ra(v)*0.5+x', ASG(E('ra', iv), B('+', B('*', E('ra', iv), R('0.5')), x))),
            ('q+=ia(v)', ASG(q, B('+', q, E('ia', iv)))),
            ('ib(v-1)+=ia(v)', ASG(E('ib', B('-', iv, I(1))), B('+', E('ib', B('-', iv, I(1))), E('ia', iv)))),
            ('if1 ia(v)>p', ('if1', C('>', E('ia', iv), p), ASG(p, E('ia', iv)))),
            ('call helper(v,p)', ('call', 'helper', [iv, p])),
            ('k=v', ASG(k, iv)),
        ]
    return out


def compound_forms(body_i, body_n, body2_i=None):
    """Compound statement forms.  body_i: list of statements usable inside a loop over i,
    body_n: outside loops.  Returns list of (name, [stmts])  (some forms need a preceding init)."""
    p, q, k, x, lg, n = V('p'), V('q'), V('k'), V('x'), V('lg'), V('n')
    i, j = V('i'), V('j')
    b2 = body2_i if body2_i is not None else body_i
    forms = [
        ('do-up', [('do', 'i', I(1), n, None, body_i, None, None)]),
        ('do-down', [('do', 'i', n, I(1), I(-1), body_i, None, None)]),
        ('do-step2', [('do', 'i', I(1), n, I(2), body_i, None, None)]),
        ('do-labelled', [('do', 'i', I(1), n, None, body_i, None, '10')]),
        ('do-named-nested-cycle-outer',
         [('do', 'i', I(1), n, None,
           [('do', 'j', I(1), n, None,
             [('if1', C('>', j, i), ('cycle', 'outer')), ASG(E('ia', i), B('+', E('ia', i), j))] , 'inner', None)]
           + body_i, 'outer', None)]),
        ('do-named-nested-exit-outer',
         [('do', 'i', I(1), n, None,
           [('do', 'j', I(1), n, None,
             [('if1', C('>', B('+', i, j), I(4)), ('exit', 'outer')), ASG(q, B('+', q, j))], None, None)]
           + body_i, 'outer', None)]),
        ('do-exit', [('do', 'i', I(1), n, None, [('if1', C('>', E('ia', i), I(1)), ('exit', None))] + body_i, None, None)]),
        ('do-cycle', [('do', 'i', I(1), n, None, [('if1', C('<', E('ia', i), I(1)), ('cycle', None))] + body_i, None, None)]),
        ('do-while', [ASG(k, I(0)), ('while', C('<', k, I(3)), [ASG(k, B('+', k, I(1)))] + body_n)]),
        ('do-nested-2', [('do', 'i', I(1), n, None, [('do', 'j', I(1), I(2), None, b2, None, None)], None, None)]),
        ('if-else', [('if', [(C('>', p, q), body_n)], [ASG(p, B('-', p, I(1)))])]),
        ('if-elseif-else', [('if', [(C('>', p, I(2)), body_n), (C('<', p, I(0)), [ASG(q, I(0))])], [ASG(q, I(7))])]),
        ('if-noelse-logical', [('if', [(('and', lg, C('/=', q, I(0))), body_n)], None)]),
        ('select', [('select', p, [([('val', 2)], body_n), ([('rng', None, -1)], [ASG(q, B('-', q, I(1)))]),
                                   ([('rng', 3, 5), ('val', 7)], [ASG(q, I(5))])], [ASG(q, I(9))])]),
        ('select-default-first', [('select', p, [([('val', 2)], body_n), ([('rng', 3, 5)], [ASG(q, I(5))])], [ASG(q, I(9))], 0)]),
        ('select-default-middle', [('select', p, [([('val', 2)], body_n), ([('rng', None, -1)], [ASG(q, B('-', q, I(1)))]),
                                                   ([('rng', 3, 5)], [ASG(q, I(5))])], [ASG(q, I(9))], 1)]),
        ('select-nodefault', [('select', q, [([('val', 2), ('val', 3)], body_n)], None)]),
        ('where-elsewhere', [('where', [(C('>', V('ia'), I(1)), [('whole', 'ia', B('-', V('ia'), I(1)))])],
                              [('whole', 'ia', B('+', V('ia'), V('ib')))])]),
        ('where-masked-elsewhere', [('where', [(C('>', V('ia'), I(1)), [('whole', 'ib', V('ia'))]),
                                               (C('<', V('ia'), I(0)), [('whole', 'ib', ('neg', V('ia')))])],
                                     [('whole', 'ib', I(0))])]),
        ('where-real', [('where', [(C('>', V('ra'), R('0.0')), [('whole', 'ra', B('*', V('ra'), R('0.5')))])], None)]),
        ('assoc-scalar-elem-comp', [('assoc', [('a', p), ('b', E('ia', I(1))), ('c', ('c', 't', 'm'))],
                                     [ASG(V('a'), B('+', V('a'), V('b'))), ASG(V('c'), V('b'))] + body_n)]),
        ('assoc-array', [('assoc', [('z', V('ib'))], [ASG(E('z', I(0)), B('+', E('z', I(0)), p))] + body_n)]),
        ('assoc-expr', [('assoc', [('a', B('+', p, q))], [ASG(p, B('*', V('a'), I(2)))] + body_n)]),
        ('assoc-nested', [('assoc', [('a', p)], [('assoc', [('b', V('a'))], [ASG(V('b'), B('+', V('b'), I(1)))])] + body_n)]),
        ('if-in-do', [('do', 'i', I(1), n, None, [('if', [(C('>', E('ia', i), p), body_i)], [ASG(p, B('+', p, I(1)))])], None, None)]),
        ('do-in-if', [('if', [(C('>', p, q), [('do', 'i', I(1), n, None, body_i, None, None)])], body_n)]),
        ('pragma-do', [('pragma', 'some-annotation'), ('do', 'i', I(1), n, None, body_i, None, None)]),
        ('do-carried-same-stmt', [('do', 'i', I(2), n, None, [ASG(E('ia', i), B('+', E('ia', B('-', i, I(1))), I(1)))] + body_i, None, None)]),
        ('do-carried-after-write', [('do', 'i', I(2), n, None,
                                     [ASG(E('ia', i), p), ASG(E('ib', B('-', i, I(1))), E('ia', B('-', i, I(1))))] + body_i, None, None)]),
        ('do-carried-scalar', [('do', 'i', I(1), n, None, [ASG(E('ia', i), q), ASG(q, B('+', E('ia', i), i))] + body_i, None, None)]),
        ('if-partial-write-then-read', [('if', [(C('>', n, I(1)), [ASG(E('ia', I(1)), I(0)), ASG(p, E('ia', n))] + body_n)], None)]),
        ('select-write-then-read-later-case', [('select', p, [([('val', 2)], [ASG(V('y'), R('1.5'))] + body_n),
                                                              ([('val', 3), ('rng', None, -1)], [ASG(V('x'), B('+', V('y'), R('1.0')))])],
                                               [ASG(V('x'), R('0.5'))])]),
        ('if-write-else-read', [('if', [(C('>', p, q), [ASG(V('y'), R('2.0'))] + body_n)], [ASG(V('x'), B('*', V('y'), R('0.5')))])]),
        ('if-write-elseif-read', [('if', [(C('>', p, I(2)), [ASG(k, I(1))]), (C('<', p, I(0)), [ASG(q, B('+', q, x_as_int()))])],
                                   [ASG(q, I(7))])]),
        ('where-write-elsewhere-read', [('where', [(C('>', V('ib'), I(2)), [('whole', 'ia', I(0))])], [('whole', 'ib', V('ia'))])]),
        ('do-bound-size-read-elem', [('do', 'i', I(1), FN('size', V('ia')), None, [ASG(q, B('+', q, E('ia', i)))] + body_i, None, None)]),
        ('raw-write-if-overwrite-else-read', [ASG(V('y'), B('+', x, p)),
                                              ('if', [(C('>', p, q), [ASG(V('y'), R('2.0'))] + body_n)],
                                               [ASG(V('x'), B('*', V('y'), R('0.5')))])]),
        ('raw-write-if-overwrite-elseif-read', [ASG(k, B('+', p, I(1))),
                                                ('if', [(C('>', p, I(2)), [ASG(k, I(1))]),
                                                        (C('<', p, I(0)), [ASG(q, B('+', q, k))])], [ASG(q, B('-', q, k))])]),
        ('assoc-alias-write-read', [('assoc', [('a', p)], [ASG(V('a'), B('+', V('a'), I(1))), ASG(q, B('*', p, I(2)))] + body_n)]),
    ]
    return forms


def x_as_int():
    return ('fn', 'fsq', [('v', 'p')])


def default_bodies():
    bi = [ASG(E('ia', V('i')), B('+', E('ia', V('i')), V('i'))), ASG(V('q'), B('+', V('q'), E('ia', V('i'))))]
    bn = [ASG(V('p'), B('+', V('p'), I(1)))]
    return bi, bn


def base_alphabet():
    """(name, [stmts]) for sequence enumeration: every simple form + every compound form with default bodies."""
    bi, bn = default_bodies()
    alpha = [(nm, [st]) for nm, st in simple_forms()]
    alpha += compound_forms(bi, bn)
    return alpha


def stream(L=2, nest=1, seed=0):
    """Yields (name, body).  Deterministic; complete for the bound.  Does NOT filter validity."""
    alpha = base_alphabet()
    seen = set()

    def emit(name, body):
        key = repr(body)
        if key in seen:
            return None
        seen.add(key)
        return (name, body)

    # (a) sequences up to L
    for ln in range(1, L + 1):
        for combo in itertools.product(alpha, repeat=ln):
            # label uniqueness: at most one labelled do per kernel
            if sum(1 for nm, _ in combo if nm == 'do-labelled') > 1:
                continue
            # construct names are unique within a scoping unit
            if sum(1 for nm, _ in combo if nm.startswith('do-named-')) > 1:
                continue
            body = [s for _, ss in combo for s in ss]
            r = emit('+'.join(nm for nm, _ in combo), body)
            if r:
                yield r
    # (b) every compound form x every inner statement
    bi, bn = default_bodies()
    inner_i, inner_n = inner_alphabet('i'), inner_alphabet(None)
    inner_j = inner_alphabet('j')
    for (ni, si), (nn, sn) in itertools.product(inner_i, inner_n):
        for nm, ss in compound_forms([si], [sn], [inner_j[0][1]]):
            r = emit(f'{nm}[{ni}|{nn}]', ss)
            if r:
                yield r
    if nest >= 2:
        for (ni, si), (nj, sj) in itertools.product(inner_i, inner_j):
            ss = [('do', 'i', I(1), V('n'), None, [si, ('do', 'j', I(1), I(2), None, [sj], None, None)], None, None)]
            r = emit(f'nest2[{ni}|{nj}]', ss)
            if r:
                yield r
            ss = [('do', 'i', I(1), V('n'), None,
                   [('if', [(C('>', E('ia', V('i')), I(0)), [si, ('if1', C('>', V('p'), I(0)), sj_repl(sj))])], [si])],
                   None, None)]
            r = emit(f'nest2if[{ni}|{nj}]', ss)
            if r:
                yield r


def sj_repl(sj):
    """replace loop var j by i in an inner statement"""
    def rep(e):
        if isinstance(e, tuple):
            if e == ('v', 'j'):
                return ('v', 'i')
            return tuple(rep(c) for c in e)
        if isinstance(e, list):
            return [rep(c) for c in e]
        return e
    st = rep(sj)
    if st[0] == 'if1':
        return st[2]
    return st


def valid_stream(L=2, nest=1):
    """(name, body, expected outputs per grid input) for every valid kernel."""
    grid = mf.input_grid()
    for name, body in stream(L, nest):
        outs = mf.valid_on_grid(body, grid)
        if outs is not None:
            yield name, body, outs
