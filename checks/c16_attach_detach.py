"""C16  Analysis attach/detach leaves the IR unchanged.

ENUM.  Bounds: quick = all routines with <= 3 items over the full alphabet + <= 4 items over
{P,S,E,A,K | L | D,P} x 77 modes, + <= 3 items over {P,A,M,N,I | L | P} where M/N = SELECT CASE with its first/middle
branch emptied by a Transformer before attaching and I = IF with an emptied body; thorough = <= 3 items full alphabet and <= 4 items over {P,S,E,A,K | L | D,P}
x 200 modes (all 15 node-type subsets) + all <= 4-item routines over the full alphabet x 77 modes.
Every routine whose spec + body is a forest of at most L items over a fixed statement
alphabet (generic pragma, region start, matching region end, region end with a different keyword,
assignment, comment, call, DO loop and DO WHILE loop with recursively enumerated bodies, extra
declaration + pragmas in the spec) is parsed from generated text; then every attach/detach
*mode* is run on it:

  fn:pragmas[T;post]     attach_pragmas / detach_pragmas on spec and body for a node-type subset T
  fn:regions[kw]         attach_pragma_regions / detach_pragma_regions
  fn:dataflow            attach_dataflow_analysis / detach_dataflow_analysis
  ctx:...                the three context managers, body `pass` or a body that raises
  ctx:A>ctx:B            two context managers nested, every ordered pair, inner body pass/raise
Not explored: improperly nested use through the function API (attach A, attach B, detach A, detach B).
The statement speaks of "attaching and then detaching"; e.g. detaching dataflow information while
pragmas are attached cannot reach the attached Pragma nodes, which then keep their dataflow slots --
that is misuse, not a violation (the `mix` machinery below is kept only for experiments).

Oracle (strict reading, calibrated on the pinned tree: it holds there): after the mode
  * the canonical structure of spec and body (node classes, every dataclass field, tuple nesting,
    expressions by class and text, dataflow slots) is what it was before,
  * fgen(routine) is byte-identical,
  * every IR node object that was in the tree before sits at the same position (`is`).
Not demanded (weaker reading where the statement leaves room): `source` metadata of nodes; non-field
attributes left on a node (`pragma_post=None` on a CallStatement); anything about the state *while*
attached; an attach call that itself raises is a refusal, not an attach (counted, never judged).

Node-type subsets are reduced modulo the node types present in the program (a type without an
instance cannot influence isinstance dispatch), so each executed case is a distinct behaviour.
"""
import itertools

PROPERTY = 'C16'
LEVEL = 'exploration'
META = dict(
    engine='enum',
    technique='bounded-exhaustive enumeration of statement forests x attach/detach modes; before/after comparison of '
              'canonical IR structure, fgen text and node identity',
    level_text='every routine with <= L spec/body items over the pragma/region/loop/call/declaration alphabet (loops '
               'nested to depth 2), every attach/detach mode (function pairs, context managers single and nested in '
               'every order, raising bodies): structure, generated text and node identities are restored; exhaustive '
               'for the stated bound',
    level_note='runs on the implementation itself; the only harness model is the canonical-structure walker; fgen is '
               'used as an observation, not as ground truth',
)

# ----------------------------------------------------------------------------- program space
LEAVES = {
    'P': '!$loki foo',
    'S': '!$loki data',
    'E': '!$loki end data',
    'X': '!$acc end data',
    'A': 'x(1) = x(1) + 1.',
    'C': '! note',
    'K': 'call sub(x, n)',
    # branches emptied *programmatically* before attaching (the marker statement `k = 777` is removed with a
    # Transformer after parsing: the parser itself never yields an empty non-last CASE / IF body)
    'M': 'select case (n)\ncase (1)\n  k = 777\ncase (2)\n  x(1) = 2.\ncase default\n  x(1) = 3.\nend select',
    'N': 'select case (n)\ncase (1)\n  x(1) = 1.\ncase (2)\n  k = 777\ncase default\n  x(1) = 3.\nend select',
    'I': 'if (n > 0) then\n  k = 777\nelse\n  x(1) = 0.\nend if',
}
MARKER = '777'
SPEC_LEAVES = {
    'P': '!$loki foo',
    'S': '!$loki data',
    'E': '!$loki end data',
    'D': None,   # real :: w<k>
}
BODY_ORDER = ['P', 'S', 'E', 'X', 'A', 'C', 'K']
SPEC_ORDER = ['D', 'P', 'S', 'E']
CONTAINERS = ['L', 'W']
MAX_NEST = 2


def forests(size, depth, leaves, containers):
    """Every forest (tuple of items) with exactly `size` items in total; item = leaf symbol or
    (container, forest).  Containers nest at most `depth` deep."""
    if size == 0:
        yield ()
        return
    for leaf in leaves:
        for rest in forests(size - 1, depth, leaves, containers):
            yield (leaf,) + rest
    if depth > 0:
        for c in containers:
            for inner in range(0, size):
                for body in forests(inner, depth - 1, leaves, containers):
                    for rest in forests(size - 1 - inner, depth, leaves, containers):
                        yield ((c, body),) + rest


def programs(maxsize, body_leaves, containers, spec_leaves):
    """(spec forest, body forest), total size <= maxsize, smallest first."""
    for total in range(0, maxsize + 1):
        for ns in range(0, total + 1):
            for sp in itertools.product(spec_leaves, repeat=ns):
                for bd in forests(total - ns, MAX_NEST, body_leaves, containers):
                    yield (tuple(sp), bd)


def fsize(forest):
    return sum(1 if isinstance(i, str) else 1 + fsize(i[1]) for i in forest)


def render(prog):
    spec, body = prog
    lines = ['subroutine t(n, x)', '  implicit none', '  integer, intent(in) :: n',
             '  real, intent(inout) :: x(n)', '  integer :: i, j, k']
    nd = 0
    for s in spec:
        if s == 'D':
            nd += 1
            lines.append(f'  real :: w{nd}')
        else:
            lines.append('  ' + SPEC_LEAVES[s])

    def emit(forest, depth):
        ind = '  ' * (depth + 1)
        for it in forest:
            if isinstance(it, str):
                lines.extend(ind + ln for ln in LEAVES[it].split('\n'))
            else:
                c, inner = it
                if c == 'L':
                    lines.append(f'{ind}do {"ijk"[depth]} = 1, n')
                else:
                    lines.append(f'{ind}do while (x({depth + 1}) > 0.)')
                emit(inner, depth + 1)
                lines.append(f'{ind}end do')
    emit(body, 0)
    lines.append('end subroutine t')
    return '\n'.join(lines) + '\n'


def show(prog):
    def f(forest):
        return ''.join(i if isinstance(i, str) else f'{i[0]}[{f(i[1])}]' for i in forest)
    return f'{"".join(prog[0])}|{f(prog[1])}'


def parse_show(text):
    spec, _, body = text.partition('|')

    def f(s, pos):
        out = []
        while pos < len(s) and s[pos] != ']':
            c = s[pos]
            if pos + 1 < len(s) and s[pos + 1] == '[':
                inner, pos = f(s, pos + 2)
                out.append((c, inner))
                pos += 1
            else:
                out.append(c)
                pos += 1
        return tuple(out), pos
    return (tuple(spec), f(body, 0)[0])


def present_types(prog):
    t = set()
    if 'D' in prog[0] or True:
        t.add('D')          # the fixed declarations are always there

    def f(forest):
        for it in forest:
            if it == 'K':
                t.add('K')
            elif not isinstance(it, str):
                t.add(it[0])
                f(it[1])
    f(prog[1])
    return t


# ----------------------------------------------------------------------------- modes
TYPE_ORDER = ['L', 'W', 'K', 'D']


def type_subsets(full):
    if full:
        return [tuple(c) for n in range(1, 5) for c in itertools.combinations(TYPE_ORDER, n)]
    return [('L',), ('W',), ('K',), ('D',), ('L', 'W'), ('L', 'W', 'K', 'D')]


def managers(full):
    """Atomic attach/detach units: ('P', types, post) | ('R', keyword) | ('D',)"""
    ms = [('P', t, post) for t in type_subsets(full) for post in (True, False)]
    ms += [('R', None), ('R', 'loki')] + ([('R', 'acc')] if full else [])
    ms += [('D',)]
    return ms


def nest_managers(full):
    ms = [('P', ('L', 'W', 'K', 'D'), True), ('P', ('L', 'W'), False), ('R', None), ('D',)]
    if full:
        ms += [('P', ('K', 'D'), True), ('P', ('L',), True), ('R', 'loki')]
    return ms


def all_modes(full):
    """mode = (api, managers tuple, raising)"""
    modes = []
    for m in managers(full):
        modes.append(('fn', (m,), False))
        modes.append(('ctx', (m,), False))
        modes.append(('ctx', (m,), True))
    nm = nest_managers(full)
    for a in nm:
        for b in nm:
            modes.append(('ctx', (a, b), False))
            modes.append(('ctx', (a, b), True))
    return modes


def reduce_mode(mode, present):
    """Canonical representative of a mode for a program with the given node types."""
    api, ms, raising = mode
    out = []
    for m in ms:
        if m[0] == 'P':
            t = tuple(x for x in m[1] if x in present)
            if not t:
                t = ()
            out.append(('P', t, m[2]))
        else:
            out.append(m)
    return (api, tuple(out), raising)


def mode_name(mode):
    api, ms, raising = mode

    def mn(m):
        if m[0] == 'P':
            return f'pragmas[{"".join(m[1])};{"post" if m[2] else "nopost"}]'
        if m[0] == 'R':
            return f'regions[{m[1] or "*"}]'
        return 'dataflow'
    sep = {'fn': '', 'ctx': '>', 'mix': '|'}[api]
    return f'{api}:' + (sep or '>').join(mn(m) for m in ms) + (' raise' if raising else '')


def mode_to_json(mode):
    return [mode[0], [[m[0], list(m[1]), m[2]] if m[0] == 'P' else list(m) for m in mode[1]], mode[2]]


def mode_from_json(j):
    ms = []
    for m in j[1]:
        if m[0] == 'P':
            ms.append(('P', tuple(m[1]), bool(m[2])))
        elif m[0] == 'R':
            ms.append(('R', m[1]))
        else:
            ms.append(('D',))
    return (j[0], tuple(ms), bool(j[2]))


class Marker(Exception):
    """Raised by the harness inside a context body."""


_L = {}


def L():
    if not _L:
        from loki import Subroutine, fgen
        from loki.ir import nodes as ir
        from loki.ir import (attach_pragmas, detach_pragmas, pragmas_attached, attach_pragma_regions,
                             detach_pragma_regions, pragma_regions_attached)
        from loki.analyse import (attach_dataflow_analysis, detach_dataflow_analysis, dataflow_analysis_attached)
        from loki.ir.nodes import Node
        from vf import lokiperf
        lokiperf.silence()
        lokiperf.speedup()
        _L.update(Subroutine=Subroutine, fgen=fgen, ir=ir, Node=Node,
                  attach_pragmas=attach_pragmas, detach_pragmas=detach_pragmas, pragmas_attached=pragmas_attached,
                  attach_pragma_regions=attach_pragma_regions, detach_pragma_regions=detach_pragma_regions,
                  pragma_regions_attached=pragma_regions_attached,
                  attach_dfa=attach_dataflow_analysis, detach_dfa=detach_dataflow_analysis,
                  dfa_attached=dataflow_analysis_attached,
                  NT={'L': ir.Loop, 'W': ir.WhileLoop, 'K': ir.CallStatement, 'D': ir.VariableDeclaration})
    return _L


def _types(m):
    nt = L()['NT']
    return tuple(nt[x] for x in m[1])


def fn_attach(r, m):
    lk = L()
    if m[0] == 'P':
        r.spec = lk['attach_pragmas'](r.spec, _types(m), attach_pragma_post=m[2])
        r.body = lk['attach_pragmas'](r.body, _types(m), attach_pragma_post=m[2])
    elif m[0] == 'R':
        r.spec = lk['attach_pragma_regions'](r.spec, keyword=m[1])
        r.body = lk['attach_pragma_regions'](r.body, keyword=m[1])
    else:
        lk['attach_dfa'](r)


def fn_detach(r, m):
    lk = L()
    if m[0] == 'P':
        r.spec = lk['detach_pragmas'](r.spec, _types(m), detach_pragma_post=m[2])
        r.body = lk['detach_pragmas'](r.body, _types(m), detach_pragma_post=m[2])
    elif m[0] == 'R':
        r.spec = lk['detach_pragma_regions'](r.spec)
        r.body = lk['detach_pragma_regions'](r.body)
    else:
        lk['detach_dfa'](r)


def ctx_of(r, m):
    lk = L()
    if m[0] == 'P':
        return lk['pragmas_attached'](r, _types(m), attach_pragma_post=m[2])
    if m[0] == 'R':
        return lk['pragma_regions_attached'](r, keyword=m[1])
    return lk['dfa_attached'](r)


class Refused(Exception):
    pass


def prepare(r, prog_text):
    """Remove the marker statements (emptying the CASE / IF branch that holds them) before anything is attached."""
    if not any(c in prog_text for c in 'MNI'):
        return
    from loki.ir import FindNodes, Transformer
    ir = L()['ir']
    marks = [a for a in FindNodes(ir.Assignment).visit(r.body) if str(a.rhs) == MARKER]
    if marks:
        r.body = Transformer({a: None for a in marks}).visit(r.body)


def run_mode(r, mode, probe):
    """Execute one mode on routine r.  probe() is called at the point of deepest attachment and
    returns a structure hash (used to tell whether the attach did anything)."""
    api, ms, raising = mode
    inner = None
    if api == 'fn':
        try:
            fn_attach(r, ms[0])
        except Exception as e:  # pylint: disable=broad-except
            raise Refused(f'{type(e).__name__}: {e}') from e
        inner = probe()
        fn_detach(r, ms[0])
    elif api == 'mix':
        a, b = ms
        try:
            fn_attach(r, a)
            fn_attach(r, b)
        except Exception as e:  # pylint: disable=broad-except
            raise Refused(f'{type(e).__name__}: {e}') from e
        inner = probe()
        fn_detach(r, a)
        fn_detach(r, b)
    else:
        box = []
        try:
            if len(ms) == 1:
                with ctx_of(r, ms[0]):
                    box.append(probe())
                    if raising:
                        raise Marker()
            else:
                with ctx_of(r, ms[0]):
                    with ctx_of(r, ms[1]):
                        box.append(probe())
                        if raising:
                            raise Marker()
        except Marker:
            pass
        inner = box[0] if box else None
    return inner


# ----------------------------------------------------------------------------- observation
_PRIV = ('_live_symbols', '_defines_symbols', '_uses_symbols')
_SKIP = ('source', 'symbol_attrs', 'parent')


def walk(o, nodes, exprs):
    """Canonical structure of an IR (sub)tree.  Appends every IR node object to `nodes` and every
    non-node leaf object (expressions) to `exprs`, in traversal order."""
    Node = L()['Node']
    if isinstance(o, Node):
        nodes.append(o)
        d = o.__dict__
        items = tuple((k, walk(d.get(k), nodes, exprs)) for k in o.__dataclass_fields__ if k not in _SKIP)
        return (type(o).__name__, items, tuple(d.get(k) is None for k in _PRIV))
    if isinstance(o, (tuple, list)):
        return ('T',) + tuple(walk(i, nodes, exprs) for i in o)
    if o is None or isinstance(o, (str, int, float, bool)):
        return o
    exprs.append(o)
    hit = _STR.get(id(o))
    if hit is None or hit[0] is not o:
        hit = _STR[id(o)] = (o, (type(o).__name__, str(o)))     # keeps `o` alive: the id cannot be recycled
    return hit[1]


_STR = {}


class Snap:
    __slots__ = ('struct', 'nodes', 'exprs', 'symtab', 'text')

    def __init__(self, r, text):
        self.nodes, self.exprs = [], []
        self.struct = (walk(r.spec, self.nodes, self.exprs), walk(r.body, self.nodes, self.exprs))
        self.symtab = tuple(sorted((k, repr(v)) for k, v in dict.items(r.symbol_attrs)))
        self.text = L()['fgen'](r) if text else None


def _same_objects(a, b):
    return len(a) == len(b) and all(x is y for x, y in zip(a, b))


STATS = dict(text_compared=0, text_inferred=0)


def judge(r, before, force_text):
    """Kinds that differ after the mode: 'structure', 'text', 'identity'.
    Text shortcut: when structure, node objects, expression objects and the symbol table are all
    identical, fgen (a deterministic function of exactly these) is not re-run; the caller re-checks
    the text once per program at the end, so the shortcut itself is validated on every program."""
    after = Snap(r, False)
    bad = []
    if after.struct != before.struct:
        bad.append('structure')
    ident = _same_objects(before.nodes, after.nodes)
    if force_text or bad or not ident or not _same_objects(before.exprs, after.exprs) or after.symtab != before.symtab:
        after.text = L()['fgen'](r)
        STATS['text_compared'] += 1
        if after.text != before.text:
            bad.append('text')
    else:
        STATS['text_inferred'] += 1
    if not ident:
        bad.append('identity')
    return bad, after


def check_one(prog, mode, r=None, before=None, force_text=True):
    """Run one (program, mode).  Returns (verdict, r, before):
    verdict = ('ok', changed_while_attached) | ('refused', msg) | ('bad', kinds, detail)"""
    if r is None:
        r = L()['Subroutine'].from_source(render(prog))
        prepare(r, show(prog))
        before = Snap(r, True)

    def probe():
        n, e = [], []
        return hash((walk(r.spec, n, e), walk(r.body, n, e)))
    try:
        inner = run_mode(r, mode, probe)
    except Refused as e:
        return ('refused', str(e)), None, None
    except Exception as e:  # pylint: disable=broad-except
        # detach / context exit crashed: the unit is not restored by definition
        return ('bad', ['exception'], f'{type(e).__name__}: {e}'), None, None
    bad, after = judge(r, before, force_text)
    if bad:
        if 'text' in bad:
            det = f'before:\n{before.text}\nafter:\n{after.text}'
        elif 'structure' in bad:
            det = f'IR structure differs while the generated text is equal:\n{after.text}'
        else:
            det = 'same structure and text, but pre-existing node objects were replaced'
        return ('bad', bad, det), None, None
    return ('ok', inner is not None and inner != hash(before.struct)), r, before


def shrink_case(prog, mode, kinds):
    """Greedy minimisation of the program (drop one item at a time), then of the mode."""
    def fails(p, m):
        v, _, _ = check_one(p, m)
        return v[0] == 'bad' and v[1] == kinds

    def drops(forest):
        for i, it in enumerate(forest):
            yield forest[:i] + forest[i + 1:]
            if not isinstance(it, str):
                yield forest[:i] + it[1] + forest[i + 1:]      # hoist the body in place of the container
                for inner in drops(it[1]):
                    yield forest[:i] + ((it[0], inner),) + forest[i + 1:]

    progress = True
    while progress:
        progress = False
        cands = [(prog[0][:i] + prog[0][i + 1:], prog[1]) for i in range(len(prog[0]))]
        cands += [(prog[0], b) for b in drops(prog[1])]
        for c in cands:
            m2 = reduce_mode(mode, present_types(c))
            if fails(c, m2):
                prog, mode = c, m2
                progress = True
                break
    api, ms, raising = mode
    trial = []
    if raising:
        trial.append((api, ms, False))
    if len(ms) == 2:
        one = 'fn' if api == 'mix' else 'ctx'
        trial += [(one, (ms[0],), raising and one == 'ctx'), (one, (ms[1],), raising and one == 'ctx')]
    if api == 'ctx' and len(ms) == 1 and not raising:
        trial.append(('fn', ms, False))
    for i, m in enumerate(ms):
        if m[0] == 'P':
            for t in m[1]:
                m2 = ('P', tuple(x for x in m[1] if x != t), m[2])
                trial.append((api, ms[:i] + (m2,) + ms[i + 1:], raising))
            if m[2]:
                trial.append((api, ms[:i] + (('P', m[1], False),) + ms[i + 1:], raising))
        if m[0] == 'R' and m[1] is not None:
            trial.append((api, ms[:i] + (('R', None),) + ms[i + 1:], raising))
    for t in trial:
        if fails(prog, t):
            return shrink_case(prog, t, kinds)
    return prog, mode


_MODES = {}
_CFG = {}


def _prepare(seed):
    _MODES[False] = all_modes(False)
    _MODES[True] = all_modes(True)
    _CFG['seed'] = seed


def modes_for(prog, full):
    present = present_types(prog)
    seen, modes = set(), []
    for m in _MODES[full]:
        rm = reduce_mode(m, present)
        if rm not in seen:
            seen.add(rm)
            modes.append(rm)
    return modes


def work(item):
    """item = (program in show() form, full-mode flag).  Runs every distinct reduced mode on it."""
    import random
    import zlib
    ptxt, full = item
    prog = parse_show(ptxt)
    _STR.clear()
    modes = modes_for(prog, full)
    if _CFG.get('seed'):
        random.Random(_CFG['seed'] * 1000003 + zlib.crc32(ptxt.encode())).shuffle(modes)
    t0 = dict(STATS)
    res = dict(cases=0, nontrivial=0, refused=0, viol=[], kinds={})
    r = before = first = None
    clean = True
    for m in modes:
        v, r, before = check_one(prog, m, r, before, force_text=False)
        if first is None and before is not None:
            first = before
        res['cases'] += 1
        if v[0] == 'ok':
            if v[1]:
                res['nontrivial'] += 1
                k = m[0] + ':' + '+'.join(x[0] for x in m[1])
                res['kinds'][k] = res['kinds'].get(k, 0) + 1
        elif v[0] == 'refused':
            res['refused'] += 1
        else:
            clean = False
            res['viol'].append((ptxt, mode_to_json(m), v[1], v[2]))
    if clean and r is not None and first is not None:
        # validate the text shortcut: after all modes the generated text must still be the initial one
        if L()['fgen'](r) != first.text:
            for m in modes:
                v, _, _ = check_one(prog, m, force_text=True)
                if v[0] == 'bad':
                    res['viol'].append((ptxt, mode_to_json(m), v[1], v[2]))
            if not res['viol']:
                res['viol'].append((ptxt, mode_to_json(modes[0]), ['text-accumulated'],
                                    'text differs after the whole mode sequence but after no single mode'))
    res['text_compared'] = STATS['text_compared'] - t0['text_compared'] + 1
    res['text_inferred'] = STATS['text_inferred'] - t0['text_inferred']
    return res


# alphabets: (max items, body leaves, containers, spec leaves)
SMALL_FULL = dict(maxsize=3, body=BODY_ORDER, cont=CONTAINERS, spec=SPEC_ORDER)
COND = dict(maxsize=3, body=['P', 'A', 'M', 'N', 'I'], cont=['L'], spec=['P'])
WIDE_L = dict(maxsize=4, body=['P', 'S', 'E', 'A', 'K'], cont=['L'], spec=['D', 'P'])
WIDE_LW = dict(maxsize=4, body=['P', 'S', 'E', 'A', 'K'], cont=CONTAINERS, spec=['D', 'P'])
FULL4 = dict(maxsize=4, body=BODY_ORDER, cont=CONTAINERS, spec=SPEC_ORDER)
DEEP5 = dict(maxsize=5, body=['P', 'S', 'E', 'K'], cont=['L'], spec=['P'])
# (alphabet, full mode set?)  -- quick is a subset of thorough, program- and mode-wise
QUICK_PARTS = [(SMALL_FULL, False), (COND, False), (WIDE_L, False)]
THOROUGH_PARTS = [(SMALL_FULL, True), (COND, True), (WIDE_L, True), (WIDE_LW, False), (FULL4, False)]


def space(b):
    return [show(p) for p in programs(b['maxsize'], b['body'], b['cont'], b['spec'])]


def run(ctx):
    from vf.explore import seeded_order
    _prepare(ctx.seed)
    ctx.reset_pool()
    parts = QUICK_PARTS if ctx.quick else THOROUGH_PARTS
    items, seen = [], set()
    for b, full in parts:
        for p in space(b):
            if p not in seen:
                seen.add(p)
                items.append((p, full))
    progs = [p for p, _ in items]
    items = seeded_order(items, ctx.seed)
    results = ctx.pmap(work, items, chunksize=8, ordered=False)
    cases = nontrivial = refused = tc = ti = 0
    kinds = {}
    buckets = {}
    for res in results:
        cases += res['cases']
        nontrivial += res['nontrivial']
        refused += res['refused']
        tc += res['text_compared']
        ti += res['text_inferred']
        for k, v in res['kinds'].items():
            kinds[k] = kinds.get(k, 0) + v
        for ptxt, mj, bad, det in res['viol']:
            buckets.setdefault((mode_name(mode_from_json(mj)), tuple(bad)), []).append((ptxt, mj, det))
    # one shrunk representative per (mode, kinds) bucket; the signature is the shrunk core
    sigs = {}
    for (_, bad), lst in sorted(buckets.items()):
        lst.sort(key=lambda x: (len(x[0]), x[0]))
        ptxt, mj, det = lst[0]
        p2, m2 = shrink_case(parse_show(ptxt), mode_from_json(mj), list(bad))
        sig = f'{"+".join(bad)} after {mode_name(m2)} on {show(p2)}'
        v, _, _ = check_one(p2, m2)
        det2 = v[2] if v[0] == 'bad' else det
        case = dict(program=show(p2), mode=mode_to_json(m2), kinds=list(bad), source=render(p2))
        c, d, n = sigs.get(sig, (case, det2, 0))
        sigs[sig] = (c, d, n + len(lst))
    for sig, (case, det, n) in sigs.items():
        ctx.violation(sig, case, f'{det}\n({n} enumerated cases reduce to this core)')

    def k(prefix):
        return sum(v for key, v in kinds.items() if key.split(':')[1] == prefix)
    ctx.require(k('P') > 50, f'vacuous: pragma attachment never changed the IR ({kinds})')
    ctx.require(k('R') > 50, f'vacuous: no pragma region was ever formed ({kinds})')
    ctx.require(k('D') > 50, f'vacuous: dataflow attachment never visible ({kinds})')
    nm = {False: len(_MODES[False]), True: len(_MODES[True])}
    bound = [dict(max_items=b['maxsize'], body_leaves=b['body'], containers=b['cont'], spec_leaves=b['spec'],
                  nest=MAX_NEST, modes=nm[full]) for b, full in parts]
    mid = progs[len(progs) // 3]
    ctx.cov.update(
        evaluations=cases, distinct_nontrivial=nontrivial, exhaustive=True, refused=refused,
        programs=len(progs), nontrivial_by_mode_kind=kinds, text_compared_by_fgen=tc, text_equal_by_identity=ti,
        rule='every routine whose spec items + body items (leaves, DO / DO WHILE containers nested <= 2, enumerated '
             'recursively) stay within the item bound, for each of the alphabets listed under `bound`, x every '
             'attach/detach mode (function pairs, context managers, nested ordered pairs, raising bodies'
             '; node-type subsets reduced modulo the node types '
             'present, duplicates dropped). A case is non-trivial when the IR structure at the point of deepest '
             'attachment differs from the structure before; every (program, reduced mode) pair is distinct by construction',
        samples=[dict(program=mid, source=render(parse_show(mid)), modes=[mode_name(m) for m in
                                                                            modes_for(parse_show(mid), not ctx.quick)[:6]]),
                 dict(program=progs[-1], mode=mode_name(_MODES[not ctx.quick][-1]))],
        bound=bound,
    )
    ctx.assumptions += [
        'node `source` metadata and non-field attributes are not part of "IR structure"',
        'an attach call that raises is a refusal (counted), not judged',
        'a node type without an instance in the program cannot influence attach/detach (isinstance dispatch): '
        'type subsets are reduced modulo present types',
        'fgen is a deterministic function of node fields, expression objects and the symbol table: when all of these '
        'are identical objects/values the text is taken as equal without re-running fgen (re-validated with fgen once '
        'per program after all modes; counts in text_compared_by_fgen / text_equal_by_identity)',
        'vf.lokiperf memoises inspect.getfullargspec for Visitor construction (pure function of the method)',
    ]


def replay(case):
    _prepare(0)
    prog = parse_show(case['program'])
    mode = mode_from_json(case['mode'])
    v, _, _ = check_one(prog, mode)
    if v[0] == 'bad':
        return f'{"+".join(v[1])} differ after {mode_name(mode)} on {case["program"]}: {v[2]}'
    return None
