"""C29  Associate resolution and merging preserve program behaviour.

ENUM (deviation-bounded) + gfortran differential.  A template kernel is assembled from feature
blocks (one per branch/shortcut visible in ResolveAssociateMapper / MergeAssociatesTransformer:
selector kinds scalar / whole array with lower bound 0 / section / strided section / element /
nested component / array-of-derived-type element / expression; uses: scalar read/write,
subscripted, sliced, passed to a call, inside an inner selector; nesting 1-3; shadowing of an
outer associate name / a local; same selector twice; loop index in the selector).
Every combination of <= d blocks (d=1 quick, d=2 thorough) x every transformation variant is
built twice (original / transformed) with the same harness-owned driver and the outputs compared.
A *warning* followed by wrong code is a violation; an explicit refusal (NotImplementedError,
"not supported" error) is counted as refused.
"""
from vf import xform
from vf.explore import deviations

PROPERTY = 'C29'
LEVEL = 'exploration'
META = dict(
    engine='enum',
    technique='deviation-bounded exhaustive template enumeration x all transformation variants; gfortran differential run (original vs transformed)',
    level_text='all combinations of <= d associate feature blocks x {resolve(start_depth 0,1,2), merge(max_parents None,0,1), '
               'merge+resolve, AssociatesTransformation option product}: transformed code compiles and prints exactly the '
               'original output on every input; exhaustive for d',
    level_note='gfortran 12 -O0 -fcheck=bounds is the semantics; exact dyadic reals so no tolerance; original program must build (else HARNESS-ERROR)',
)

HEAD = '''module amod
  implicit none
  type :: st
    real :: v(4)
    integer :: m
  end type st
  type :: tt
    real :: x
    real :: arr(0:4)
    real :: m2(3, 4)
    type(st) :: s
  end type tt
contains
  subroutine addone(z)
    real, intent(inout) :: z(:)
    z = z + 1.0
  end subroutine addone
  subroutine addtwo(z)
    real, intent(inout) :: z
    z = z + 2.0
  end subroutine addtwo
  subroutine kern(n, a, b, t, u, ts, r)
    integer, intent(in) :: n
    real, intent(inout) :: a(0:n), b(n)
    type(tt), intent(inout) :: t, u
    type(tt), intent(inout) :: ts(2)
    real, intent(inout) :: r
    integer :: i
    real :: loc
    loc = 1.0
'''
TAIL = '''    r = r + loc
  end subroutine kern
end module amod
'''

BLOCKS = {
    'base': '''    associate (c => t%x)
      c = c + 1.5
      r = r + c
    end associate
''',
    'whole_array_lb0': '''    associate (c => a)
      c(0) = c(n) + 1.0
      c(1:2) = 2.0
      r = r + c(lbound(c, 1))
    end associate
''',
    'section_shift': '''    associate (c => a(2:n))
      c(1) = 7.0
      r = r + c(2)
    end associate
''',
    'section_lb': '''    associate (c => t%arr(1:3))
      c(1) = c(3) * 2.0
    end associate
''',
    'strided': '''    associate (c => b(1:n:2))
      c(2) = 3.0
    end associate
''',
    'element': '''    associate (c => b(2))
      c = c * 2.0
    end associate
''',
    'nested_component_array': '''    associate (c => t%s%v)
      c(2) = c(1) + 1.0
      c(3:4) = c(1:2)
    end associate
''',
    'nested_component_elem': '''    associate (c => t%s%v(2), m => t%s%m)
      c = c + 0.5
      m = m + 2
    end associate
''',
    'array_of_dt_elem': '''    associate (c => ts(2)%x, d => ts(1)%s%v)
      c = c + 1.0
      d(4) = c
    end associate
''',
    'expression': '''    associate (c => r * 2.0)
      loc = loc + c
    end associate
''',
    'sliced_use': '''    associate (c => b)
      c(2:3) = c(1:2) + 0.5
    end associate
''',
    'call_array': '''    associate (c => t%s%v)
      call addone(c)
      call addone(c(2:3))
    end associate
''',
    'call_scalar': '''    associate (c => b(2), d => t%x)
      call addtwo(c)
      call addtwo(d)
    end associate
''',
    'nested2': '''    associate (p => t%s)
      associate (q => p%v)
        q(1) = q(2) * 2.0
      end associate
      p%m = p%m + 1
    end associate
''',
    'nested3': '''    associate (p => ts(1))
      associate (q => p%s)
        associate (w => q%v)
          w(3) = w(3) + 4.0
        end associate
      end associate
    end associate
''',
    'shadow_outer': '''    associate (c => t%x)
      associate (c => r)
        c = c + 1.0
      end associate
      c = c * 2.0
    end associate
''',
    'shadow_local': '''    associate (loc => r)
      loc = loc + 2.0
    end associate
''',
    'same_selector_twice': '''    associate (c => t%x, d => t%x)
      c = c + 1.0
      r = r + d
    end associate
''',
    'loop_index_selector': '''    do i = 1, n
      associate (c => b(i))
        c = c + real(i)
      end associate
    end do
''',
    'around_loop': '''    associate (c => b, m => t%s%m)
      do i = 1, n
        c(i) = c(i) * 0.5
        m = m + i
      end do
    end associate
''',
    'row_of_matrix': '''    associate (row => t%m2(2, :), col => t%m2(:, 3))
      row(1) = row(4) + 1.0
      col(2) = col(3) * 2.0
      do i = 1, 3
        row(i) = row(i) + col(i)
      end do
    end associate
''',
    'mid_of_cube': '''    associate (mid => t%m2(:, :))
      associate (r2 => mid(3, :))
        r2(2) = r2(1) - 1.0
      end associate
      mid(1, 2) = mid(2, 1)
    end associate
''',
    'inner_independent': '''    associate (p => t%s)
      associate (q => ts(2)%s%v, u => p%m)
        q(1) = q(1) + real(u)
      end associate
    end associate
''',
}

DRIVER = '''program drv
  use amod
  implicit none
  integer :: n, g, e
  real, allocatable :: a(:), b(:)
  type(tt) :: t, u, ts(2)
  real :: r
  do g = 1, 3
    n = 3 + g
    allocate(a(0:n), b(n))
    do e = 0, n
      a(e) = real(e) * 0.5 - 1.0
    end do
    do e = 1, n
      b(e) = real(mod(e * g, 4)) * 0.25 + 1.0
    end do
    t%m2 = reshape((/ 1.0, 2.0, 3.0, 4.0, 5.0, 6.0, 7.0, 8.0, 9.0, 10.0, 11.0, 12.0 /), (/ 3, 4 /)) * 0.5
    t%x = 0.5 * real(g); t%arr = (/ 1.0, 2.0, 3.0, 4.0, 5.0 /); t%s%v = (/ 0.5, 1.5, -1.0, 2.0 /); t%s%m = g
    ts(1) = t; ts(2) = t; ts(2)%x = -1.5; ts(1)%s%v(3) = 8.0
    u = t; u%x = 2.5; u%arr = (/ -1.0, 0.5, 4.0, 1.5, 3.0 /); u%s%v = (/ 2.0, -0.5, 1.0, 4.0 /); u%s%m = 7
    r = real(g) - 0.5
    call kern(n, a, b, t, u, ts, r)
    write(*,'(A,I0)') 'G', g
    write(*,'(A,20(1X,ES14.7))') 'A', a
    write(*,'(A,20(1X,ES14.7))') 'B', b
    write(*,'(A,20(1X,ES14.7))') 'T', t%x, t%arr, t%s%v
    write(*,'(A,20(1X,ES14.7))') 'M2', t%m2
    write(*,'(A,20(1X,ES14.7))') 'UM2', u%m2
    write(*,'(A,I0)') 'TM', t%s%m
    write(*,'(A,20(1X,ES14.7))') 'U', u%x, u%arr, u%s%v
    write(*,'(A,I0)') 'UM', u%s%m
    write(*,'(A,20(1X,ES14.7))') 'TS1', ts(1)%x, ts(1)%arr, ts(1)%s%v
    write(*,'(A,20(1X,ES14.7))') 'TS2', ts(2)%x, ts(2)%arr, ts(2)%s%v
    write(*,'(A,I0,1X,I0)') 'TSM', ts(1)%s%m, ts(2)%s%m
    write(*,'(A,1X,ES14.7)') 'R', r
    deallocate(a, b)
  end do
end program drv
'''

XFORMS = [
    ('resolve', dict(start_depth=0)), ('resolve', dict(start_depth=1)), ('resolve', dict(start_depth=2)),
    ('merge', dict(max_parents=None)), ('merge', dict(max_parents=0)), ('merge', dict(max_parents=1)),
    ('merge+resolve', dict(max_parents=None, start_depth=0)), ('merge+resolve', dict(max_parents=1, start_depth=1)),
    ('trafo', dict(resolve_associates=True, merge_associates=True)),
    ('trafo', dict(resolve_associates=True, merge_associates=False, start_depth=1)),
]


# Staged histories (<= 3 steps): partial in-place resolution of the first statement inside the first ASSOCIATE,
# a SubstituteExpressions pass that redirects the kernel from `t` to `u` (rewrites selectors in place), merging, and
# full resolution.  The reference of a history containing 'sub' is the harness-side textual rewrite t% -> u%.
STAGED = [('partial', 'resolve'), ('sub', 'resolve'), ('partial', 'sub'), ('partial', 'sub', 'resolve'),
          ('merge', 'sub', 'resolve'), ('partial', 'merge', 'resolve')]


def _redirect(text):
    import re
    return re.sub(r'\bt%', 'u%', text)


def make_cases(d):
    names = [k for k in BLOCKS if k != 'base']
    cases = []
    for dev in deviations({k: [True] for k in names}, d):
        blocks = ['base'] + [k for k in names if k in dev]
        body = ''.join(BLOCKS[k] for k in blocks)
        text = HEAD + body + TAIL
        for xf, opts in XFORMS:
            oid = ','.join(f'{k}={v}' for k, v in sorted(opts.items()))
            cases.append(dict(id=f'{"+".join(blocks)}|{xf}({oid})', sources=[['amod.f90', text]], driver=DRIVER,
                              xform=xf, opts=opts, switches=sorted(dev)))
        if len(dev) <= 1:
            for steps in STAGED:
                ref = HEAD + (_redirect(body) if 'sub' in steps else body) + TAIL
                cases.append(dict(id=f'{"+".join(blocks)}|staged({">".join(steps)})', sources=[['amod.f90', ref]],
                                  loki_sources=[['amod.f90', text]], driver=DRIVER, xform='staged',
                                  opts=dict(steps=list(steps)), switches=sorted(dev)))
    return cases


def apply(case, files):
    from loki.transformations.sanitise.associates import (
        do_resolve_associates, do_merge_associates, AssociatesTransformation)
    xf, o = case['xform'], case['opts']
    for sf in files.values():
        for r in sf.all_subroutines:
            if xf == 'resolve':
                do_resolve_associates(r, start_depth=o['start_depth'])
            elif xf == 'merge':
                do_merge_associates(r, max_parents=o['max_parents'])
            elif xf == 'merge+resolve':
                do_merge_associates(r, max_parents=o['max_parents'])
                do_resolve_associates(r, start_depth=o['start_depth'])
            elif xf == 'trafo':
                AssociatesTransformation(**o).apply(r)
            elif xf == 'staged':
                if r.name.lower() != 'kern':
                    continue
                from loki import FindNodes, SubstituteExpressions, ir
                from loki.transformations.sanitise.associates import ResolveAssociatesTransformer
                for step in o['steps']:
                    if step == 'partial':
                        assocs = FindNodes(ir.Associate).visit(r.body)
                        inner = [n for n in assocs[0].body if not isinstance(n, (ir.Comment, ir.CommentBlock))]
                        ResolveAssociatesTransformer(inplace=True).visit(inner[0])
                    elif step == 'sub':
                        vmap = r.variable_map
                        r.body = SubstituteExpressions({vmap['t']: vmap['u']}).visit(r.body)
                    elif step == 'merge':
                        do_merge_associates(r, max_parents=None)
                    elif step == 'resolve':
                        do_resolve_associates(r)
                    else:
                        raise ValueError(step)
            else:
                raise ValueError(xf)


def worker(case):
    r = xform.run_case(case, apply, base=worker.base)
    r['id'] = case['id']
    return r


worker.base = None


def sigfn(results_by_id):
    def sig(case, r):
        # a failing single-block case explains multi-block cases that contain the block (same xform, same verdict)
        xf = case['id'].split('|', 1)[1]
        fam = case['xform'] if case['xform'] != 'staged' else 'staged(' + '>'.join(case['opts']['steps']) + ')'
        for sw in case['switches']:
            single = results_by_id.get(f'base+{sw}|{xf}')
            if single and single['verdict'] == r['verdict']:
                return f'{r["verdict"]} block={sw} xform={fam}'
        return f'{r["verdict"]} blocks={"+".join(case["switches"]) or "base"} xform={fam}'
    return sig


def run(ctx):
    d = 1 if ctx.quick else 2
    cases = make_cases(d)
    worker.base = str(ctx.scratch)
    ctx.reset_pool()
    results = xform.judge_cases(ctx, cases, worker)
    by_id = {r['id']: r for r in results}
    xform.summarise(ctx, cases, results, sigfn(by_id))
    ctx.cov.update(
        exhaustive=True, bound=dict(max_blocks=d, blocks=len(BLOCKS) - 1, xforms=len(XFORMS)),
        rule=f'all combinations of <= {d} of {len(BLOCKS) - 1} feature blocks added to the base kernel x {len(XFORMS)} '
             'transformation variants; 3 inputs per run; non-trivial = the transformation changed the generated code and '
             'the program still prints the original output',
        samples=[dict(id=cases[0]['id']), dict(id=cases[-1]['id'], text=cases[-1]['sources'][0][1])],
    )
    ctx.assumptions += ['gfortran -O0 -fcheck=bounds defines behaviour', 'only standard-conforming programs are generated']


def replay(case):
    r = xform.run_case(case, apply)
    if r['verdict'] == 'HARNESS':
        raise RuntimeError(r['detail'])
    return None if r['verdict'] in ('ok', 'unchanged-ok', 'refused') else f'{r["verdict"]}: {r["detail"]}'
