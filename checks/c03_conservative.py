"""C03  Conservative output reproduces unmodified source verbatim; after a local edit valid nodes keep their text and
the result behaves like the plain backend output of the same edited IR.

ENUM (programs x layout deviations) + SEQ (edit histories) + gfortran differential.

Streams
  MF   mini-Fortran kernels (vf/mfgen.py): the 74 statement/compound forms of base_alphabet() (thorough: plus the rest
       of stream(L=1, nest=1), i.e. every compound form x every inner statement).  Each kernel is printed by the harness
       printer into `module kmod` (type tt, routine ext, the kernel); only kernels that the MF interpreter finds
       fully defined on the 9-point input grid are kept, and the (deviated) original must print what the interpreter
       predicts (else HARNESS-ERROR) - so every layout rewrite is known to preserve behaviour.
  LAY  layout deviations = text-level rewrites of the printed module (the harness owns the text, so it knows the
       original text of every program unit): fused_end (enddo/endif), continuation (assignments, call argument lists,
       DO and IF headers split over `&` lines), spacing, upper (everything outside strings/comments upper-cased),
       left (no indentation), inline_comment (every statement line gets `! cN`), trailing_ws, blank_lines (blank and
       comment-only lines between statements).  No preprocessing anywhere.
  REPO every free-form Fortran file under $VERIF_REPO without `#` directives that Frontend.FP accepts (Part A only).
  Tiers: see work_items() - quick: all forms undeviated + compound forms and 9 representative simple forms under each
       single deviation, every single edit; thorough: + pairs of the structural deviations, ordered edit pairs,
       and the remaining L=1 kernels undeviated.

Part A (unmodified)   Sourcefile.from_source(text).to_fortran(conservative=True) == text, and for every program unit
                      (module, module procedure, internal procedure) unit.to_fortran(conservative=True) equals the
                      unit's original text as found by a harness scan of the text (outer white space stripped).
Part B (local edits)  on a fresh parse per history; history = one edit (quick) / also ordered pairs of edits
                      (thorough, undeviated layout):
                        noop       Transformer({}) over spec and body (the hint: Transformer._rebuild calls
                                   is_source_valid(node) instead of is_source_valid(node.source), so every node with
                                   children leaves the pass INVALID_CHILDREN)
                        rhs@k      SubstituteExpressions({rhs_k: rhs_k + 1}) on the body (k-th assignment, any depth)
                        replace@k  Transformer({assign_k: clone(rhs + 1, source=None)})
                        insert@k   Transformer({assign_k: (assign_k, `y = y + 0.5`)})
                        remove@k   Transformer({assign_k: None}) - only if the target is a dummy argument (defined on entry)
                        rename     SubstituteExpressions({k: kk}) over spec and body (declaration edit, INVALID_NODE path)
                        decl       Transformer({decl of the locals: clone(symbols + zz_new, source=None)}) on the spec
                      After the edit the harness marks the routine's own Source INVALID_CHILDREN (what
                      loki.lint.utils.Fixer does for enclosing units) and observes routine.to_fortran(conservative=True).
   (i)  every IR node of the edited routine whose source.status is still VALID (maximal ones, document order) occurs in
        the conservative text with exactly its recorded string (outer white space stripped; for an inline comment the
        comment part), in order                                                              -> valid-node-not-verbatim
   (ii) conservative text and plain fgen text of the *same edited IR* are both built (batched, harness module shell and
        harness PROGRAM) and must print the same on the 9-point grid; if the plain text itself does not build/run the
        edit is `edit-invalid` (counted, not judged)                    -> cons-compile-error / cons-run-error / output-differs
   (iii) a Python exception in the conservative backend                                        -> loki-exception
Signatures: (i) verdict + node class; compile errors: verdict + gfortran's first error message (identifiers and
numbers normalised); output-differs: verdict + edit kind + compound constructs of the kernel; exceptions: message.
The layout deviation is part of a signature only if the same kernel and history pass without it.
"""
import logging
import os
import re

from vf import mf, mfgen, mfbatch
from vf.explore import deviations, seeded_order

PROPERTY = 'C03'
LEVEL = 'exploration'
META = dict(
    engine='enum',
    technique='bounded-exhaustive kernels x layout deviations x edit histories; verbatim text comparison, valid-node containment '
              'in order, gfortran differential (conservative vs plain backend of the same edited IR)',
    level_text='every MF form (quick) / every L=1 kernel (thorough) x <= d layout deviations: unmodified conservative output is '
               'verbatim for file and every unit; every single local edit (thorough: ordered pairs) at every assignment '
               'position: still-valid nodes verbatim in order, conservative text compiles and prints like plain fgen; all '
               'parsable repo sources verbatim; exhaustive for the bound',
    level_note='unit spans come from a harness line scanner; enclosing-unit statuses are set by the harness as Fixer does; '
               'gfortran 12 -O0 -fcheck=bounds; MF interpreter cross-checks every (deviated) original',
)

CHUNK = 10
LAYOUTS = ['fused_end', 'continuation', 'spacing', 'upper', 'left', 'inline_comment', 'trailing_ws', 'blank_lines']


def _quiet():
    logging.disable(logging.CRITICAL)


# ------------------------------------------------------------------------------------------------ layout deviations
def split_code(line):
    """-> list of (kind, text): kind in code | str | comment"""
    out, i, n, cur = [], 0, len(line), ''
    while i < n:
        c = line[i]
        if c in '\'"':
            j = i + 1
            while j < n:
                if line[j] == c:
                    if j + 1 < n and line[j + 1] == c:
                        j += 2
                        continue
                    break
                j += 1
            if cur:
                out.append(('code', cur))
                cur = ''
            out.append(('str', line[i:j + 1]))
            i = j + 1
        elif c == '!':
            if cur:
                out.append(('code', cur))
                cur = ''
            out.append(('comment', line[i:]))
            i = n
        else:
            cur += c
            i += 1
    if cur:
        out.append(('code', cur))
    return out


def map_code(line, fn):
    return ''.join(fn(t) if k == 'code' else t for k, t in split_code(line))


def is_pragma_or_comment(line):
    return line.lstrip().startswith('!')


def dev_fused_end(lines):
    def fn(t):
        t = re.sub(r'\bend do\b', 'enddo', t)
        return re.sub(r'\bend if\b', 'endif', t)
    return [ln if is_pragma_or_comment(ln) else map_code(ln, fn) for ln in lines]


def dev_spacing(lines):
    def fn(t):
        ind = len(t) - len(t.lstrip(' '))
        body = t[ind:]
        body = body.replace(' = ', '   =  ').replace(', ', ' ,  ').replace(' + ', '  +   ')
        return t[:ind] + body
    return [ln if is_pragma_or_comment(ln) else map_code(ln, fn) for ln in lines]


def dev_upper(lines):
    return [ln if is_pragma_or_comment(ln) else map_code(ln, str.upper) for ln in lines]


def dev_left(lines):
    return [ln.lstrip(' ') for ln in lines]


def dev_inline_comment(lines):
    out = []
    for n, ln in enumerate(lines):
        if not ln.strip() or is_pragma_or_comment(ln) or ln.rstrip().endswith('&') or any(k == 'comment' for k, _ in split_code(ln)):
            out.append(ln)
        else:
            out.append(f'{ln}   ! c{n}')
    return out


def dev_trailing_ws(lines):
    return [ln + '  ' if ln.strip() else ln for ln in lines]


def dev_blank_lines(lines):
    out = []
    for n, ln in enumerate(lines):
        out.append(ln)
        if ln.rstrip().endswith('&') or (n + 1 < len(lines) and lines[n + 1].lstrip().startswith('&')):
            continue
        if n % 3 == 1:
            out.append('')
        if n % 4 == 2:
            out.append('      ! note ' + str(n))
    return out


def _split_top(code, seps):
    """index of the first separator (from seps) at parenthesis depth 0 after the first ` = ` / whole text"""
    depth = 0
    i = 0
    while i < len(code):
        c = code[i]
        if c == '(':
            depth += 1
        elif c == ')':
            depth -= 1
        elif depth == 0:
            for s in seps:
                if code.startswith(s, i):
                    return i, s
        i += 1
    return None


def dev_continuation(lines):
    out = []
    for ln in lines:
        parts = split_code(ln)
        if is_pragma_or_comment(ln) or len(parts) != 1 or parts[0][0] != 'code':
            out.append(ln)
            continue
        ind = ' ' * (len(ln) - len(ln.lstrip(' ')))
        body = ln.strip()
        low = body.lower()
        m = re.match(r'^(do\s+\w+\s*=\s*[^,]+,)\s*(.+)$', body, re.I)
        if m and not low.startswith('do while'):
            out += [f'{ind}{m.group(1)} &', f'{ind}    & {m.group(2)}']
            continue
        if re.match(r'^(else\s*)?if\s*\(.*\)\s*then$', low):
            out += [f'{ind}{body[:-4].rstrip()} &', f'{ind}    & then']
            continue
        if low.startswith('call ') and '(' in body:
            k = body.index('(')
            hit = _split_top(body[k + 1:], [', '])
            if hit:
                p = k + 1 + hit[0]
                out += [f'{ind}{body[:p + 1]} &', f'{ind}    & {body[p + 2:]}']
                continue
        if ' = ' in body and not re.match(r'^(if|do|where|forall|select|case|associate|print|write|read|open|close)\b', low):
            e = body.index(' = ') + 3
            hit = _split_top(body[e:], [' + ', ' - ', ' * '])
            if hit:
                p = e + hit[0]
                out += [f'{ind}{body[:p]} &', f'{ind}    &{body[p:]}']
                continue
        out.append(ln)
    return out


DEVS = dict(fused_end=dev_fused_end, continuation=dev_continuation, spacing=dev_spacing, upper=dev_upper, left=dev_left,
            inline_comment=dev_inline_comment, trailing_ws=dev_trailing_ws, blank_lines=dev_blank_lines)


def apply_layout(text, layout):
    lines = text.rstrip('\n').split('\n')
    for name in LAYOUTS:          # canonical order
        if name in layout:
            lines = DEVS[name](lines)
    return '\n'.join(lines) + '\n'


def layouts(d):
    return [tuple(k for k in LAYOUTS if k in dev) for dev in deviations({k: [True] for k in LAYOUTS}, d)]


# ------------------------------------------------------------------------------------------------ unit scanner
UNIT_START = re.compile(r'^\s*(?:(?:integer|real|logical|recursive|pure|elemental)\s+)*(module|subroutine|function)\s+(\w+)', re.I)
UNIT_END = re.compile(r'^\s*end\s*(module|subroutine|function)\s+(\w+)', re.I)


def unit_spans(text):
    """-> {lower name: original text of the unit} for units whose start and end lines pair up by name; None values for
    names that occur more than once or do not pair"""
    lines = text.split('\n')
    stack, spans, seen = [], {}, {}
    for n, ln in enumerate(lines):
        code = ''.join(t for k, t in split_code(ln) if k == 'code')
        m = UNIT_END.match(code)
        if m:
            name = m.group(2).lower()
            while stack and stack[-1][0] != name:
                stack.pop()
            if stack:
                _, s = stack.pop()
                seen[name] = seen.get(name, 0) + 1
                spans[name] = '\n'.join(lines[s:n + 1])
            continue
        m = UNIT_START.match(code)
        if m and not re.match(r'^\s*module\s+procedure\b', code, re.I):
            stack.append((m.group(2).lower(), n))
    return {k: v for k, v in spans.items() if seen.get(k) == 1}


def all_units(sf):
    out = []

    def rec(u):
        out.append(u)
        for r in getattr(u, 'subroutines', ()) or ():
            rec(r)
        for r in getattr(u, 'members', ()) or ():
            if r not in out:
                rec(r)
    for m in sf.modules:
        rec(m)
    for r in sf.routines:
        rec(r)
    return out


def part_a(text):
    """-> list of (what, detail) problems"""
    from loki import Sourcefile, Frontend
    sf = Sourcefile.from_source(text, frontend=Frontend.FP)
    probs = []
    out = sf.to_fortran(conservative=True)
    if out.rstrip('\n') != text.rstrip('\n'):
        probs.append(('file-not-verbatim', first_diff(text, out)))
    spans = unit_spans(text)
    n = 0
    for u in all_units(sf):
        want = spans.get(u.name.lower())
        if want is None:
            continue
        n += 1
        got = u.to_fortran(conservative=True)
        if got.strip() != want.strip():
            probs.append((f'unit-not-verbatim:{type(u).__name__}', f'{u.name}: ' + first_diff(want.strip(), got.strip())))
    return probs, n


def first_diff(a, b):
    al, bl = a.split('\n'), b.split('\n')
    for i, (x, y) in enumerate(zip(al, bl)):
        if x != y:
            return f'line {i + 1}: original {x!r} vs emitted {y!r}'
    return f'line count {len(al)} vs {len(bl)}; extra: {(al[len(bl):] or bl[len(al):])[0]!r}'


# ------------------------------------------------------------------------------------------------ edits
def assignments(routine):
    from loki import FindNodes, ir
    return [a for a in FindNodes(ir.Assignment).visit(routine.body)]


def edit_menu(routine):
    """JSON-able edits applicable to the freshly parsed routine"""
    from loki.types import BasicType
    menu = [dict(kind='noop'), dict(kind='rename'), dict(kind='decl')]
    for k, a in enumerate(assignments(routine)):
        dt = getattr(getattr(a.lhs, 'type', None), 'dtype', None)
        numeric = dt in (BasicType.INTEGER, BasicType.REAL)
        if numeric:
            menu.append(dict(kind='rhs', k=k))
            menu.append(dict(kind='replace', k=k))
        menu.append(dict(kind='insert', k=k))
        root = a.lhs
        while getattr(root, 'parent', None) is not None:
            root = root.parent
        if str(getattr(root, 'name', '')).lower() in ('p', 'q', 'x', 'y', 'lg', 'ia', 'ib', 'ra', 't'):
            menu.append(dict(kind='remove', k=k))
    return menu


def apply_edit(routine, edit):
    """-> True if the edit did something"""
    from loki import Transformer, SubstituteExpressions, FindNodes, FindVariables, ir
    from loki.expression import symbols as sym
    kind = edit['kind']
    if kind == 'noop':
        routine.spec = Transformer({}).visit(routine.spec)
        routine.body = Transformer({}).visit(routine.body)
        return True
    if kind == 'rename':
        vmap = {}
        for v in FindVariables(unique=False).visit(routine.ir):
            if v.name.lower() == 'k' and getattr(v, 'parent', None) is None:
                vmap[v] = v.clone(name='kk')
        if not vmap:
            return False
        routine.spec = SubstituteExpressions(vmap).visit(routine.spec)
        routine.body = SubstituteExpressions(vmap).visit(routine.body)
        return True
    if kind == 'decl':
        for decl in FindNodes(ir.VariableDeclaration).visit(routine.spec):
            if any(s.name.lower() == 'i' for s in decl.symbols) and decl.symbols[0].type.intent is None:
                new = sym.Variable(name='zz_new', type=decl.symbols[0].type.clone(), scope=routine)
                routine.spec = Transformer({decl: decl.clone(symbols=decl.symbols + (new,), source=None)}).visit(routine.spec)
                return True
        return False
    asg = assignments(routine)
    if edit['k'] >= len(asg):
        return False
    a = asg[edit['k']]
    plus0 = sym.Sum((a.rhs, sym.IntLiteral(1)))   # changes the value: a stale source text is observable
    if kind == 'rhs':
        routine.body = SubstituteExpressions({a.rhs: plus0}).visit(routine.body)
    elif kind == 'replace':
        routine.body = Transformer({a: a.clone(rhs=plus0, source=None)}).visit(routine.body)
    elif kind == 'insert':
        y = routine.variable_map['y']
        new = ir.Assignment(lhs=y, rhs=sym.Sum((y, sym.FloatLiteral('0.5'))))
        routine.body = Transformer({a: (a, new)}).visit(routine.body)
    elif kind == 'remove':
        routine.body = Transformer({a: None}).visit(routine.body)
    else:
        raise ValueError(kind)
    return True


def edit_name(e):
    return e['kind'] + (f'@{e["k"]}' if 'k' in e else '')


def valid_nodes(routine):
    """maximal IR nodes (document order) whose source is VALID: [(class name, string)]"""
    from loki import ir
    from loki.frontend.source import SourceStatus
    from loki.tools import flatten
    out = []

    def rec(o):
        if isinstance(o, (tuple, list)):
            for c in o:
                rec(c)
            return
        if not isinstance(o, ir.Node):
            return
        src = getattr(o, 'source', None)
        if src is not None and src.status == SourceStatus.VALID and src.string:
            text = src.string
            if isinstance(o, ir.Comment) and '!' in text:
                # an inline comment records the whole line; the backend (by design) re-emits the comment part only
                text = '!' + text.split('!', 1)[1]
            out.append((type(o).__name__ + ('(inline)' if getattr(o, 'inline', False) else ''), text))
            return
        for c in flatten(o.children):
            rec(c)
    rec(routine.spec)
    rec(routine.body)
    return out


def constructs(routine):
    """compound node classes of the routine body (the constructs the backend may have to re-assemble)"""
    from loki import ir, FindNodes
    names = set()
    for o in FindNodes((ir.Loop, ir.WhileLoop, ir.Conditional, ir.MultiConditional, ir.MaskedStatement, ir.Associate,
                        ir.Forall)).visit(routine.body):
        names.add(type(o).__name__ + ('(inline)' if getattr(o, 'inline', False) else ''))
    return sorted(names)


def run_history(text, kname, history):
    """fresh parse, apply the edits, -> dict(status, cons, plain, problems, constructs)"""
    from loki import Sourcefile, Frontend
    sf = Sourcefile.from_source(text, frontend=Frontend.FP)
    routine = sf[kname]
    done = [apply_edit(routine, e) for e in history]
    if not all(done):
        return dict(status='not-applicable')
    if routine.source is not None:
        routine.source.invalidate(children=True)
    plain = routine.to_fortran()
    try:
        cons = routine.to_fortran(conservative=True)
    except Exception as ex:  # pylint: disable=broad-except
        import traceback
        tb = traceback.format_exc().strip().splitlines()
        where = next((ln.strip() for ln in reversed(tb) if ln.strip().startswith('File "') and '/loki/' in ln), '')
        where = re.sub(r'File ".*?/(loki/[^"]*)", line \d+, in (\w+)', r'\1:\2', where)
        return dict(status='loki-exception', detail=f'{type(ex).__name__}: {str(ex)[:200]} @ {where}', constructs=constructs(routine))
    problems = []
    pos = 0
    for cls, s in valid_nodes(routine):
        # outer white space is position, not text: a node re-indented as a whole still counts as verbatim
        at = cons.find(s.strip(), pos)
        if at < 0:
            problems.append((cls, s))
        else:
            pos = at + len(s.strip())
    return dict(status='ok', cons=cons, plain=plain, problems=problems, constructs=constructs(routine))


# ------------------------------------------------------------------------------------------------ batch building
def shell(routines):
    head = mf.module_text('kmod', [])[0].rstrip('\n').split('\n')
    assert head[-1].startswith('end module')
    return '\n'.join(head[:-1] + [t.rstrip('\n') for t in routines] + [head[-1]]) + '\n'


def rename_routine(text, kname, new):
    return re.sub(rf'\b{kname}\b', new, text, flags=re.I)


def build_many(named_texts, base):
    """named_texts: [(name, routine text)] -> {name: ('ok', outputs) | ('compile'|'run', err)}.
    One build for the whole batch; on a compile error the routines whose line ranges contain error locations are each
    confirmed alone with -fsyntax-only (an unterminated block can push errors into the next routine) and the batch is
    rebuilt without the confirmed ones; anything else falls back to bisection."""
    from vf import gf
    res = {}
    todo = list(named_texts)
    for _ in range(4):
        if not todo:
            return res
        head = mf.module_text('kmod', [])[0].rstrip('\n').split('\n')
        lines = list(head[:-1])
        ranges = []
        for name, t in todo:
            tl = t.rstrip('\n').split('\n')
            ranges.append((name, len(lines) + 1, len(lines) + len(tl)))
            lines += tl
        lines.append(head[-1])
        ok, stage, data = mfbatch.build_and_run('\n'.join(lines) + '\n', [n for n, _ in todo], base=base)
        if ok:
            for name, _ in todo:
                res[name] = ('ok', {g: v for (kn, g), v in data.items() if kn == name})
            return res
        if stage != 'compile':
            break
        errs = {}
        for m in re.finditer(r'kmod\.f90:(\d+):\d+:\n(?:.*\n){0,6}?(Error|Fatal Error): (.*)', data):
            ln = int(m.group(1))
            for name, a, b in ranges:
                if a <= ln <= b:
                    errs.setdefault(name, m.group(3))
        if not errs:
            break
        confirmed = []
        texts = dict(todo)
        for name in errs:
            with gf.Build(base) as bld:
                bld.write('kmod.f90', shell([texts[name]]))
                ok1, err1 = bld.fsyntax(['kmod.f90'], flags=['-fcheck=bounds'])
            if not ok1:
                m1 = re.search(r'Error: (.*)', err1)
                res[name] = ('compile', f'first error: {m1.group(1) if m1 else "?"}\n' + err1[-1200:])
                confirmed.append(name)
        if not confirmed:
            break
        todo = [(n, t) for n, t in todo if n not in confirmed]
    if todo:
        res.update(mfbatch.run_batch_bisect(todo, lambda ks: shell([t for _, t in ks]), base=base))
    return res


def histories(menu, pairs, only=None):
    """single edits (optionally only some kinds at position 0); pairs: every ordered pair of edits taken from the
    whole-routine edits and the edits at the first assignment"""
    menu = [e for e in menu if only is None or (e['kind'] in only and e.get('k', 0) == 0)]
    hs = [[e] for e in menu]
    if pairs:
        pos = [e for e in menu if e['kind'] != 'noop' and e.get('k', 0) == 0]
        for a in pos:
            for b in pos:
                if a is b or (a.get('k') is not None and b.get('k') is not None):
                    continue
                hs.append([a, b])
    return hs


def judge_chunk(chunk):
    """chunk: list of dict(kid, name, body, outs, layout, pairs) -> list of records"""
    _quiet()
    base = judge_chunk.base
    recs = []
    items = []
    for it in chunk:
        kname = it['kid']
        text0 = mf.module_text('kmod', [(kname, it['body'])])[0]
        text = apply_layout(text0, it['layout'])
        rec = dict(kid=kname, name=it['name'], layout=list(it['layout']), text=text, a=[], b=[], units=0)
        recs.append(rec)
        try:
            probs, n = part_a(text)
            rec['a'] = probs
            rec['units'] = n
        except Exception as ex:  # pylint: disable=broad-except
            rec['a'] = [('loki-exception-parse', f'{type(ex).__name__}: {str(ex)[:200]}')]
            continue
        spans = unit_spans(text)
        items.append((rec, it, spans.get(kname.lower())))
    # originals (deviated) must behave as the interpreter predicts
    origs = build_many([(rec['kid'], span) for rec, it, span in items if span], base)
    for rec, it, span in items:
        st = origs.get(rec['kid'])
        if not span or st is None or st[0] != 'ok':
            rec['harness'] = f'deviated original does not build/run: {st[1][-300:] if st else "unit span not found"}'
            continue
        bad = next((g for g, e in enumerate(it['outs'], start=1) if st[1].get(g) != e), None)
        if bad is not None:
            rec['harness'] = f'deviated original prints {st[1].get(bad)} on input {bad}, interpreter says {it["outs"][bad - 1]}'
    # edits
    plain_b, cons_b, pend = [], [], []
    for rec, it, span in items:
        if rec.get('harness'):
            continue
        from loki import Sourcefile, Frontend
        routine = Sourcefile.from_source(rec['text'], frontend=Frontend.FP)[rec['kid']]
        menu = edit_menu(routine)
        for n, h in enumerate(histories(menu, it['pairs'], it.get('only'))):
            hname = '+'.join(edit_name(e) for e in h)
            try:
                r = run_history(rec['text'], rec['kid'], h)
                if r['status'] == 'loki-exception':
                    r = run_history(rec['text'], rec['kid'], h)   # transient failures of the shared machine do not repeat
            except Exception as ex:  # pylint: disable=broad-except
                rec['b'].append(dict(edit=hname, history=h, verdict='edit-raises', detail=f'{type(ex).__name__}: {str(ex)[:160]}'))
                continue
            if r['status'] == 'not-applicable':
                continue
            e = dict(edit=hname, history=h, verdict='ok', detail='', constructs=r.get('constructs', []))
            rec['b'].append(e)
            if r['status'] == 'loki-exception':
                e.update(verdict='loki-exception', detail=r['detail'])
                continue
            if r['problems']:
                cls, s = r['problems'][0]
                e.update(verdict='valid-node-not-verbatim', node=cls,
                         detail=f'{cls} still VALID with source {s[:120]!r} is not in the conservative text '
                                f'(after the preceding valid nodes); {len(r["problems"])} such node(s)')
            vn = f'{rec["kid"]}e{n:03d}'
            plain_b.append((vn, rename_routine(r['plain'], rec['kid'], vn)))
            cons_b.append((vn, rename_routine(r['cons'], rec['kid'], vn)))
            pend.append((vn, e, r))
    pres = build_many(plain_b, base) if plain_b else {}
    good = [(vn, t) for vn, t in cons_b if pres.get(vn, ('x',))[0] == 'ok']
    cres = build_many(good, base) if good else {}
    for vn, e, r in pend:
        p = pres.get(vn)
        if p is None or p[0] != 'ok':
            if e['verdict'] == 'ok':
                e.update(verdict='edit-invalid', detail=f'plain fgen text of the edited IR does not {p[0] if p else "build"}')
            continue
        c = cres.get(vn)
        if e['verdict'] != 'ok':
            continue
        if c[0] == 'compile':
            e.update(verdict='cons-compile-error', detail=c[1][-500:], cons=r['cons'])
        elif c[0] == 'run':
            e.update(verdict='cons-run-error', detail=c[1][-300:], cons=r['cons'])
        elif c[1] != p[1]:
            g = next(k for k in sorted(p[1]) if c[1].get(k) != p[1][k])
            e.update(verdict='output-differs', detail=f'input #{g}: plain prints {p[1][g]}, conservative prints {c[1].get(g)}',
                     cons=r['cons'])
    for rec in recs:
        for e in rec['b']:
            e.pop('cons', None) if e['verdict'] == 'ok' else None
    return recs


judge_chunk.base = None


# ------------------------------------------------------------------------------------------------ repo sources
def repo_files():
    root = os.environ.get('VERIF_REPO', '/repo')
    out = []
    for dp, dn, fn in os.walk(root):
        dn[:] = [d for d in dn if d not in ('.git', 'build', '__pycache__', 'node_modules')]
        for f in sorted(fn):
            if f.endswith(('.f90', '.F90')):
                out.append(os.path.join(dp, f))
    return sorted(out)


def judge_repo_file(path):
    _quiet()
    try:
        text = open(path, errors='replace').read()
    except OSError as ex:
        return dict(path=path, status='unreadable', detail=str(ex))
    if any(ln.lstrip().startswith('#') for ln in text.split('\n')):
        return dict(path=path, status='skipped-preprocessor')
    try:
        probs, n = part_a(text)
    except Exception as ex:  # pylint: disable=broad-except
        return dict(path=path, status='not-parsed', detail=f'{type(ex).__name__}: {str(ex)[:100]}')
    return dict(path=path, status='judged', problems=probs, units=n)


# ------------------------------------------------------------------------------------------------ run
def kernels(quick):
    grid = mf.input_grid()
    src = mfgen.base_alphabet() if quick else list(mfgen.stream(1, 1))
    out = []
    for name, body in src:
        outs = mf.valid_on_grid(body, grid)
        if outs is not None:
            out.append((name, body, outs))
    return out


SIMPLE_REPS = ('p=q+2', 't%v(2)=t%v(1)+x', 'ia(1:n)=p', 'call ext(p,k,q,ia(1))', 'call helper(q+1,p)', 'p=fsq(q)+fsq(2)',
               'print', 'iounit', 'comment')
STRUCTURAL = ('fused_end', 'continuation', 'inline_comment', 'blank_lines')


def work_items(quick):
    """quick   : every L=1 form x undeviated layout x every single edit;
                 compound forms + SIMPLE_REPS x each of the 8 layout deviations x every single edit.
       thorough: + compound forms x every pair of the STRUCTURAL deviations x every single edit;
                 + every L=1 form, undeviated: ordered pairs of edits (whole-routine edits and edits at the first assignment);
                 + the remaining kernels of stream(L=1, nest=1), undeviated, edits noop / rhs@0 / remove@0."""
    grid = mf.input_grid()
    simple = {n for n, _ in mfgen.simple_forms()}
    base = [(n, b) for n, b in mfgen.base_alphabet()]
    items = []

    def add(name, body, outs, lay, pairs=False, only=None):
        items.append(dict(kid=f'kq{len(items):05d}', name=name, body=body, outs=outs, layout=lay, pairs=pairs, only=only))

    valid = []
    for name, body in base:
        outs = mf.valid_on_grid(body, grid)
        if outs is not None:
            valid.append((name, body, outs))
    for name, body, outs in valid:
        add(name, body, outs, (), pairs=not quick)
        if name not in simple or name in SIMPLE_REPS:
            for lay in layouts(1)[1:]:
                add(name, body, outs, lay)
    if not quick:
        for name, body, outs in valid:
            if name not in simple:
                for lay in layouts(2):
                    if len(lay) == 2 and set(lay) <= set(STRUCTURAL):
                        add(name, body, outs, lay)
        seen = {repr(b) for _, b, _ in valid}
        for name, body in mfgen.stream(1, 1):
            if repr(body) in seen:
                continue
            outs = mf.valid_on_grid(body, grid)
            if outs is not None:
                add(name, body, outs, (), only=('noop', 'rhs', 'remove'))
    return items


def norm_msg(detail):
    m = re.search(r'first error: (.*)', detail) or re.search(r'Error: (.*)', detail)
    msg = m.group(1) if m else 'unknown'
    msg = re.sub(r'[\u2018\u2019\'"`][^\u2018\u2019\'"`]*[\u2018\u2019\'"`]', '_', msg)
    msg = re.sub(r'\d+', 'N', msg)
    msg = re.sub(r'Unexpected (.*) statement in CONTAINS section', 'Unexpected statement in CONTAINS section', msg)
    return re.sub(r'\s+', ' ', msg).strip()[:90]


def core_sig(e):
    """what failed, without layout"""
    v = e['verdict']
    kinds = '+'.join(x['kind'] for x in e['history'])
    if v == 'valid-node-not-verbatim':
        return f'{v} node={e["node"]}'
    if v == 'cons-compile-error':
        return f'{v} msg={norm_msg(e["detail"])}'
    if v == 'loki-exception':
        return f'{v} {re.sub(chr(92) + "s+", " ", e["detail"])[:100]}'
    return f'{v} edit={kinds} construct={"+".join(e.get("constructs") or []) or "none"}'


def run(ctx):
    items = work_items(ctx.quick)
    order = seeded_order(items, ctx.seed)
    chunks = [order[s:s + CHUNK] for s in range(0, len(order), CHUNK)]
    judge_chunk.base = str(ctx.scratch)
    ctx.reset_pool()
    recs = [r for res in ctx.pmap(judge_chunk, chunks, chunksize=1) for r in res]
    recs.sort(key=lambda r: r['kid'])
    files = repo_files()
    rres = ctx.pmap(judge_repo_file, files, chunksize=4)
    if os.environ.get('VERIF_DUMP'):
        import json
        with open(os.environ['VERIF_DUMP'], 'w') as fh:
            json.dump(dict(recs=recs, repo=rres), fh)
    harness = [r for r in recs if r.get('harness')]
    ctx.require(not harness, f'{len(harness)} deviated originals are broken, first: {harness[0]["name"] if harness else ""} '
                             f'{harness[0]["layout"] if harness else ""}: {harness[0]["harness"] if harness else ""}')
    judge(ctx, recs, rres, files)


def judge(ctx, recs, rres, files):
    """signatures: what fails without any layout deviation (same kernel, same history) explains the deviated layouts;
    a failing single deviation explains a pair of deviations; a failing single edit explains an edit pair; for compile
    errors that need a deviation the deviation is the key (gfortran's first message varies with the statement that
    happens to follow the damage): plus the kernel's constructs unless the plainest kernel (p=q+2) fails the same way."""
    def vkey(e):
        return core_sig(e) if e['verdict'] != 'cons-compile-error' else 'cons-compile-error'

    a_plain = {(r['name'], w) for r in recs if not r['layout'] for w, _ in r['a']}
    a_one = {(r['name'], r['layout'][0], w) for r in recs if len(r['layout']) == 1 for w, _ in r['a']}
    b_plain = {(r['name'], e['edit'], core_sig(e)) for r in recs if not r['layout'] for e in r['b'] if e['verdict'] not in OKV}
    b_one = {(r['name'], e['edit'], r['layout'][0], vkey(e)) for r in recs if len(r['layout']) == 1 for e in r['b']
             if e['verdict'] not in OKV}
    plainest = {(r['layout'][0], '+'.join(x['kind'] for x in e['history'])) for r in recs
                if r['name'] == 'p=q+2' and len(r['layout']) == 1 for e in r['b'] if e['verdict'] == 'cons-compile-error'}
    single_edit = {(r['name'], tuple(r['layout']), e['edit']): e for r in recs for e in r['b']
                   if '+' not in e['edit'] and e['verdict'] not in OKV}
    mf_whats = {w for r in recs for w, _ in r['a']}
    tally, judged, units = {}, 0, 0
    for r in recs:
        units += r['units']
        for what, detail in r['a']:
            lay = ''
            if r['layout'] and (r['name'], what) not in a_plain:
                cul = [l for l in r['layout'] if (r['name'], l, what) in a_one] if len(r['layout']) > 1 else []
                lay = ' layout=' + (cul[0] if cul else '+'.join(r['layout']))
            ctx.violation(f'unmodified {what}{lay}', dict(part='A', text=r['text'], name=r['name'], layout=r['layout']), detail)
        for e in r['b']:
            tally[e['verdict']] = tally.get(e['verdict'], 0) + 1
            if e['verdict'] in OKV:
                judged += e['verdict'] == 'ok'
                continue
            ee = e
            if len(e['history']) == 2:
                # a failing single edit explains a pair containing it
                for x in e['history']:
                    e1 = single_edit.get((r['name'], tuple(r['layout']), edit_name(x)))
                    if e1 and e1['verdict'] == e['verdict']:
                        ee = e1
                        break
            core = core_sig(ee)
            lay = ''
            if r['layout'] and (r['name'], ee['edit'], core) not in b_plain:
                cul = [l for l in r['layout'] if (r['name'], ee['edit'], l, vkey(ee)) in b_one] if len(r['layout']) > 1 else []
                culprit = cul[0] if cul else '+'.join(r['layout'])
                lay = ' layout=' + culprit
                if ee['verdict'] == 'cons-compile-error':
                    kinds = '+'.join(x['kind'] for x in ee['history'])
                    core = 'cons-compile-error'
                    if (culprit, kinds) not in plainest:
                        core += f' construct={"+".join(ee.get("constructs") or []) or "none"}'
            ctx.violation(f'{core}{lay}',
                          dict(part='B', text=r['text'], kid=r['kid'], name=r['name'], layout=r['layout'], history=e['history']),
                          e['detail'])
    rt = {}
    for rr in rres:
        rt[rr['status']] = rt.get(rr['status'], 0) + 1
        for what, detail in rr.get('problems', []):
            rel = os.path.relpath(rr['path'], os.environ.get('VERIF_REPO', '/repo'))
            where = '' if what in mf_whats else f' repo-file={rel}'
            ctx.violation(f'unmodified {what}{where}', dict(part='R', path=rel), detail)
        units += rr.get('units', 0)
    ctx.require(rt.get('judged', 0) >= 20, f'vacuous: only {rt.get("judged", 0)} repository sources judged ({rt})')
    ctx.require(judged >= 200, f'vacuous: only {judged} edit histories judged ok ({tally})')
    nk = len({r['name'] for r in recs})
    quick = ctx.quick
    ctx.cov.update(
        evaluations=len(recs) + sum(len(r['b']) for r in recs) + len(files), distinct_nontrivial=judged,
        programs=len(recs), kernels=nk, edit_histories=sum(len(r['b']) for r in recs), edit_verdicts=tally,
        units_compared=units, repo_files=rt, exhaustive=True,
        bound=dict(kernels='L=1 forms (base_alphabet)' if quick else 'L=1 forms + stream(L=1, nest=1)',
                   layout_deviations=1 if quick else 2, edit_history_length=1 if quick else 2, inputs=len(mf.input_grid())),
        rule=work_items.__doc__ + ' non-trivial = histories whose plain-backend text builds and runs and whose conservative '
             'text passed (i) and (ii)',
        samples=[dict(name=recs[0]['name'], layout=recs[0]['layout'], text=recs[0]['text']),
                 dict(name=recs[-1]['name'], layout=recs[-1]['layout'], edits=[e['edit'] for e in recs[-1]['b']][:12])],
    )
    ctx.assumptions += ['gfortran 12.2 -O0 -fcheck=bounds defines program behaviour',
                        'the harness marks the edited routine\'s own Source INVALID_CHILDREN before emitting (as Fixer does for enclosing units)',
                        'unit texts come from a harness scan for (module|subroutine|function) <name> ... end <kind> <name> lines']


OKV = ('ok', 'edit-invalid', 'edit-raises')


def replay(case):
    _quiet()
    if case.get('part') == 'R':
        rr = judge_repo_file(os.path.join(os.environ.get('VERIF_REPO', '/repo'), case['path']))
        return '; '.join(f'{w}: {d}' for w, d in rr.get('problems', [])) or None
    if case.get('part') == 'A':
        probs, _ = part_a(case['text'])
        return '; '.join(f'{w}: {d}' for w, d in probs) or None
    kid = case['kid']
    r = run_history(case['text'], kid, case['history'])
    if r['status'] == 'loki-exception':
        return r['detail']
    if r['status'] != 'ok':
        return None
    if r['problems']:
        cls, s = r['problems'][0]
        return f'valid-node-not-verbatim: {cls} {s[:120]!r}'
    res_p = build_many([(kid, r['plain'])], None)[kid]
    if res_p[0] != 'ok':
        return None
    res_c = build_many([(kid, r['cons'])], None)[kid]
    if res_c[0] != 'ok':
        return f'cons-{res_c[0]}-error: {res_c[1][-400:]}'
    if res_c[1] != res_p[1]:
        return 'output-differs: conservative text prints differently from plain fgen text'
    return None
