"""vf/batchrun.py -- shared driver code for the batch-scheduler checks (C21, C22, C23; usable by C24/C25).

    Workdir(scratch)                 per-process cache of projects written below ctx.scratch
    staged_run(ctx, fn, units, ...)  fan a list of work units out in slices, honouring a wall-clock cap
    bucket_and_shrink(ctx, ...)      one root cause shows up as thousands of failing cases: bucket them by
                                     (failure class, case attributes), shrink the smallest case of every bucket
                                     with a signature-preserving greedy shrinker, name the bucket by the core
    attr_key(case)                   the attributes of a case that go into a bucket key
"""
import hashlib
import json
import os
import shutil
from pathlib import Path

from vf import batchgen as bg
from vf.explore import shrink


class Workdir:
    """Projects are written once per worker process below `base` (ctx.scratch, /dev/shm)."""

    def __init__(self, base):
        self.base = Path(base)
        self._cache = {}

    def root_for(self, project):
        key = hashlib.sha1(project.dedupe_key().encode()).hexdigest()[:16]
        d = self.base / f'w{os.getpid()}' / key
        if key not in self._cache:
            if len(self._cache) > 64:
                for k, old in list(self._cache.items())[:32]:
                    shutil.rmtree(old, ignore_errors=True)
                    del self._cache[k]
            shutil.rmtree(d, ignore_errors=True)
            project.write(d)
            self._cache[key] = d
        return d


def staged_run(ctx, fn, units, deadline, slice_size=None):
    """Run fn over units on all cores in slices; stop dispatching once ctx.elapsed() > deadline.
    Returns (results, completed: bool, done: int)."""
    units = list(units)
    if slice_size is None:
        slice_size = max(ctx.nproc * 2, 16)
    out = []
    k = 0
    while k < len(units):
        if ctx.elapsed() > deadline:
            return out, False, k
        part = units[k:k + slice_size]
        out.extend(ctx.pmap(fn, part, chunksize=1))
        k += len(part)
    return out, True, k


def time_scale():
    """VERIF_TIME_SCALE=<float> stretches the wall-clock caps of the batch checks (for a heavily loaded machine;
    default 1: 15 min quick / 60 min thorough)."""
    try:
        return max(0.1, float(os.environ.get('VERIF_TIME_SCALE', '1') or 1))
    except ValueError:
        return 1.0


def stage_deadline(ctx):
    """Safety net only: the stage lists are sized by CPU cost for an idle 16-core machine (quick: well below 2 min of
    wall time).  No further work is dispatched 15 min (quick) / 60 min (thorough) after the start of the check; a run
    that hits this reports the incomplete stage and exhaustive=false."""
    return max((900 if ctx.quick else 3600) * time_scale(), ctx.elapsed() + 60)


def attr_key(case):
    """Attributes of a case that may carry a root cause (everything except the call DAG, the targets of
    config entries and the discovery order)."""
    cn = bg.norm_case(case)
    p = cn['p']
    sw = []
    for s, v in cn['c']:
        form = v[-1] if isinstance(v, list) and v and isinstance(v[-1], str) else ''
        op = v[0] if s == 'seed' else ''
        sw.append(f'{s}:{op}{form}')
    return json.dumps([p['layout'], p['imp'], sorted(f[0] + (str(f[1]) if f[0] == 'usespell' else '') for f in p['features']),
                       sorted(c[1].split('@')[0] + ':' + c[0][0] for c in p['casing']), sorted(sw)])


def bucket_and_shrink(ctx, failures, shrink_fn):
    """failures: list of (failclass, case, detail).  `shrink_fn` is a top-level function of the check module
    taking (failclass, case) and returning (core_case, core_failclass, detail); it is run through ctx.pmap.
    Returns list of (signature, case, detail) with the shrunk core of every signature first."""
    buckets = {}
    for fc, case, det in failures:
        buckets.setdefault((fc, attr_key(case)), []).append((case, det))
    reps = []
    for (fc, ak), lst in sorted(buckets.items()):
        lst.sort(key=lambda cd: bg.case_size(cd[0]))
        reps.append((fc, lst[0][0]))
    cores = ctx.pmap(shrink_fn, reps, chunksize=1) if reps else []
    out_first, out_rest = {}, []
    for ((fc, ak), lst), (core, core_fc, core_det) in zip(sorted(buckets.items()), cores):
        sig = signature_of(core_fc, core)
        if sig not in out_first or bg.case_size(core) < bg.case_size(out_first[sig][1]):
            out_first[sig] = (sig, core, core_det)
        for case, det in lst:
            out_rest.append((sig, case, det))
    return list(out_first.values()) + out_rest, len(buckets)


def family(failclass):
    """Failure class without the parts that vary between consequences of one root cause."""
    import re
    return re.sub(r' via=\S*', '', failclass).strip()


def core_attrs(core):
    """The attributes a minimal failing case still needs: layout (unless free-standing files), import style
    (unless ONLY), feature kinds, configuration switches with their entry form (targets and default/routine level dropped), whether a
    non-sorted discovery order is needed, case-deviation kinds, extra options."""
    cn = bg.norm_case(core)
    p = cn['p']
    a = []
    if p['layout'] != 'free':
        a.append(f'layout={p["layout"]}')
    if p['imp'] != 'only':
        a.append(f'import={p["imp"]}')
    for f in sorted({f[0] + (str(f[1]) if f[0] == 'usespell' else '') for f in p['features']}):
        a.append(f'feature={f}')
    for s, v in cn['c']:
        form = v[-1] if isinstance(v, list) and v and isinstance(v[-1], str) and v[-1] in bg.FORM_WEIGHT else ''
        a.append(f'config={s.split("@")[0]}' + (f':{form}' if form and form != 'plain' else ''))
    if cn['o'] is not None and cn['o'] != sorted(cn['o']):
        a.append('discovery-order=not-sorted')
    for c in sorted({c[0][0] + ':' + c[1].split('@')[0] for c in p['casing']}):
        a.append(f'case={c}')
    for k, v in sorted((core.get('opt') or {}).items()):
        if v and k != 'pipeline':
            a.append(f'option={k}')
        elif k == 'pipeline' and v != 'write':
            a.append(f'pipeline={v}')
    return sorted(set(a))


def signature_of(core_failclass, core):
    return f'{family(core_failclass)} | ' + ' '.join(core_attrs(core))


def greedy_shrink(failclass, case, fails_as, budget=150):
    """Greedy reduction of one failing case to a minimal failing case ("cause-minimal": a step is accepted if the
    smaller case still violates the property, whatever the symptom).  The signature is then computed from the
    core alone (its own symptom + the attributes it still needs), so the same cause reached through a bigger input,
    another tier, another seed or a capped run gets the same signature.  Price: a case that contains the trigger
    of a listed finding *and* a second defect slides to the listed one; the second defect has to show in a case
    without that trigger (the finding-free part of the space is judged without any suppression)."""
    def still(c):
        try:
            return fails_as(c) is not None
        except Exception:      # a candidate the harness cannot even set up is not a smaller witness
            return False
    return shrink(bg.norm_case(case), still, bg.smaller_cases, budget=budget)
