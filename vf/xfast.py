"""Cheaper builds for group-T checks with many small source files per case (C33, C34).

`run_case` is `vf.xform.run_case` with one difference: every build (original and transformed) hands gfortran
ONE file that is the concatenation `extra + sources + driver` (same order as the separate files would have on
the command line) instead of one file per unit.  One compiler process instead of 4-6 per build; verdicts,
flags and output comparison are exactly those of vf.xform.  The only semantic difference is that gfortran
sees all program units of a case at once and can therefore also diagnose inconsistent calls to *external*
procedures defined in another file of the case - which is a genuine defect of the transformed code whenever
it happens (the original programs are checked the same way and must build, else HARNESS).

The swap of `xform.build_run` is local to the calling (worker) process and undone on return.
"""
from vf import gf, xform


def merged_build_run(sources, driver, extra=(), base=None, flags=xform.FLAGS, timeout=60):
    parts = [t if t.endswith('\n') else t + '\n' for _, t in list(extra) + list(sources)] + [driver]
    return gf.compile_and_run([('all.f90', ''.join(parts))], flags=list(flags), base=base, timeout=timeout)


def run_case(case, apply, **kwargs):
    orig = xform.build_run
    xform.build_run = merged_build_run
    try:
        return xform.run_case(case, apply, **kwargs)
    finally:
        xform.build_run = orig
