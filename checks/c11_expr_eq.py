"""C11  Expression equality is symmetric, case-insensitive (names) and hash-consistent.

ENUM: a node zoo is built compositionally from *specs* (nested JSON-able lists) covering every expression
class of loki/expression/{symbols,literals,operations}.py:

  depth 0  symbols (Scalar, Array with/without subscripts, DeferredTypeSymbol, ProcedureSymbol,
           DerivedTypeSymbol, derived-type members a%b, a%b%c, a(i)%b), literals (Int/Float with and without
           kinds, Logic, String, Intrinsic);
  depth 1  every operation / container class over depth-0 nodes (Sum, Product, Quotient, Power, Comparison,
           LogicalAnd/Or/Not, Parenthesised*, StringConcat, Cast(+-kind), Reference, Dereference,
           InlineCall(+-kwargs), Range/RangeIndex/LoopRange(+-step, open bounds), LiteralList, InlineDo,
           ArraySubscript, StringSubscript, Array with range subscripts);
  depth 2  every such class over depth-1 nodes.

Every spec is instantiated once per *case variant* of its names (lower / UPPER, thorough also Mixed):
variable, procedure, type, kind and keyword names are re-cased, string-literal *values* are not.
All ordered pairs (x, y) of the zoo, including (x, x) and pairs across variants, are checked:

  symmetry   (x == y) == (y == x)
  case       x == y  when x and y are the same spec in two case variants
  hash       x == y  =>  hash(x) == hash(y)
  dict       x == y  =>  y finds the entry stored under x, and storing under y does not add a second key
  stable     hash(x) is the same when taken twice; x == x

Exempt (the documented shortcut): pairs in which one side is a range `1:n` without step and the other side
equals its upper bound `n` -- they are counted, not judged.  Nothing is demanded about *unequal* results
(the statement makes no completeness claim), in particular string literals differing in case may or may not
be equal; such over-equalities are counted in the evidence only.

Signature = law + the two node classes after descending to the smallest corresponding child pair that
still breaks the same law; the minimal example is the first (smallest-first) pair with that signature.
"""
PROPERTY = 'C11'
LEVEL = 'exploration'
META = dict(
    engine='enum',
    technique='bounded-exhaustive pairwise check of ==, hash and dict behaviour over a compositional zoo of every '
              'expression node class with letter-case twins',
    level_text='all ordered pairs of a zoo of every expression class (depth <= 2, names in 2 (quick) / 3 (thorough) '
               'case variants): equality symmetric, case twins equal, equal => same hash, equal nodes interchangeable '
               'as dict keys; only the 1:n == n range shortcut is exempt',
    level_note='runs directly on the implementation; nodes are built without scopes (type stored locally); '
               'case_sensitive symbols and config[case-sensitive] are out of scope',
)

# --------------------------------------------------------------------------------------------- building nodes
VARIANTS = {'lower': str.lower, 'upper': str.upper, 'mixed': lambda s: s[:1].upper() + s[1:].lower()}


def build(spec, nm):
    """spec -> node.  nm re-cases *names* only."""
    from loki.expression import symbols as sym, operations as ops
    from loki.types import BasicType, SymbolAttributes, ProcedureType, DerivedType
    if spec is None:
        return None
    k = spec[0]

    def b(s):
        return build(s, nm)

    def bt(lst):
        return tuple(b(s) for s in lst)
    if k == 'py':
        return spec[1]
    if k == 'scalar':       # ['scalar', name, basic type]
        ty = {'int': BasicType.INTEGER, 'real': BasicType.REAL, 'logical': BasicType.LOGICAL}[spec[2]]
        return sym.Scalar(name=nm(spec[1]), type=SymbolAttributes(ty))
    if k == 'deferred':
        return sym.DeferredTypeSymbol(name=nm(spec[1]))
    if k == 'array':        # ['array', name, [dims]]
        dims = bt(spec[2])
        return sym.Array(name=nm(spec[1]), type=SymbolAttributes(BasicType.REAL), dimensions=dims or None)
    if k == 'proc':
        return sym.ProcedureSymbol(name=nm(spec[1]), type=SymbolAttributes(ProcedureType(nm(spec[1]))))
    if k == 'dtsym':
        return sym.DerivedTypeSymbol(name=nm(spec[1]), type=SymbolAttributes(DerivedType(nm(spec[1]))))
    if k == 'member':       # ['member', parent spec, name, [dims]]
        parent = b(spec[1])
        dims = bt(spec[3]) if len(spec) > 3 else ()
        name = f'{parent.name}%{nm(spec[2])}'
        if dims:
            return sym.Array(name=name, parent=parent, type=SymbolAttributes(BasicType.REAL), dimensions=dims)
        return sym.Scalar(name=name, parent=parent, type=SymbolAttributes(BasicType.REAL))
    if k == 'int':
        return sym.IntLiteral(spec[1], kind=b(spec[2]) if len(spec) > 2 else None)
    if k == 'float':
        return sym.FloatLiteral(spec[1], kind=b(spec[2]) if len(spec) > 2 else None)
    if k == 'logic':
        return sym.LogicLiteral(spec[1])
    if k == 'str':
        return sym.StringLiteral(spec[1])          # value deliberately NOT re-cased
    if k == 'intrinsic':
        return sym.IntrinsicLiteral(spec[1])
    if k == 'litlist':
        return sym.LiteralList(bt(spec[1]))
    if k in ('sum', 'prod', 'and', 'or', 'padd', 'pmul', 'concat'):
        cls = {'sum': sym.Sum, 'prod': sym.Product, 'and': sym.LogicalAnd, 'or': sym.LogicalOr,
               'padd': ops.ParenthesisedAdd, 'pmul': ops.ParenthesisedMul, 'concat': sym.StringConcat}[k]
        return cls(bt(spec[1]))
    if k in ('quot', 'pdiv'):
        return (sym.Quotient if k == 'quot' else ops.ParenthesisedDiv)(b(spec[1]), b(spec[2]))
    if k in ('pow', 'ppow'):
        return (sym.Power if k == 'pow' else ops.ParenthesisedPow)(b(spec[1]), b(spec[2]))
    if k == 'cmp':
        return sym.Comparison(b(spec[1]), spec[2], b(spec[3]))
    if k == 'not':
        return sym.LogicalNot(b(spec[1]))
    if k == 'cast':         # ['cast', name, expr, kind|None]
        return sym.Cast(nm(spec[1]), b(spec[2]), kind=b(spec[3]) if len(spec) > 3 else None)
    if k == 'ref':
        return sym.Reference(b(spec[1]))
    if k == 'deref':
        return sym.Dereference(b(spec[1]))
    if k == 'call':         # ['call', function spec, [params], [[kw, spec], ...]]
        kw = {nm(n): b(v) for n, v in (spec[3] if len(spec) > 3 else [])}
        return sym.InlineCall(b(spec[1]), parameters=bt(spec[2]), kw_parameters=kw or None)
    if k in ('range', 'rangeindex', 'looprange'):
        cls = {'range': sym.Range, 'rangeindex': sym.RangeIndex, 'looprange': sym.LoopRange}[k]
        return cls(bt(spec[1]))
    if k == 'inlinedo':
        return sym.InlineDo((b(spec[1]),), b(spec[2]), b(spec[3]))     # values is a 1-tuple, as the frontend builds it
    if k == 'asub':
        return sym.ArraySubscript(b(spec[1]), bt(spec[2]))
    if k == 'ssub':
        return sym.StringSubscript(b(spec[1]), b(spec[2]))
    raise KeyError(k)


# --------------------------------------------------------------------------------------------- the zoo
def zoo_specs(thorough):
    A, B, N, I = ['scalar', 'a', 'real'], ['scalar', 'b', 'real'], ['scalar', 'n', 'int'], ['scalar', 'i', 'int']
    L = ['scalar', 'flag', 'logical']
    KIND = ['scalar', 'jprb', 'int']
    ONE, TWO = ['int', 1], ['int', 2]
    T = ['scalar', 'tvar', 'real']
    d0 = [
        A, B, N, L, ['scalar', 'a', 'int'],
        ['deferred', 'a'], ['deferred', 'dsym'],
        ['array', 'a', []], ['array', 'arr', []], ['array', 'arr', [I]], ['array', 'arr', [I, N]],
        ['array', 'arr', [ONE]], ['array', 'arr', [N]],
        ['proc', 'func'], ['proc', 'a'], ['dtsym', 'mytype'],
        ['member', T, 'comp'], ['member', ['member', T, 'comp'], 'sub'], ['member', T, 'vec', [I]],
        ['member', ['array', 'tarr', [I]], 'comp'],
        ONE, TWO, ['int', 1, KIND], ['int', 1, ['scalar', 'jpim', 'int']], ['int', -1],
        ['float', '1.0'], ['float', '1.0', KIND], ['float', '2.5e0'], ['float', '1.0', ['int', 8]],
        ['logic', 'true'], ['logic', 'false'],
        ['str', 'abc'], ['str', 'ABC'], ['str', 'a'], ['str', 'n'],
        ['intrinsic', "z'ff'"], ['intrinsic', '(1.0, 2.0)'],
    ]   # Python numbers occur as children only (Product((-1, x))): the statement quantifies over expression nodes
    FN = ['proc', 'func']

    def wrap(x, y, z):
        """every operation / container class over the nodes x, y (numeric-ish) and z (anything)"""
        out = [
            ['sum', [x, y]], ['sum', [y, x]], ['sum', [x, y, z]], ['prod', [x, y]], ['prod', [['py', -1], x]],
            ['quot', x, y], ['pow', x, TWO], ['pow', x, y],
            ['cmp', x, '==', y], ['cmp', x, '<', y], ['cmp', y, '>', x],
            ['and', [['cmp', x, '<', y], L]], ['or', [L, ['cmp', x, '<', y]]], ['not', ['cmp', x, '==', y]],
            ['padd', [x, y]], ['pmul', [x, y]], ['pdiv', x, y], ['ppow', x, y],
            ['concat', [['str', 'abc'], z]], ['concat', [z, ['str', 'ABC']]],
            ['cmp', x, '==', ['str', 'abc']], ['cmp', x, '==', ['str', 'ABC']],
            ['cast', 'real', x], ['cast', 'real', x, KIND], ['cast', 'int', x],
            ['ref', x], ['deref', x],
            ['call', FN, [x]], ['call', FN, [x, y]], ['call', FN, [x], [['kwarg', y]]],
            ['call', FN, [], [['kwarg', x], ['other', y]]], ['call', ['deferred', 'func'], [x]],
            ['call', ['dtsym', 'mytype'], [x, y]],
            ['range', [ONE, x]], ['range', [x, y]], ['range', [ONE, x, TWO]], ['range', [None, x]],
            ['rangeindex', [ONE, x]], ['rangeindex', [x, y]], ['rangeindex', [None, None]], ['rangeindex', [x, None]],
            ['rangeindex', [ONE, x, ONE]],
            ['looprange', [ONE, x]], ['looprange', [x, y]], ['looprange', [ONE, x, TWO]],
            ['litlist', [x, y]], ['litlist', [z]],
            ['inlinedo', x, I, ['looprange', [ONE, y]]],
            ['asub', ['deferred', 'arr'], [x]], ['asub', ['deferred', 'arr'], [x, y]],
            ['ssub', ['scalar', 'cvar', 'int'], ['rangeindex', [ONE, x]]],
            ['array', 'arr', [x]], ['array', 'arr', [['rangeindex', [ONE, x]]]], ['array', 'arr', [['rangeindex', [x, y]], I]],
            ['member', T, 'vec', [x]],
        ]
        return out
    d1 = wrap(A, N, B) + wrap(N, ONE, ['str', 'abc'])[:32]
    seeds2 = [(['sum', [A, N]], ['prod', [A, B]], ['call', FN, [A], [['kwarg', N]]]),
              (['array', 'arr', [I]], ['member', T, 'comp'], ['rangeindex', [ONE, N]])]
    if thorough:
        d1 += wrap(['array', 'arr', [I]], ['member', T, 'comp'], ['float', '1.0', KIND])
        seeds2 += [(['call', FN, [], [['kwarg', A]]], ['cast', 'real', A, KIND], ['litlist', [A, N]]),
                   (['quot', A, N], ['pow', A, TWO], ['concat', [['str', 'abc'], ['scalar', 'cvar', 'int']]])]
    d2 = []
    for x, y, z in seeds2:
        d2 += wrap(x, y, z)
    seen, out = set(), []
    for depth, level in enumerate((d0, d1, d2)):
        for s in level:
            key = repr(s)
            if key not in seen:
                seen.add(key)
                out.append((depth, s))
    return out


def has_names(spec):
    """Does re-casing change anything in this spec?"""
    return repr(build_safe(spec, 'lower')) != repr(build_safe(spec, 'upper')) or \
        str(build_safe(spec, 'lower')) != str(build_safe(spec, 'upper'))


def build_safe(spec, variant):
    return build(spec, VARIANTS[variant])


# --------------------------------------------------------------------------------------------- laws
def is_range_shortcut(x, y):
    """One side is a range 1:n (no step) and the other side equals n: the documented exemption."""
    from loki.expression import symbols as sym
    for r, o in ((x, y), (y, x)):
        if isinstance(r, sym.Range) and not isinstance(o, sym.Range):
            try:
                if r.children[0] == 1 and r.children[2] is None and \
                        (r.children[1] == o or o == r.children[1]):
                    return True
            except Exception:  # pylint: disable=broad-except
                pass
    return False


def eq(x, y):
    """(result, None) or (None, 'ExcType: msg')"""
    try:
        r = x == y
        return (bool(r), None)
    except Exception as e:  # pylint: disable=broad-except
        return (None, f'{type(e).__name__}: {e}')


def check_pair(x, y, twins):
    """Laws broken by the ordered pair (x, y): list of (law, text).  Assumes hashing x and y works."""
    out = []
    exy, err1 = eq(x, y)
    eyx, err2 = eq(y, x)
    if err1 or err2:
        out.append(('eq-raises', f'x == y -> {err1 or exy}, y == x -> {err2 or eyx}'))
        return out
    if is_range_shortcut(x, y):
        return [('exempt', '')]
    if exy != eyx:
        out.append(('symmetry', f'(x == y) is {exy} but (y == x) is {eyx}'))
    if twins and not (exy and eyx):
        out.append(('case', f'case twins: (x == y) is {exy}, (y == x) is {eyx}'))
    if exy:
        hx, hy = hash(x), hash(y)
        if hx != hy:
            out.append(('hash', f'x == y but hash(x) = {hx} != hash(y) = {hy} (so y does not find x in a dict)'))
            return out                       # the dict law fails as a consequence: one signature per root cause
        d = {x: 'vx'}
        found = d.get(y, None)
        d[y] = 'vy'
        if found != 'vx' or len(d) != 1:
            out.append(('dict', f'x == y but {{x: ..}}.get(y) -> {found!r}, after d[y] = .. the dict has {len(d)} keys'))
    return out


def children_of(n):
    """Corresponding-children view used for shrinking: list of sub-nodes."""
    from loki.expression import symbols as sym
    import pymbolic.primitives as pmbl
    if isinstance(n, (int, float, str)) or n is None:
        return []
    if isinstance(n, sym.InlineCall):
        return [n.function, *n.parameters, *[v for _, v in sorted(n.kw_parameters.items(), key=lambda t: t[0].lower())]]
    if isinstance(n, sym.Cast):
        return [*n.parameters, n.kind]
    if isinstance(n, (sym.Reference, sym.Dereference)):
        return [n.expression]
    if isinstance(n, sym.Array):
        return [*n.dimensions, n.parent]
    if isinstance(n, (sym.MetaSymbol, sym.TypedSymbol)):
        return [n.parent]
    if isinstance(n, (sym.IntLiteral, sym.FloatLiteral)):
        return [n.kind]
    if isinstance(n, sym.LiteralList):
        return list(n.elements)
    if isinstance(n, sym.InlineDo):
        return [*n.values, n.variable, n.bounds]
    if isinstance(n, pmbl.Subscript):
        idx = n.index if isinstance(n.index, tuple) else (n.index,)
        return [n.aggregate, *idx]
    if isinstance(n, pmbl.Expression):
        out = []
        for a in n.__getinitargs__():
            if isinstance(a, tuple):
                out += list(a)
            elif isinstance(a, pmbl.Expression):
                out.append(a)
        return out
    return []


def descend(x, y, law, twins):
    """Smallest corresponding sub-pair that still breaks `law` (same class, same arity at every step)."""
    while True:
        cx, cy = children_of(x), children_of(y)
        if type(x) is not type(y) or len(cx) != len(cy):
            return x, y
        for a, b in zip(cx, cy):
            if a is None or b is None or isinstance(a, (int, str)) or isinstance(b, (int, str)):
                continue
            try:
                hash(a), hash(b)
                if any(l == law for l, _ in check_pair(a, b, twins)):
                    x, y = a, b
                    break
            except Exception:  # pylint: disable=broad-except
                continue
        else:
            return x, y


def node_row(arg):
    """Top-level worker: all pairs (x_i, y_j) for one i.  Returns (violations, counters)."""
    i, tier = arg
    nodes = get_nodes(tier)
    _, si, _, x = nodes[i]
    viol, cnt = [], dict(pairs=0, equal=0, twins=0, exempt=0, str_overequal=0)
    try:
        h1, h2 = hash(x), hash(x)
        if h1 != h2:
            viol.append(('stable', i, i, 'hash(x) changes between two calls'))
    except Exception as e:  # pylint: disable=broad-except
        viol.append(('hash-raises', i, i, f'{type(e).__name__}: {e}'))
        return viol, cnt
    for j, (_, sj, _, y) in enumerate(nodes):
        try:
            hash(y)
        except Exception:  # pylint: disable=broad-except
            continue
        twins = (si == sj)
        cnt['pairs'] += 1
        cnt['twins'] += twins
        res = check_pair(x, y, twins)
        if res == [('exempt', '')]:
            cnt['exempt'] += 1
            continue
        for law, text in res:
            viol.append((law, i, j, text))
        if i != j and not twins and eq(x, y)[0]:
            cnt['equal'] += 1
            if "'abc'" in spec_repr(tier, si) and "'ABC'" in spec_repr(tier, sj):
                cnt['str_overequal'] += 1
        elif eq(x, y)[0]:
            cnt['equal'] += 1
    return viol, cnt


_NODES = {}
_SPEC_REPR = {}


def spec_repr(tier, si):
    if tier not in _SPEC_REPR:
        _SPEC_REPR[tier] = [repr(sp) for _, sp in zoo_specs(tier == 'thorough')]
    return _SPEC_REPR[tier][si]



def get_nodes(tier):
    """[(depth, spec_index, variant, node)] -- deterministic, smallest first."""
    if tier not in _NODES:
        import loki.logging as ll
        ll.set_log_level(ll.ERROR)
        thorough = tier == 'thorough'
        variants = ['lower', 'upper'] + (['mixed'] if thorough else [])
        out = []
        for si, (depth, spec) in enumerate(zoo_specs(thorough)):
            named = has_names(spec)
            for v in (variants if named else variants[:1]):
                out.append((depth, si, v, build_safe(spec, v)))
        _NODES[tier] = out
    return _NODES[tier]


def differ_in_case_only(x, y):
    try:
        return str(x) != str(y) and str(x).lower() == str(y).lower()
    except Exception:  # pylint: disable=broad-except
        return False


def describe(n):
    try:
        return f'{type(n).__name__}[{n}]'
    except Exception:  # pylint: disable=broad-except
        return f'{type(n).__name__}[{n!r}]'


def _adapt_nproc(ctx):
    """Measured on this 16-vCPU VM: the judge workers scale to about 4-8 processes (1: 9.3 s, 4: 3.0 s, 8: 2.9 s,
    16: 4.6 s wall for the same work on an idle machine, kernel time growing from 0.1 s to 24 s) and at load 100
    sixteen workers ran 4x slower than one.  Cap the pool at 6 and narrow it further under load, unless
    VERIF_NPROC says otherwise."""
    import os
    if 'VERIF_NPROC' in os.environ:
        return
    ctx.nproc = min(ctx.nproc, 6)
    try:
        load, ncpu = os.getloadavg()[0], os.cpu_count() or 4
    except OSError:
        return
    if load > ncpu:
        ctx.nproc = max(2, min(ctx.nproc, int(ncpu * ncpu / load)))


def run(ctx):
    import collections
    from vf.explore import seeded_order
    _adapt_nproc(ctx)
    specs = zoo_specs(not ctx.quick)
    nodes = get_nodes(ctx.tier)
    classes = collections.Counter(type(n).__name__ for _, _, _, n in nodes)
    rows = seeded_order(range(len(nodes)), ctx.seed)
    results = ctx.pmap(node_row, [(i, ctx.tier) for i in rows])
    tot = collections.Counter()
    viols = []
    for (v, c) in results:
        tot.update(c)
        viols += v
    viols.sort(key=lambda t: (nodes[t[1]][0] + nodes[t[2]][0], t[1] + t[2], t[1], t[2], t[0]))
    for law, i, j, text in viols:
        x, y = nodes[i][3], nodes[j][3]
        twins = nodes[i][1] == nodes[j][1]
        mx, my = descend(x, y, law, twins) if law in ('symmetry', 'case', 'hash', 'dict') else (x, y)
        names = [type(mx).__name__, type(my).__name__]
        if law == 'symmetry':
            names.sort()                 # (x, y) and (y, x) break symmetry together: one signature
        sig = f'{law}: {names[0]} vs {names[1]}'
        if law == 'case' or (law in ('hash', 'dict') and differ_in_case_only(mx, my)):
            sig += ' (case twins)'
        case = dict(law=law, x=dict(spec=specs[nodes[i][1]][1], variant=nodes[i][2]),
                    y=dict(spec=specs[nodes[j][1]][1], variant=nodes[j][2]))
        ctx.violation(sig, case, f'x = {describe(x)}, y = {describe(y)}: {text}; smallest offending sub-pair: '
                                 f'{describe(mx)} / {describe(my)}')
    import loki.expression.symbols as sym
    import pymbolic.primitives as pmbl
    expected = [c for c in (sym.__all__) if isinstance(getattr(sym, c, None), type)
                and issubclass(getattr(sym, c), pmbl.Expression)]
    expected += ['ParenthesisedAdd', 'ParenthesisedMul', 'ParenthesisedDiv', 'ParenthesisedPow']
    abstract = {'TypedSymbol', 'MetaSymbol', 'VariableSymbol', '_Literal', 'Literal', 'Variable'}
    missing = sorted(set(expected) - set(classes) - abstract)
    ctx.require(not missing, f'zoo lacks expression classes {missing}')
    ctx.require(tot['twins'] >= 400 and tot['equal'] >= 400, f'vacuous zoo: {dict(tot)}')
    ctx.require(tot['exempt'] >= 4, 'the 1:n == n shortcut never occurred')
    ctx.cov.update(
        evaluations=tot['pairs'], distinct_nontrivial=tot['equal'], exhaustive=True,
        rule='all ordered pairs of the node zoo (every spec x every case variant of its names); non-trivial = pairs '
             'that compare equal in at least the x == y direction (the laws hash/dict/case apply to them)',
        samples=[dict(spec=specs[nodes[n][1]][1], variant=nodes[n][2]) for n in (0, len(nodes) // 2, len(nodes) - 1)],
        bound=dict(specs=len(specs), nodes=len(nodes), depth=2, variants=sorted({v for _, _, v, _ in nodes})),
        classes=dict(classes), twin_pairs=tot['twins'], exempt_range_shortcut_pairs=tot['exempt'],
        string_value_case_overequal_pairs=tot['str_overequal'],
    )
    ctx.assumptions += [
        'nodes are built without scopes; config[case-sensitive] is False and no symbol is marked case_sensitive',
        'only the laws of the statement are judged; unequal results are never judged (no completeness claim)',
        'the 1:n == n range shortcut pairs are exempt from every law',
    ]


def replay(case):
    import loki.logging as ll
    ll.set_log_level(ll.ERROR)
    x = build_safe(case['x']['spec'], case['x']['variant'])
    y = build_safe(case['y']['spec'], case['y']['variant'])
    law = case['law']
    if law == 'stable':
        return 'hash unstable' if hash(x) != hash(x) else None
    if law == 'hash-raises':
        try:
            hash(x)
            return None
        except Exception as e:  # pylint: disable=broad-except
            return f'hash raises {type(e).__name__}: {e}'
    twins = case['x']['spec'] == case['y']['spec']
    res = [(l, t) for l, t in check_pair(x, y, twins) if l == law]
    return '; '.join(f'[{l}] {t}' for l, t in res) if res else None
