"""C17  Cloning a program unit yields an independent, correctly scoped copy.

SEQ.  For every unit of the shared zoo (vf/unitzoo.py: the Sourcefile, every Module / Subroutine /
Function in it and every contained procedure, plain and -- thorough -- enriched) the unit is cloned
and a breadth-first search explores every history of edits applied to the original *or* the clone
(edit menu in vf/unitedit.py: rename unit, retype a variable in the symbol table, append / remove /
in-place update a body statement, replace a declaration, rename a variable everywhere, edit a
contained routine, retype / extend a typedef, add / drop arguments).  A state is the history that
reaches it; live objects are rebuilt by re-parsing and replaying (Loki objects cannot be
snapshotted without using the very operations under test); states are merged on the pair of
observations (generated text + type fingerprints of both copies).

Checked on every transition (and on the initial state):
  initial   fgen(clone) == fgen(original); same symbol types; a derived-type / procedure link that
            pointed inside the original points inside the clone; no IR node / program unit object is
            reachable from both copies
  other     the copy that was *not* edited generates byte-identical text and shows identical
            symbol types before and after the edit
  fresh     the edited copy generates exactly what a freshly parsed, never cloned unit generates
            after the same edits (differential: no hand-written expectation); an edit that a fresh
            unit refuses is not enabled, an edit that only the copy refuses is a violation
  scopes    every typed symbol reachable from either copy has its `.scope` inside the scope chain
            of the place where it occurs (symbols that are already outside it in the freshly
            parsed reference are ignored)

Weaker readings: only what fgen prints and what `symbol.type` returns is observed (object
identity of table entries, `source`, `_ast` are not); `clone(**overrides)` is not explored (plain
`clone()` only); registering a cloned member in its (shared) parent's symbol table is not judged.
"""
import gc

from vf import unitzoo, unitedit as ue
from vf.explore import bfs_levels

PROPERTY = 'C17'
LEVEL = 'model_checking'
META = dict(
    engine='seq',
    technique='explicit-state BFS over edit histories on original/clone pairs of real program units; lock-step '
              'differential against freshly parsed, never-cloned units replaying the same edits',
    level_text='all histories of <= D edits (menu of <= 16 edits x 2 sides) on every clonable unit of a 30-entry zoo: '
               'clone generates the same code, untouched copy is byte-identical after every edit, edited copy equals the '
               'same edits on a fresh parse, symbol scopes stay inside each copy\'s own scope chain',
    level_note='runs on the implementation (every transition is an implementation trace); the reference is the '
               'implementation itself on a fresh parse (differential), so a defect common to cloned and fresh units is '
               'invisible here; zoo and edit menu are hand-written',
)

DEEP_NAMES = ('r_member', 'r_import_type', 'm_two', 'm_full', 'm_bound', 'm_member', 'file_mod_and_routine',
              'file_two_modules')
_CFG = {}
_REF = {}
_MENU = {}


def _setup():
    from vf import lokiperf
    lokiperf.silence()
    lokiperf.speedup()
    lokiperf.cache_fparser_ast()


def entry_of(case):
    return unitzoo.Entry(case.get('name', 'case'), case['source'], tuple(case.get('defs', ())), ())


def tkey(case):
    return (case['source'], tuple(case.get('defs', ())), bool(case['enrich']), tuple(case['path']))


def norm_hist(history):
    return tuple((s, (e[0], tuple(e[1]), e[2])) for s, e in history)


def menu_for(case):
    k = tkey(case)
    if k not in _MENU:
        _MENU[k] = ue.edit_menu(unitzoo.build(entry_of(case), case['enrich']), tuple(case['path']))
    return _MENU[k]


def ref_obs(case, edits):
    """Observation of a freshly parsed, never-cloned unit after `edits`; None if an edit is refused."""
    k = (tkey(case), edits)
    if k not in _REF:
        if edits and ref_obs(case, edits[:-1]) is None:
            _REF[k] = None
        else:
            b = unitzoo.build(entry_of(case), case['enrich'])
            u = b.unit(tuple(case['path']))
            try:
                for ed in edits:
                    ue.apply_edit(u, ed)
                _REF[k] = ue.observe(u)
            except Exception:  # pylint: disable=broad-except
                _REF[k] = None
        if len(_REF) > 20000:
            _REF.clear()
    return _REF[k]


def _fkey(f):
    return (f[1], f[2], f[4])       # symbol text, class of the foreign scope, holder field (not the scope's name)


def _new_foreign(obs, *bases):
    base = set()
    for b in bases:
        if b is not None:
            base |= {_fkey(f) for f in b.foreign}
    return [f for f in obs.foreign if _fkey(f) not in base]


def _textdiff(a, b):
    la, lb = a.splitlines(), b.splitlines()
    for i, (x, y) in enumerate(zip(la, lb)):
        if x != y:
            return f'first differing line {i + 1}: {x!r} vs {y!r}'
    return f'line count {len(la)} vs {len(lb)}'


LINK_OF_CLASS = {'dtype(derived).typedef': 'typedef', 'module': 'module'}


def link_kind_of(diff_class):
    if diff_class.startswith('dtype(procedure)'):
        return 'procedure'
    return LINK_OF_CLASS.get(diff_class)


def stale_links(orig, clone):
    """{kind: example} for links of the clone (typedef / procedure / module) whose target lay inside the
    original unit but does not lie inside the clone."""
    own_o = {id(s) for s in ue.all_scopes(orig)}
    own_c = {id(s) for s in ue.all_scopes(clone)}
    lo, lc = ue.link_targets(orig), ue.link_targets(clone)
    out = {}
    if len(lo) == len(lc):
        for (_, k0, t0), (s1, _, t1) in zip(lo, lc):
            if id(t0) in own_o and id(t1) not in own_c and k0 not in out:
                out[k0] = (s1, 'the original' if id(t1) in own_o else 'neither copy')
    return out


def initial_stale_kinds(case):
    k = ('stale', tkey(case))
    if k not in _REF:
        b = unitzoo.build(entry_of(case), case['enrich'])
        o = b.unit(tuple(case['path']))
        _REF[k] = set(stale_links(o, o.clone()))
    return _REF[k]


def judge(case, history):
    """Replays `history` on a fresh original/clone pair and judges the *last* transition (the
    initial state if the history is empty).  Only what the last transition *newly* breaks is reported:
    a difference that already existed before it, or that is merely the rendering of a link already
    reported as stale for this unit's clone, belongs to an earlier signature.
    Returns (status, key, violations): status 'ok' | 'disabled'; violations = [(signature, detail)]."""
    _setup()
    history = norm_hist(history)
    entry = entry_of(case)
    b = unitzoo.build(entry, case['enrich'])
    orig = b.unit(tuple(case['path']))
    clone = orig.clone()
    copies = {'O': orig, 'C': clone}
    names = {'O': 'original', 'C': 'clone'}
    viols = []
    if not history:
        gc.collect()
        oo, oc = ue.observe(orig), ue.observe(clone)
        ref = ref_obs(case, ())
        if oc.text != oo.text:
            viols.append(('initial: clone generates different code', _textdiff(oo.text, oc.text)))
        stale = stale_links(orig, clone)
        d = ue.diff_types(oo.types, oc.types)
        if d and link_kind_of(d[0]) not in stale:      # a link-rendered difference is reported once, as the stale link
            viols.append((f'initial: clone has different symbol types: {d[0]}', d[1]))
        if ref is not None and oo.text != ref.text:
            viols.append(('initial: cloning changed the code of the original', _textdiff(ref.text, oo.text)))
        for side, o in (('O', oo), ('C', oc)):
            for f in _new_foreign(o, ref):
                viols.append((f'initial: symbol of the {names[side]} scoped outside its own scope chain: {f[4]}',
                              f'{f[1]!r} is scoped in {f[2]} {f[3]!r}, which is not in the scope chain of its place'))
        ids_o = {id(x) for x in ue.all_nodes(orig)}
        shared = [x for x in ue.all_nodes(clone) if id(x) in ids_o]
        if shared:
            viols.append((f'initial: IR node object shared between original and clone: {type(shared[0]).__name__}',
                          f'{len(shared)} node objects are reachable from both copies, first: {type(shared[0]).__name__}'))
        for kind, (symname, where) in sorted(stale.items()):
            viols.append((f'initial: {kind} link of the clone points into {where}',
                          f'symbol {symname} of the clone: its {kind} is an object of {where}'))
        return 'ok', hash((oo.text, oo.types, oc.text, oc.types)), _dedupe(viols)
    for side, ed in history[:-1]:
        ue.apply_edit(copies[side], ed)
    side, ed = history[-1]
    other = 'C' if side == 'O' else 'O'
    side_edits = tuple(e for s, e in history if s == side)
    ref = ref_obs(case, side_edits)
    if ref is None:
        return 'disabled', None, []
    ref_prev = ref_obs(case, side_edits[:-1])
    ref_other = ref_obs(case, tuple(e for s, e in history if s == other))
    gc.collect()
    before_other = ue.observe(copies[other])
    before_side = ue.observe(copies[side])
    what = f'{ed[0]} on the {names[side]}'
    try:
        ue.apply_edit(copies[side], ed)
    except Exception as e:  # pylint: disable=broad-except
        return 'ok', None, [(f'edit refused by the copy only: {what}: {type(e).__name__}',
                             f'{ue.edit_name(ed)} works on a fresh unit but raises on the {names[side]}: {e}')]
    # `symbol.scope` is a weak reference: whether a symbol still points at a replaced (dead) scope must not
    # depend on when the cyclic garbage collector happens to run
    gc.collect()
    try:
        after_side, after_other = ue.observe(copies[side]), ue.observe(copies[other])
    except Exception as e:  # pylint: disable=broad-except
        return 'ok', None, [(f'copy unusable after {what}: {type(e).__name__}: {ue.mask_message(e)}', str(e))]

    def explained(diff_class):
        kind = link_kind_of(diff_class)
        return kind is not None and kind in initial_stale_kinds(case)

    if after_other.text != before_other.text:
        viols.append((f'other copy changed (text) by {what}',
                      f'{names[other]}: ' + _textdiff(before_other.text, after_other.text)))
    else:
        d = ue.diff_types(before_other.types, after_other.types)
        if d and not explained(d[0]):
            viols.append((f'other copy changed (types: {d[0]}) by {what}', f'{names[other]}: {d[1]}'))
    if after_side.text != ref.text:
        if before_side.text == ref_prev.text:
            viols.append((f'edited copy differs from edited fresh unit (text) after {what}',
                          _textdiff(ref.text, after_side.text)))
    else:
        d = ue.diff_types(ref.types, after_side.types)
        d0 = ue.diff_types(ref_prev.types, before_side.types)
        if d and not explained(d[0]) and (d0 is None or d0[0] != d[0]):
            viols.append((f'edited copy differs from edited fresh unit (types: {d[0]}) after {what}', d[1]))
    for s, o, bases in ((side, after_side, (ref, before_side)), (other, after_other, (ref_other, before_other))):
        for f in _new_foreign(o, *bases):
            viols.append((f'symbol of the {names[s]} scoped outside its own scope chain after {what}: {f[4]}',
                          f'{f[1]!r} is scoped in {f[2]} {f[3]!r}'))
    o_, c_ = (after_side, after_other) if side == 'O' else (after_other, after_side)
    changed = after_side.text != ref_prev.text
    return 'ok', (hash((o_.text, o_.types, c_.text, c_.types)), changed), _dedupe(viols)


def _dedupe(viols):
    seen, out = set(), []
    for s, d in viols:
        if s not in seen:
            seen.add(s)
            out.append((s, d))
    return out


def make_case(t, history=()):
    c = dict(t)
    c['history'] = [[s, [e[0], list(e[1]), e[2]]] for s, e in history]
    return c


def expand(hist):
    """bfs_levels callback.  hist = () | (target_index, event, event, ...)"""
    out = []
    targets = _CFG['targets']
    if not hist:
        for i, t in enumerate(targets):
            _, key, viols = judge(t, ())
            # a unit whose clone is already flawed is still explored (the flaw is reported once, as a
            # pseudo-transition of its own); otherwise known findings would hide whole sub-spaces
            out.append((i, ('T', i, key), []))
            if viols:
                out.append((('initial', i), None, [(s, make_case(t), d) for s, d in viols]))
        return out
    t = targets[hist[0]]
    edits = tuple(hist[1:])
    for ed in menu_for(t):
        for side in ('O', 'C'):
            ev = (side, ed)
            try:
                status, key, viols = judge(t, edits + (ev,))
            except Exception as e:  # pylint: disable=broad-except
                raise RuntimeError(f'replay of accepted prefix failed: target {t.get("name")} {t["path"]} '
                                   f'history {edits + (ev,)}: {type(e).__name__}: {e}') from e
            if status == 'disabled':
                continue
            if viols:
                out.append((ev, None, [(s, make_case(t, edits + (ev,)), d) for s, d in viols]))
            else:
                k, changed = key
                out.append((ev, ('S', hist[0], k, changed), []))
    return out


def targets_for(zoo, enriched):
    ts = []
    for e in zoo:
        for enrich in ((False, True) if (enriched and 'enrichable' in e.features) else (False,)):
            b = unitzoo.build(e, False)
            for path in b.paths(nested=True):
                if len(path) > 2:
                    continue
                ts.append(dict(name=e.name, source=e.source, defs=list(e.defs), enrich=enrich, path=list(path)))
    return ts


def shrink(case, sig):
    def fails(c):
        try:
            if not unitzoo.is_valid_fortran(c['source'], c.get('defs', ())):
                return False
            _MENU.pop(tkey(c), None)
            _, _, v = judge(c, c['history'])
            return any(s == sig for s, _ in v)
        except (Exception, SystemExit):  # pylint: disable=broad-except
            return False
    cur = dict(case)
    if cur['enrich'] and fails(dict(cur, enrich=False)):
        cur = dict(cur, enrich=False)
    # drop earlier edits of the history (the judged transition is the last one)
    h = list(cur['history'])
    i = 0
    while i < len(h) - 1:
        c2 = dict(cur, history=h[:i] + h[i + 1:])
        if fails(c2):
            h = c2['history']
            cur = c2
        else:
            i += 1
    src = ue.shrink_source(cur['source'], lambda t: fails(dict(cur, source=t)), budget=150)
    cur = dict(cur, source=src)
    if cur.get('defs') and fails(dict(cur, defs=[])):
        cur = dict(cur, defs=[])
    return cur


def shrink_work(item):
    _setup()
    return shrink(item[0], item[1])


def known_open_signatures():
    import json
    from vf import core
    f = core.FINDINGS_DIR / f'{PROPERTY}.json'
    if not f.exists():
        return set()
    return {e['signature'] for e in json.loads(f.read_text()) if e.get('status') == 'open'}


def valid_work(e):
    """gfortran accepts the zoo entry, and re-using a memoised fparser tree is invisible to the observations."""
    from vf import lokiperf
    ok = unitzoo.is_valid_fortran(e.source, e.defs)
    lokiperf.uncache_fparser_ast()
    base = ue.observe(unitzoo.build(e, False).file)
    lokiperf.cache_fparser_ast()
    same = all(ue.observe(unitzoo.build(e, False).file) == base for _ in range(3))
    return ok and same


def run(ctx):
    from vf.explore import seeded_order
    _setup()
    zoo = unitzoo.ZOO_QUICK if ctx.quick else unitzoo.ZOO
    valid = ctx.pmap(valid_work, list(zoo), chunksize=1)
    ctx.require(all(valid), f'zoo entries rejected by gfortran or parse-tree cache not transparent: {[e.name for e, ok in zip(zoo, valid) if not ok]}')
    depth = 2
    targets = seeded_order(targets_for(zoo, enriched=not ctx.quick), ctx.seed)
    stats = []
    viols = []

    def explore(tg, d):
        _CFG['targets'] = tg
        _REF.clear()
        _MENU.clear()
        ctx.reset_pool()
        res = bfs_levels(ctx, expand, d + 1, ('root',))
        return res

    res = explore(targets, depth)
    viols += res['violations']
    stats.append(dict(targets=len(targets), depth=depth, states=res['states'] - 1, transitions=res['transitions'] - len(targets)))
    capped = res['capped']
    if not ctx.quick:
        # depth 3 on the structurally richest targets (whole modules / routines with members / files)
        rich = [t for t in targets if not t['enrich'] and t['name'] in DEEP_NAMES and len(t['path']) <= 1]
        res3 = explore(rich, 3)
        viols += res3['violations']
        stats.append(dict(targets=len(rich), depth=3, states=res3['states'] - 1, transitions=res3['transitions'] - len(rich)))
        capped = capped or res3['capped']
    by_sig = {}
    for sig, case, det in viols:
        by_sig.setdefault(sig, []).append((case, det))
    reps = {}
    for sig in sorted(by_sig):
        by_sig[sig].sort(key=lambda x: (len(x[0]['history']), len(x[0]['source']), x[0]['name'], len(x[0]['path']), x[0]['enrich']))
        reps[sig] = by_sig[sig][0]
    known = known_open_signatures()
    todo = [s for s in sorted(reps) if s not in known]
    shrunk = {s: reps[s][0] for s in reps}
    shrunk.update(zip(todo, ctx.pmap(shrink_work, [(reps[s][0], s) for s in todo], chunksize=1)))
    for sig in sorted(by_sig):
        lst = by_sig[sig]
        small = shrunk[sig]
        try:
            _MENU.pop(tkey(small), None)
            v = dict(judge(small, small['history'])[2])
        except Exception:  # pylint: disable=broad-except
            v = {}
        names = sorted({f'{c["name"]}{c["path"]}' for c, _ in lst})
        ctx.violation(sig, small, f'{v.get(sig, reps[sig][1])}\nhistory: {small["history"]}\n'
                                  f'seen on {len(lst)} transitions of: {", ".join(names)[:300]}')
    ntrans = sum(s['transitions'] for s in stats)
    nstates = sum(s['states'] for s in stats)
    ctx.require(nstates >= 10 * len(targets) or bool(viols), f'vacuous: only {nstates} states for {len(targets)} targets')
    menu_sizes = [len(ue.edit_menu(unitzoo.build(entry_of(t), t['enrich']), tuple(t['path']))) for t in targets[:10]]
    ex = targets[len(targets) // 2]
    exm = ue.edit_menu(unitzoo.build(entry_of(ex), ex['enrich']), tuple(ex['path']))
    ctx.cov.update(
        states=nstates, transitions=ntrans, traces_validated_against_impl=ntrans,
        evaluations=ntrans, distinct_nontrivial=nstates, exhaustive=not capped,
        rule='BFS over all histories of edits applied to original or clone, per clonable unit (file / module / routine / '
             'contained procedure) of the zoo; a state = pair of observations (generated text + per-symbol type '
             'fingerprints) of both copies, merged on equality; every transition is judged (other copy untouched, edited '
             'copy == fresh parse with the same edits, scopes in own chain); transitions whose edit a freshly parsed unit '
             'refuses are not enabled and not counted; a violating transition is not expanded',
        samples=[dict(unit=ex['name'], path=ex['path'], enrich=ex['enrich'],
                      history=[['C', list(exm[0])], ['O', list(exm[min(1, len(exm) - 1)])]]),
                 dict(edit_menu=[ue.edit_name(e) for e in exm])],
        runs=stats, menu_sizes_first_targets=menu_sizes,
        bound=dict(depth=[s['depth'] for s in stats], targets=[s['targets'] for s in stats], zoo=[e.name for e in zoo]),
        zoo_sources_accepted_by_gfortran=sum(map(bool, valid)),
    )
    ctx.assumptions += [
        'differential oracle: a freshly parsed unit under the same edits is the reference (defects shared by fresh and '
        'cloned units are out of scope of this property)',
        'observation = fgen text + identity-free rendering of every typed symbol\'s SymbolAttributes '
        '(derived/procedure links rendered through their targets)',
        'plain clone() only; keyword overrides are not explored',
    ]


def replay(case):
    _MENU.clear()
    _REF.clear()
    status, _, v = judge(case, case.get('history', []))
    if status == 'disabled':
        return None
    return '; '.join(f'[{s}] {d}' for s, d in v) if v else None
