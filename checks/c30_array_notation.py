"""C30  Array-notation resolution and index normalisation preserve program behaviour.

ENUM (deviation-bounded) + gfortran differential (original vs transformed, -O0 -fcheck=bounds).

Template.  One kernel `kern` whose *main statement* `LHS = RHS` is generated from multi-valued
switches, plus boolean feature blocks appended around it.  Every combination of <= d switches away
from the default (d=1 quick, d=2 thorough) x every transformation variant is built twice with the
same harness-owned driver (2 inputs: n,m = 4,3 and 5,2; all arrays, the derived type and the scalar
are printed).  Combinations that have no valid Fortran meaning (e.g. overlap with a bare array name)
are not generated; the number skipped is reported.

Switches (one per branch/shortcut of vector_notation.py / array_indices.py):
  lhs    LHS section kind: one_n `a(1:n)` (default) | full `a(:)` | inner `a(2:n-1)` | strided `a(1:n:2)` |
         col `c(:,2)` | row `c(2,:)` | all2 `c(:,:)` | all2x `c(1:n,1:m)` | bare `a`
  lb_l   declared lower bound of the LHS arrays a, c: 1 (default) | 0 | -1 | '1:' (declared `a(1:n)`,
         the form normalize_range_indexing targets)
  lb_r   declared lower bound of the other arrays b, e (same values) -> _compute_shifted_index
  rhs    same-shape section of the other array (default) | scalar broadcast | overlap_m1 / overlap_p1 (section of
         the LHS array itself shifted by -1/+1: RHS-before-LHS rule; overlap_m1_ucrhs / _uclhs spell the array in upper case
         on the RHS / LHS only: `a(2:n) = A(1:n-1)`) | colon (bare `:` against the LHS range) |
         expr2 (expression of two sections) | reduction `sum(b(1:n))` (must stay) | array_fn (array-valued
         function of a section) | stride_mismatch (contiguous LHS, strided RHS or vice versa; is_aligned_dim
         only compares lower bounds)
  ctx    plain (default) | where (block WHERE) | where1 (one-line WHERE) | where_else (WHERE/ELSEWHERE) |
         loop_other (statement inside a loop over the other dimension, loop index used as subscript) |
         loop_same_range (statement inside a loop whose bounds equal the LHS range: loop_map reuse)
  blocks elem_nest (element loop nest over c/e with the arrays' own ranges: sibling loops feed loop_map),
         live_index (scalar i live across a vector statement while a sibling loop over i exists),
         two_stmts (two statements sharing the generated index name i_a_0), call_section (section passed to a
         call), call_full (`a(:)`/`a` passed positionally, by keyword and to an inline call: calls_only branch),
         call_explicit (whole array passed to an explicit-shape dummy), literal_list (early exit),
         dt_member (derived-type component sections), lbound_use (lbound/ubound of whole array vs `(:)` section),
         alloc_lhs (allocatable assigned without prior allocation: add_explicit must not turn `al = ..` into
         `al(:) = ..`), dup_dims (`q(1:n,1:n)`: duplicate-range guard), inline_if (one-line IF demotion),
         dt_bounds (array extent is a derived-type member: substitute_derived_type_bounds)

Transformations (only `kern` is transformed; its callees keep their interfaces):
  rvn   resolve_vector_notation(resolve_implicit_rhs_ranges +/-), and with insert_comments +
        substitute_derived_type_bounds
  rvd   resolve_vector_dimension(Dimension(index=i, lower=1, upper=n, size=n), derive_qualified_ranges +/-,
        resolve_implicit_rhs_ranges +/-).  Not run with ctx=loop_same_range or live_index: the dimension's index
        variable is reserved for the horizontal loop in single-column code, so a vector statement *inside* a loop
        over it or another live use of it is not meaningful input for this entry point.
  add / rem(calls_only +/-) / add+rem   add_/remove_explicit_array_dimensions
  nri   normalize_range_indexing;   nasa  normalize_array_shape_and_access (not with lbound_use on an array whose
        lower bound is not 1: re-basing the array changes LBOUND by design)
  flatten_arrays: as used by the repository itself (tests, FortranCTransformation): after
        normalize_array_shape_and_access (shapes must not be ranges), order='F', and order='C' after
        invert_array_indices; both directly (`nasa+flatten`: only programs without partial sections of rank-2 arrays,
        which flat storage cannot express) and after resolve_vector_notation (`rvn+nasa+flatten`: all programs except
        those passing rank-2 sections to calls).  start_index=1 only: start_index=0 assumes 0-based subscripts, which
        only exist after shift_to_zero_indexing for the C backend (C35), as do shift_to_zero_indexing /
        invert_array_indices on their own.
Dummy arrays are explicit-shape and the driver passes first elements (sequence association), so re-declaring
a dummy with lower bound 1 or as rank 1 does not change the storage the kernel sees.

Weaker readings taken: a bare `assert` in ResolveVectorNotationTransformer.visit_MaskedStatement (multi-clause
WHERE, marked TODO "currently limited to") counts as a refusal, like NotImplementedError; a *warning* followed
by wrong code is a violation.

Signatures: `<verdict> block=<switch=value> xform=<family>`; a failing single-switch case explains the multi-switch
cases that contain the switch (same variant, same verdict); a pipeline (`rvn+nasa+flatten`, `nasa+flatten`,
`add+rem`) failing on a program on which one of its stages alone already fails is that stage's finding.

Cost: all variants of one program are first compiled in ONE gfortran run (modules renamed vmod_<k>, one driver
selecting the variant by command argument) and executed one by one; a variant is accepted on this fast path only if
it exits 0 and prints exactly the original's output.  Every other variant is re-judged by the unmodified
vf.xform.run_case (separate build, same flags), so all non-ok verdicts - and replay - come from the standard path.
Flags: -O0 -fcheck=bounds -finit-integer=-9999 (an index the rewrite forgot to set aborts deterministically).
"""
import re

from vf import xform
from vf.explore import deviations

PROPERTY = 'C30'
LEVEL = 'exploration'
META = dict(
    engine='enum',
    technique='deviation-bounded exhaustive template enumeration x all transformation variants; gfortran differential run (original vs transformed)',
    level_text='all combinations of <= d switches (LHS section kind, declared lower bounds, RHS kind, context, 13 feature blocks) '
               'x {resolve_vector_notation, resolve_vector_dimension, add/remove_explicit_array_dimensions, '
               'normalize_range_indexing, normalize_array_shape_and_access, flatten_arrays F/C (+ documented pipelines)}: '
               'transformed code compiles and prints exactly the original array contents on every input; exhaustive for d',
    level_note='gfortran 12 -O0 -fcheck=bounds is the semantics; exact dyadic reals so no tolerance; original program must build and run (else HARNESS-ERROR)',
)

# ---------------------------------------------------------------------------- text helpers
# A position is (symbol, const): the 1-based logical position `symbol + const`; the subscript for an array
# declared with lower bound lb is symbol + const + lb - 1.  ('@j', lbref) is the loop variable j that runs over
# the subscripts of an array with lower bound lbref.


def ptxt(sym, c):
    if not sym:
        return str(c)
    return sym if c == 0 else (f'{sym}+{c}' if c > 0 else f'{sym}-{-c}')


def at(P, lb):
    if P[0].startswith('@'):
        return ptxt(P[0][1:], lb - P[1])
    return ptxt(P[0], P[1] + lb - 1)


def rng(lo, hi, step=1, colon=False):
    return ('r', lo, hi, step, colon)


def el(P):
    return ('e', P)


def reftxt(name, lb, dims, bare=False):
    if bare:
        return name
    parts = []
    for d in dims:
        if d[0] == 'e':
            parts.append(at(d[1], lb))
        elif d[4]:
            parts.append(':')
        else:
            parts.append(f'{at(d[1], lb)}:{at(d[2], lb)}' + (f':{d[3]}' if d[3] != 1 else ''))
    return f'{name}({",".join(parts)})'


def explicit(dims):
    return [d if d[0] == 'e' else rng(d[1], d[2], d[3], False) for d in dims]


def decl_dim(lb, style, ext):
    if lb == 1:
        return f'1:{ext}' if style else ext
    return f'{lb}:{ptxt(ext, lb - 1)}'


N1, NN, M1, MM, H = ('', 1), ('n', 0), ('', 1), ('m', 0), ('h', 0)
TWO = ('', 2)

LHS_KINDS = {  # name -> (array, other array, dims, bare)
    'one_n': ('a', 'b', [rng(N1, NN)], False),
    'full': ('a', 'b', [rng(N1, NN, colon=True)], False),
    'inner': ('a', 'b', [rng(TWO, ('n', -1))], False),
    'strided': ('a', 'b', [rng(N1, NN, 2)], False),
    'col': ('c', 'e', [rng(N1, NN, colon=True), el(TWO)], False),
    'row': ('c', 'e', [el(TWO), rng(M1, MM, colon=True)], False),
    'all2': ('c', 'e', [rng(N1, NN, colon=True), rng(M1, MM, colon=True)], False),
    'all2x': ('c', 'e', [rng(N1, NN), rng(M1, MM)], False),
    'bare': ('a', 'b', [rng(N1, NN, colon=True)], True),
}
MENU = {
    'lhs': [k for k in LHS_KINDS if k != 'one_n'],
    'lb_l': [0, -1, '1:'],
    'lb_r': [0, -1, '1:'],
    'rhs': ['scalar', 'overlap_m1', 'overlap_p1', 'overlap_m1_ucrhs', 'overlap_m1_uclhs', 'colon', 'expr2', 'reduction', 'array_fn', 'stride_mismatch'],
    'ctx': ['where', 'where1', 'where_else', 'loop_other', 'loop_same_range'],
}
BLOCKS = ['elem_nest', 'live_index', 'two_stmts', 'call_section', 'call_full', 'call_explicit', 'literal_list',
          'dt_member', 'lbound_use', 'alloc_lhs', 'dup_dims', 'inline_if', 'dt_bounds']

HEAD = '''module vmod
  implicit none
  type :: dims
    integer :: k
  end type dims
  type :: tt
    real :: v(3)
  end type tt
contains
  subroutine addone(z)
    real, intent(inout) :: z(:)
    integer :: l
    do l = 1, size(z)
      z(l) = z(l) + 1.0
    end do
  end subroutine addone
  subroutine addn(k, z)
    integer, intent(in) :: k
    real, intent(inout) :: z(k)
    z(1) = z(1) + 2.0
    z(k) = z(k) * 2.0
  end subroutine addn
  function total(z)
    real, intent(in) :: z(:)
    real :: total
    total = z(1) + 2.0 * z(size(z))
  end function total
  function twice(z) result(res)
    real, intent(in) :: z(:)
    real :: res(size(z))
    integer :: l
    do l = 1, size(z)
      res(l) = z(l) * 2.0
    end do
  end function twice
'''

DRIVER = '''program drv
  use vmod
  implicit none
  integer :: n, m, g, p, q
  real, allocatable :: a(:), b(:), c(:,:), e(:,:)
  type(tt) :: t
  type(dims) :: dm
  real :: r, s
  do g = 1, 2
    n = 3 + g
    m = 4 - g
    allocate(a(n), b(n), c(n,m), e(n,m))
    do p = 1, n
      a(p) = real(p) * 0.5 - 1.0
      b(p) = real(mod(p * (g + 1), 5)) * 0.25 + 0.25
      do q = 1, m
        c(p,q) = real(p) + real(q) * 0.25
        e(p,q) = real(mod(p + q * g, 4)) * 0.5
      end do
    end do
    t%v = (/ 0.5, 1.5, -1.0 /)
    dm%k = 3
    r = real(g) - 0.5
    s = 1.5
    call kern(n, m, s, a(1), b(1), c(1,1), e(1,1), t, dm, r)
    write(*,'(A,I0)') 'G', g
    write(*,'(A,20(1X,ES14.7))') 'A', a
    write(*,'(A,20(1X,ES14.7))') 'B', b
    write(*,'(A,20(1X,ES14.7))') 'C', c
    write(*,'(A,20(1X,ES14.7))') 'E', e
    write(*,'(A,20(1X,ES14.7))') 'T', t%v
    write(*,'(A,1X,ES14.7)') 'R', r
    deallocate(a, b, c, e)
  end do
end program drv
'''


def _lbv(v):
    return (1, True) if v == '1:' else (v, False)


def build_program(sw):
    """sw: dict of switches away from the default.  -> module text, or None if the combination is not meaningful."""
    lhs_kind = sw.get('lhs', 'one_n')
    rhs_kind = sw.get('rhs', 'same')
    ctx = sw.get('ctx', 'plain')
    la, sa = _lbv(sw.get('lb_l', 1))
    lb, sb = _lbv(sw.get('lb_r', 1))
    arr, oth, dims, bare = LHS_KINDS[lhs_kind]
    dims = list(dims)
    rank2 = arr == 'c'
    ridx = [k for k, d in enumerate(dims) if d[0] == 'r']
    first = ridx[0]

    # context: the loop variable replaces the fixed subscript of col/row
    loopvar = None
    if ctx == 'loop_other':
        if lhs_kind == 'col':
            dims[1] = el(('@j', la))
            loopvar = ('j', 'm')
        elif lhs_kind == 'row':
            dims[0] = el(('@i', la))
            loopvar = ('i', 'n')
        else:
            loopvar = ('j', 'm')

    ldims = dims
    lbare = bare
    # ---- RHS
    lname = arr
    if rhs_kind.startswith('overlap_'):
        if bare or lhs_kind == 'full':
            return None
        k = first
        _, lo, hi, st, _c = dims[k]
        ldims, rdims = explicit(dims), explicit(dims)
        if rhs_kind.startswith('overlap_m1'):      # a(2:n) = a(1:n-1)
            ldims[k] = rng((lo[0], lo[1] + 1), hi, st)
            rdims[k] = rng(lo, (hi[0], hi[1] - 1), st)
        else:                              # a(1:n-1) = a(2:n)
            ldims[k] = rng(lo, (hi[0], hi[1] - 1), st)
            rdims[k] = rng((lo[0], lo[1] + 1), hi, st)
        # the same array spelled in the other letter case on one side (Fortran names are case-insensitive)
        rhs = reftxt(arr.upper() if rhs_kind.endswith('_ucrhs') else arr, la, rdims)
        lname = arr.upper() if rhs_kind.endswith('_uclhs') else arr
    elif rhs_kind == 'stride_mismatch':
        if lhs_kind == 'one_n':            # a(1:h) = b(1:2h-1:2)  -> written with n: h elements 1,3,..
            ldims = [rng(N1, H)]
            rhs = reftxt(oth, lb, [rng(N1, NN, 2)])
        elif lhs_kind == 'strided':        # a(1:n:2) = b(1:h)
            rhs = reftxt(oth, lb, [rng(N1, H)])
        else:
            return None
    else:
        same = reftxt(oth, lb, explicit(dims))
        if rhs_kind == 'same':
            rhs = same
        elif rhs_kind == 'scalar':
            rhs = 's'
        elif rhs_kind == 'colon':
            if any(dims[k][1][1] != 1 or dims[k][2][1] != 0 or dims[k][3] != 1 for k in ridx):
                return None
            rhs = reftxt(oth, lb, [d if d[0] == 'e' else rng(d[1], d[2], 1, True) for d in dims])
        elif rhs_kind == 'expr2':
            rhs = f'{reftxt(arr, la, dims, bare)}*0.5 + {same}'
        elif rhs_kind == 'reduction':
            rhs = f'sum({same})'
        elif rhs_kind == 'array_fn':
            if len(ridx) != 1:
                return None
            rhs = f'twice({same})'
        else:
            raise ValueError(rhs_kind)
    lhs = reftxt(lname, la, ldims, lbare)
    stmt = f'{lhs} = {rhs}'
    mask = f'{reftxt(oth, lb, explicit(ldims))} > 0.75'

    ind = '    '
    if ctx == 'plain':
        main = [stmt]
    elif ctx == 'where':
        main = [f'where ({mask})', '  ' + stmt, 'end where']
    elif ctx == 'where1':
        main = [f'where ({mask}) {stmt}']
    elif ctx == 'where_else':
        main = [f'where ({mask})', '  ' + stmt, 'elsewhere', f'  {lhs} = 0.25', 'end where']
    elif ctx == 'loop_other':
        v, ext = loopvar
        lo_, hi_ = at(('', 1), la), at((ext, 0), la)
        main = [f'do {v} = {lo_}, {hi_}', '  ' + stmt, f'  r = r + real({v}) * 0.25', 'end do']
    elif ctx == 'loop_same_range':
        _, lo, hi, st, _c = ldims[first]
        v = 'i' if first == 0 else 'j'
        main = [f'do {v} = {at(lo, la)}, {at(hi, la)}' + (f', {st}' if st != 1 else ''), '  ' + stmt,
                f'  r = r + real({v}) * 0.25', 'end do']
    else:
        raise ValueError(ctx)

    locals_, pre, post = [], [], []
    a1, an, a2, an1 = at(N1, la), at(NN, la), at(TWO, la), at(('n', -1), la)
    b1, bn = at(N1, lb), at(NN, lb)
    c1, cm = at(M1, la), at(MM, la)
    if sw.get('elem_nest'):
        pre += [f'do j = {c1}, {cm}', f'  do i = {a1}, {an}',
                f'    c(i,j) = c(i,j) + e({ptxt("i", lb - la)},{ptxt("j", lb - la)}) * 0.5', '  end do', 'end do']
    if sw.get('live_index'):
        post += [f'i = {a2}', f'a({a1}:{an}) = a({a1}:{an}) + 0.25', 'r = r + a(i)',
                 f'do i = {a1}, {an}', '  r = r + a(i) * 0.5', 'end do']
    if sw.get('two_stmts'):
        post += [f'a({a2}:{an1}) = a({a2}:{an1}) * 2.0', f'a({a1}:{an}) = a({a1}:{an}) + b({b1}:{bn})']
    if sw.get('call_section'):
        post += [f'call addone(a({a2}:{an1}))', f'call addone(c({a2}:{an},{at(TWO, la)}))']
    if sw.get('call_full'):
        post += ['call addone(a(:))', 'call addone(z=b(:))', 'r = r + total(b(:)) + total(z=a(:))', 'call addone(a)',
                 'call addone(c(:,' + at(M1, la) + '))']
    if sw.get('call_explicit'):
        post += ['call addn(n, a)', 'call addn(n, b(:))']
    if sw.get('literal_list'):
        post += [f'a({a1}:{at(("", 3), la)}) = (/ 0.5, 1.5, 2.5 /)']
    if sw.get('dt_member'):
        post += [f't%v(1:3) = b({b1}:{at(("", 3), lb)})', 't%v(:) = t%v(:) * 2.0', f't%v(2:3) = t%v(2:3) + a({a1}:{a2})']
    if sw.get('lbound_use'):
        post += ['r = r + real(lbound(b, 1)) + real(ubound(a(:), 1)) * 2.0']
    if sw.get('alloc_lhs'):
        locals_ += ['real, allocatable :: al(:)']
        post += [f'al = b({b1}:{at(("", 3), lb)})', 'r = r + al(2) + real(size(al))', 'al(:) = al(:) * 2.0', 'r = r + al(3)']
    if sw.get('dup_dims'):
        locals_ += ['real :: q(n,n)']
        post += ['q(1:n,1:n) = 0.5', f'q(1:n,1) = a({a1}:{an})', 'do i = 1, n', '  q(i,2) = q(i,1) + real(i)', 'end do',
                 'r = r + q(2,3) + q(3,2) + q(n,1)']
    if sw.get('inline_if'):
        post += [f'if (n > 4) a({a1}:{an}) = a({a1}:{an}) + 1.0', f'if (n <= 4) b({b1}:{bn}) = 2.0']
    if sw.get('dt_bounds'):
        locals_ += ['real :: wd(dm%k)']
        post += ['wd(:) = 1.5', f'wd = wd + b({b1}:{at(("", 3), lb)})', 'r = r + wd(2) + wd(dm%k)']

    decl = [
        'subroutine kern(n, m, s, a, b, c, e, t, dm, r)',
        '  integer, intent(in) :: n, m',
        '  real, intent(in) :: s',
        f'  real, intent(inout) :: a({decl_dim(la, sa, "n")}), b({decl_dim(lb, sb, "n")})',
        f'  real, intent(inout) :: c({decl_dim(la, sa, "n")},{decl_dim(la, sa, "m")}), '
        f'e({decl_dim(lb, sb, "n")},{decl_dim(lb, sb, "m")})',
        '  type(tt), intent(inout) :: t',
        '  type(dims), intent(in) :: dm',
        '  real, intent(inout) :: r',
        '  integer :: i, j, h',
        *['  ' + x for x in locals_],
        '  h = (n + 1) / 2',
    ]
    body = pre + main + post + [f'r = r + a({a2}) + c({a2},{at(M1, la)})']
    lines = ['  ' + x for x in decl] + [ind + x for x in body] + ['  end subroutine kern', 'end module vmod']
    return HEAD + '\n'.join(lines) + '\n'


# ---------------------------------------------------------------------------- transformations
XFORMS = [
    ('rvn', dict(resolve_implicit_rhs_ranges=True)),
    ('rvn', dict(resolve_implicit_rhs_ranges=False)),
    ('rvn', dict(resolve_implicit_rhs_ranges=True, insert_comments=True, substitute_derived_type_bounds=True)),
    ('rvd', dict(derive_qualified_ranges=False)),
    ('rvd', dict(derive_qualified_ranges=True)),
    ('rvd', dict(derive_qualified_ranges=True, resolve_implicit_rhs_ranges=False)),
    ('add', {}),
    ('rem', dict(calls_only=False)),
    ('rem', dict(calls_only=True)),
    ('add+rem', dict(calls_only=False)),
    ('nri', {}),
    ('nasa', {}),
    ('nasa+flatten', dict(order='F')),
    ('nasa+flatten', dict(order='C')),
    ('rvn+nasa+flatten', dict(order='F')),
    ('rvn+nasa+flatten', dict(order='C')),
]
def applicable(xf, sw):
    if xf == 'rvd' and (sw.get('ctx') == 'loop_same_range' or sw.get('live_index')):
        # the dimension's index variable is reserved for the horizontal loop in single-column code: neither a vector
        # statement inside a loop over it nor another use of it as a live scalar is meaningful input
        return False
    if 'nasa' in xf and sw.get('lbound_use') and (sw.get('lb_l') in (0, -1) or sw.get('lb_r') in (0, -1)):
        return False    # re-basing an array at 1 changes LBOUND/UBOUND by design
    if 'flatten' in xf and (sw.get('call_section') or sw.get('call_full')):
        return False    # partial sections of a rank-2 array as actual arguments cannot be expressed on flat storage
    if 'flatten' in xf and sw.get('rhs') == 'reduction' and sw.get('lhs') in ('col', 'row', 'all2', 'all2x'):
        return False    # ... nor can the rank-2 sections of a reduction statement, which resolve_vector_notation must leave alone
    if xf == 'nasa+flatten':
        # ... nor can partial rank-2 sections in assignments: these go through resolve_vector_notation first
        lhs, rhs = sw.get('lhs'), sw.get('rhs')
        if lhs in ('col', 'row', 'all2x') or sw.get('dup_dims'):
            return False
        if lhs == 'all2' and rhs not in ('colon', 'scalar'):
            return False
    return True


def sw_id(sw):
    return ','.join(f'{k}={v}' for k, v in sw.items()) or 'default'


def make_cases(d):
    menu = dict(MENU)
    menu.update({k: [True] for k in BLOCKS})
    cases = []
    make_cases.skipped = 0
    make_cases.programs = 0
    for dev in deviations(menu, d):
        text = build_program(dev)
        if text is None:
            make_cases.skipped += 1
            continue
        make_cases.programs += 1
        for xf, opts in XFORMS:
            if not applicable(xf, dev):
                continue
            oid = ','.join(f'{k}={v}' for k, v in sorted(opts.items()))
            cases.append(dict(id=f'{sw_id(dev)}|{xf}({oid})', sources=[['vmod.f90', text]], driver=DRIVER,
                              xform=xf, opts=opts, switches=[f'{k}={v}' for k, v in dev.items()]))
    return cases


make_cases.skipped = 0
make_cases.programs = 0


def _rvn(r, o):
    from loki.transformations.array_indexing import resolve_vector_notation
    try:
        resolve_vector_notation(r, **o)
    except AssertionError as ex:
        import traceback
        last = traceback.extract_tb(ex.__traceback__)[-1]
        if last.name == 'visit_MaskedStatement' and not str(ex):
            raise NotImplementedError('multi-clause WHERE is not supported (bare assert in visit_MaskedStatement)') from ex
        raise


def apply(case, files):
    """in place on the parsed Sourcefiles.  Python-level crashes (TypeError, AttributeError, ...) whose message happens to
    match vf.xform's refusal pattern ("unsupported operand type(s) ...") are re-raised with a neutral message: they are
    crashes, not explicit refusals."""
    try:
        _apply(case, files)
    except (TypeError, AttributeError, IndexError, KeyError, ValueError) as ex:
        if xform.REFUSAL_TEXT.search(str(ex)):
            raise type(ex)(xform.REFUSAL_TEXT.sub('<..>', str(ex))).with_traceback(ex.__traceback__) from None
        raise


def _apply(case, files):
    from loki import Dimension
    from loki.transformations.array_indexing import (
        resolve_vector_dimension, add_explicit_array_dimensions, remove_explicit_array_dimensions,
        normalize_range_indexing, normalize_array_shape_and_access, flatten_arrays, invert_array_indices)
    xf, o = case['xform'], dict(case['opts'])
    for sf in files.values():
        for r in sf.all_subroutines:
            if r.name.lower() != 'kern':
                continue
            if xf == 'rvn':
                _rvn(r, o)
            elif xf == 'rvd':
                dim = Dimension(name='horizontal', index='i', lower='1', upper='n', size='n')
                try:
                    resolve_vector_dimension(r, dim, **o)
                except AssertionError as ex:
                    import traceback
                    last = traceback.extract_tb(ex.__traceback__)[-1]
                    if last.name == 'visit_MaskedStatement' and not str(ex):
                        raise NotImplementedError('multi-clause WHERE is not supported (bare assert in visit_MaskedStatement)') from ex
                    raise
            elif xf == 'add':
                add_explicit_array_dimensions(r)
            elif xf == 'rem':
                remove_explicit_array_dimensions(r, **o)
            elif xf == 'add+rem':
                add_explicit_array_dimensions(r)
                remove_explicit_array_dimensions(r, **o)
            elif xf == 'nri':
                normalize_range_indexing(r)
            elif xf == 'nasa':
                normalize_array_shape_and_access(r)
            elif xf in ('nasa+flatten', 'rvn+nasa+flatten'):
                if xf.startswith('rvn'):
                    _rvn(r, {})
                normalize_array_shape_and_access(r)
                if o['order'] == 'C':
                    invert_array_indices(r)
                flatten_arrays(r, order=o['order'], start_index=1)
            else:
                raise ValueError(xf)


FLAGS = tuple(xform.FLAGS) + ('-finit-integer=-9999',)   # an index the rewrite forgot to set aborts deterministically


def worker(case):
    r = xform.run_case(case, apply, base=worker.base, flags=FLAGS)
    r['id'] = case['id']
    return r


worker.base = None
_MODRE = re.compile(r'(?i)\b(module\s+)vmod\b')


def _batch_driver(ks):
    lines = ['program drvb', '  implicit none', '  character(len=16) :: arg', '  call get_command_argument(1, arg)',
             '  select case (trim(arg))']
    for k in ks:
        lines += [f"  case ('{k}')", f'    call run_{k}()']
    lines += ['  end select', 'contains']
    for k in ks:
        body = DRIVER.replace('end program drv', f'end subroutine run_{k}').replace('program drv', f'subroutine run_{k}()')
        body = body.replace('use vmod', f'use vmod_{k}')
        lines.append(body.rstrip('\n'))
    lines.append('end program drvb')
    return '\n'.join(lines) + '\n'


def _fast_batch(group):
    """Fast path for one program: the original and every distinct transformed module are compiled in ONE gfortran
    run (module renamed vmod_<k>) and executed one by one.  A variant is accepted here only if it compiles, exits 0
    and prints exactly the original's output; everything else (Loki exception, compile/run error, different output)
    is left to the unmodified xform.run_case so that every non-ok verdict comes from the standard path.
    -> {index in group: result dict}"""
    from vf import gf
    from loki import Sourcefile, Frontend
    xform.quiet()
    src = group[0]['sources']
    try:
        base_text = [Sourcefile.from_source(t, frontend=Frontend.FP).to_fortran() for _f, t in src]
    except Exception:  # pylint: disable=broad-except
        return {}
    texts = {}      # transformed text -> k
    of_case = {}    # n -> k
    for n, case in enumerate(group):
        try:
            files = xform.parse_sources(case)
            apply(case, files)
            new = files[src[0][0]].to_fortran()
        except Exception:  # pylint: disable=broad-except
            continue
        of_case[n] = texts.setdefault(new, len(texts) + 1)
    if not of_case:
        return {}
    mods = {0: src[0][1]}
    mods.update({k: t for t, k in texts.items()})
    outs = {}
    live = sorted(mods)
    with gf.Build(worker.base) as b:
        for _attempt in range(3):
            names = [b.write(f'vmod_{k}.f90', _MODRE.sub(rf'\g<1>vmod_{k}', mods[k])).name for k in live]
            names.append(b.write('zz_driver.f90', _batch_driver(live)).name)
            ok, err = b.fcompile(names, flags=list(FLAGS))
            if ok:
                break
            bad = {int(m) for m in re.findall(r'vmod_(\d+)\.f90:\d+', err or '')}
            if not bad or 0 in bad:
                return {}
            live = [k for k in live if k not in bad]
        else:
            return {}
        for k in live:
            rc, out, _e = b.run(['./a.out', str(k)], timeout=60)
            if rc == 0:
                outs[k] = xform.norm_out(out)
    if 0 not in outs or not outs[0]:
        return {}
    res = {}
    for n, k in of_case.items():
        if outs.get(k) == outs[0]:
            new = next(t for t, kk in texts.items() if kk == k)
            changed = [new] != base_text
            res[n] = dict(verdict='ok' if changed else 'unchanged-ok', detail='', changed=changed, transformed=None,
                          nlines=len(outs[0]), distinct_lines=len(set(outs[0])), id=group[n]['id'])
    return res


def group_worker(group):
    """all transformation variants of one program.  Variants that behave like the original are accepted by the
    batched fast path; the rest go through xform.run_case (unchanged), whose build step is memoised for the
    duration of the group so that the original is built once."""
    import os
    fast = {} if os.environ.get('VERIF_C30_NOBATCH') else _fast_batch(group)
    memo = {}
    real = xform.build_run

    def cached(sources, driver, extra=(), base=None, flags=FLAGS, timeout=60):
        key = (tuple((f, t) for f, t in sources), driver, tuple((f, t) for f, t in extra), tuple(flags))
        if key not in memo:
            memo[key] = real(sources, driver, extra, base=base, flags=flags, timeout=timeout)
        return memo[key]
    xform.build_run = cached
    try:
        out = [fast[n] if n in fast else worker(case) for n, case in enumerate(group)]
    finally:
        xform.build_run = real
    if os.environ.get('VERIF_PROGRESS'):
        with open(os.environ['VERIF_PROGRESS'], 'a') as f:
            f.write(group[0]['id'].split('|', 1)[0] + ' ' + ' '.join(r['verdict'] for r in out) + '\n')
    return out


def judge_grouped(ctx, cases):
    from vf.explore import seeded_order
    groups = {}
    for n, c in enumerate(cases):
        groups.setdefault(c['id'].split('|', 1)[0], []).append(n)
    keys = seeded_order(list(groups), ctx.seed)
    res = ctx.pmap(group_worker, [[cases[n] for n in groups[k]] for k in keys], chunksize=1)
    out = [None] * len(cases)
    for k, rs in zip(keys, res):
        for n, r in zip(groups[k], rs):
            out[n] = r
    return out


PREFIX = {'rvn+nasa+flatten': ['rvn()', 'nasa()'], 'nasa+flatten': ['nasa()'], 'add+rem': ['add()']}
_RVN0 = 'rvn(resolve_implicit_rhs_ranges=True)'


VIOLATING = ('loki-exception', 'xform-compile-error', 'xform-run-error', 'output-differs')


def canon_switch(s):
    """switch spelling used in signatures: the two non-unit lower bounds are one class"""
    return re.sub(r'^(lb_[lr])=(0|-1)$', r'\1=nonunit', s)


def exception_site(detail):
    """'TypeError: ... @ File ".../array_indices.py", line 171, in normalize_array_shape_and_access' -> 'TypeError in
    normalize_array_shape_and_access' (no line number: stable under unrelated edits)"""
    etype = detail.split(':', 1)[0].strip()
    m = re.search(r' in (\w+)\s*$', detail.strip())
    return f'{etype} in {m.group(1)}' if m else etype


def sigfn(results_by_id):
    def fails_same(pid, verdict):
        r = results_by_id.get(pid)
        return r is not None and r['verdict'] == verdict

    def sig(case, r):
        swid, xf = case['id'].split('|', 1)
        fam, verdict, detail = case['xform'], r['verdict'], r.get('detail', '')
        # a pipeline whose earlier stage alone already fails on the same program is that stage's finding
        # (the later stages only change how the damage shows)
        for stage in PREFIX.get(fam, ()):
            stage_id = _RVN0 if stage == 'rvn()' else stage
            sr = results_by_id.get(f'{swid}|{stage_id}')
            if sr is not None and sr['verdict'] in VIOLATING:
                fam, xf, verdict, detail = stage.split('(')[0], stage_id, sr['verdict'], sr.get('detail', '')
                break
        if verdict == 'loki-exception':
            # a crash is named by where it happens, not by the inputs that reach it
            return f'loki-exception {exception_site(detail)} xform={fam}'
        # a failing single-switch case explains multi-switch cases that contain the switch (same xform, same verdict)
        if fails_same(f'default|{xf}', verdict):
            return f'{verdict} block=default xform={fam}'
        for s in case['switches']:
            if fails_same(f'{s}|{xf}', verdict):
                return f'{verdict} block={canon_switch(s)} xform={fam}'
        return f'{verdict} blocks={"+".join(canon_switch(s) for s in case["switches"]) or "default"} xform={fam}'
    return sig


def run(ctx):
    d = 1 if ctx.quick else 2
    cases = make_cases(d)
    worker.base = str(ctx.scratch)
    ctx.reset_pool()
    results = judge_grouped(ctx, cases)
    by_id = {r['id']: r for r in results}
    xform.summarise(ctx, cases, results, sigfn(by_id), min_changed=20)
    per_x = {}
    for c, r in zip(cases, results):
        t = per_x.setdefault(c['xform'], {})
        t[r['verdict']] = t.get(r['verdict'], 0) + 1
    for fam in {x for x, _ in XFORMS}:
        ctx.require(per_x.get(fam, {}).get('ok', 0) >= 1, f'vacuous: {fam} never changed a program that still ran correctly')
    ctx.cov.update(
        exhaustive=True, per_xform=per_x, programs=make_cases.programs, skipped_meaningless_combinations=make_cases.skipped,
        bound=dict(max_switches=d, multi_valued={k: len(v) + 1 for k, v in MENU.items()}, blocks=len(BLOCKS), xforms=len(XFORMS)),
        rule=f'all combinations of <= {d} deviations over {len(MENU)} multi-valued switches and {len(BLOCKS)} feature blocks x '
             f'{len(XFORMS)} transformation variants (inapplicable variant/program pairs not generated); 2 inputs per run; '
             'non-trivial = the transformation changed the generated code and the program still prints the original output',
        samples=[dict(id=cases[0]['id']), dict(id=cases[-1]['id'], text=cases[-1]['sources'][0][1])],
    )
    ctx.assumptions += ['gfortran -O0 -fcheck=bounds defines behaviour', 'only standard-conforming programs are generated',
                        'flatten_arrays start_index=0, shift_to_zero_indexing and invert_array_indices alone are judged through the C backend (C35)']


def replay(case):
    r = xform.run_case(case, apply, flags=FLAGS)
    if r['verdict'] == 'HARNESS':
        raise RuntimeError(r['detail'])
    return None if r['verdict'] in ('ok', 'unchanged-ok', 'refused') else f'{r["verdict"]}: {r["detail"]}'
