#!/venv/bin/python
"""Regenerate MANIFEST.json from the check modules' META and not_applicable.json."""
import importlib, json, sys
from pathlib import Path
ROOT = Path(__file__).resolve().parent.parent
sys.path.insert(0, str(ROOT))
props = [json.loads(l) for l in (ROOT / 'properties.jsonl').read_text().splitlines() if l.strip()]
na_file = ROOT / 'not_applicable.json'
na_reasons = json.loads(na_file.read_text()) if na_file.exists() else {}
ready = set(json.loads((ROOT / 'ready.json').read_text()))
checks, na = [], []
for p in props:
    pid = p['id']
    hits = sorted((ROOT / 'checks').glob(f'{pid.lower()}_*.py'))
    if not hits or pid in na_reasons or pid not in ready:
        na.append(dict(property_id=pid, reason=na_reasons.get(
            pid, 'check still under construction / not yet validated on the unchanged tree; nothing is claimed for this property yet')))
        continue
    mod = importlib.import_module(f'checks.{hits[0].stem}')
    m = mod.META
    checks.append(dict(
        property_id=pid,
        quick_cmd=f'./check {pid} --tier quick',
        thorough_cmd=f'./check {pid} --tier thorough',
        evidence_file=f'/verif/evidence/{pid}.json',
        replay_cmd_template=f'./check {pid} --replay {{path}}',
        engine=m['engine'],
        level_claimed=dict(category=mod.LEVEL, text=m['level_text'], design_ref=m.get('design_ref', f'DESIGN.md §4 {pid}')),
        level_note=m['level_note'],
        technique=m['technique'],
    ))
man = dict(
    version=1,
    setup_cmd='/venv/bin/python -m vf.selftest',
    hooks=dict(guard='LOKI_VERIF', enable='no source hooks exist: every seam is injected from the harness '
               '(module globals, user-supplied rules/compilers); ./check exports LOKI_VERIF=1 for uniformity',
               baseline_off_cmd='cd /repo && /venv/bin/python -m pytest -ra -q -p no:cacheprovider --timeout=900 '
                                '--continue-on-collection-errors',
               source_commits=[], add_only=True),
    engines=[
        dict(name='enum', path='/verif/vf/explore.py', kind_free_text='bounded-exhaustive input enumeration (size- and deviation-bounded), all cores',
             serves_properties=[c['property_id'] for c in checks if c['engine'] == 'enum']),
        dict(name='seq', path='/verif/vf/explore.py', kind_free_text='explicit-state BFS over operation histories on the real objects with a lock-step reference model',
             serves_properties=[c['property_id'] for c in checks if c['engine'] == 'seq']),
        dict(name='sched', path='/verif/vf/vsched.py', kind_free_text='stateless DFS over schedules of a virtual worker pool driving the real orchestration code',
             serves_properties=[c['property_id'] for c in checks if c['engine'] == 'sched']),
    ],
    checks=checks,
    not_applicable=na,
    notes='All checks: ./check <ID> --tier quick|thorough [--replay file]; exit 0 held / 1 VIOLATION / 2 HARNESS-ERROR. '
          'Known findings live in /verif/known_findings/<ID>.json (read-only at run time).',
)
import jsonschema
jsonschema.validate(man, json.loads((ROOT / 'vf' / 'MANIFEST.schema.json').read_text()))
(ROOT / 'MANIFEST.json').write_text(json.dumps(man, indent=1) + '\n')
print(f'MANIFEST: {len(checks)} checks, {len(na)} not_applicable')
