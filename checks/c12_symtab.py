"""C12  Symbol tables behave as scoped, case-insensitive mappings.

SEQ: explicit-state BFS over operation histories on three real nested `Scope`s (and,
separately, on `CaseInsensitiveDict`/`CaseInsensitiveDefaultDict`), with a plain-dict
reference model in lock-step.  After every transition the outcome of the operation and a
full observation sweep (every slot x every spelling x every look-up API) are compared.
A state is the history that reaches it; real objects are rebuilt by replay.
"""
from vf.explore import bfs_levels

PROPERTY = 'C12'
LEVEL = 'model_checking'
META = dict(
    engine='seq',
    technique='explicit-state BFS over operation histories on real Scope/SymbolTable/CaseInsensitiveDict objects, lock-step dict model',
    level_text='all operation histories up to the depth bound over 3 nested real scopes and names differing in case / '
               'subscripts; after every transition the outcome and a full observation sweep (in, get, [], lookup, get_type, '
               'get_symbol_scope, contents, copy-independence) equal a plain-dict reference model',
    level_note='runs directly on the implementation (every explored trace is an implementation trace); model = dicts keyed by '
               'folded name + parent links; bare Scope objects (not IR nodes) carry the tables',
)

NAMES_Q = ['a', 'A', 'B(1)']
NAMES_T = ['a', 'A', 'b', 'B(1)']
TYPES = ['T1', 'T2']


def fold(name):
    return name.lower().partition('(')[0]


# ------------------------------------------------------------------ model
class Model:
    """nodes: list of dict(table={folded: tag}, parent=index|None); slots: slot -> node"""

    def __init__(self):
        self.nodes = [dict(table={}, parent=None), dict(table={}, parent=0), dict(table={}, parent=1)]
        self.slots = [0, 1, 2]

    def tbl(self, slot):
        return self.nodes[self.slots[slot]]['table']

    def lookup(self, slot, name, recursive):
        n = self.slots[slot]
        k = fold(name)
        while n is not None:
            t = self.nodes[n]['table']
            if k in t:
                return t[k], n
            if not recursive:
                return None, None
            n = self.nodes[n]['parent']
        return None, None

    def apply(self, ev):
        """returns outcome tuple"""
        op = ev[0]
        if op in ('set', 'update_dict', 'update_pairs'):
            _, s, name, ty = ev
            self.tbl(s)[fold(name)] = ty
            return ('ok',)
        if op == 'setdefault':
            _, s, name, ty = ev
            self.tbl(s).setdefault(fold(name), ty or 'DEFERRED')
            return ('ok',)
        if op in ('del', 'pop'):
            _, s, name = ev
            t = self.tbl(s)
            if fold(name) in t:
                v = t.pop(fold(name))
                return ('ok', v) if op == 'pop' else ('ok',)
            return ('KeyError',)
        if op == 'pop_default':
            _, s, name = ev
            t = self.tbl(s)
            return ('ok', t.pop(fold(name), 'DEFAULT'))
        if op == 'declare':
            _, s, name, ty = ev
            t = self.tbl(s)
            if fold(name) in t:
                return ('ValueError',)
            t[fold(name)] = ty
            return ('ok',)
        if op == 'scope_update':
            _, s, name = ev
            t = self.tbl(s)
            if fold(name) not in t:
                return ('ValueError',)
            t[fold(name)] = t[fold(name)] if t[fold(name)].endswith('+upd') else t[fold(name)] + '+upd'
            return ('ok',)
        if op == 'clone':
            _, s = ev
            old = self.nodes[self.slots[s]]
            self.nodes.append(dict(table=dict(old['table']), parent=old['parent']))
            self.slots[s] = len(self.nodes) - 1
            return ('ok',)
        if op == 'table_clone':
            # replace the table of slot s by its clone: observationally a no-op
            return ('ok',)
        if op == 'reparent':
            _, s, p = ev
            self.nodes[self.slots[s]]['parent'] = None if p is None else self.slots[p]
            return ('ok',)
        raise ValueError(ev)

    def observe(self, names):
        obs = []
        for s in range(3):
            t = self.tbl(s)
            obs.append(('keys', s, tuple(sorted(t.items()))))
            for name in names:
                k = fold(name)
                obs.append(('in', s, name, k in t))
                obs.append(('get', s, name, t.get(k)))
                obs.append(('getitem', s, name, t[k] if k in t else 'KeyError'))
                obs.append(('lookup_nr', s, name, self.lookup(s, name, False)[0]))
                v, n = self.lookup(s, name, True)
                obs.append(('lookup_r', s, name, v))
                obs.append(('get_type', s, name, v))
                obs.append(('symbol_scope', s, name, n))
        return obs


# ------------------------------------------------------------------ real
def _mk_type(tag):
    from loki.types import SymbolAttributes, BasicType
    if tag == 'T1':
        return SymbolAttributes(BasicType.INTEGER)
    if tag == 'T2':
        return SymbolAttributes(BasicType.REAL, intent='in')
    raise ValueError(tag)


def _tag(attr):
    if attr is None:
        return None
    from loki.types import BasicType
    base = {BasicType.INTEGER: 'T1', BasicType.REAL: 'T2', BasicType.DEFERRED: 'DEFERRED'}.get(attr.dtype, str(attr.dtype))
    if base == 'T2' and attr.intent != 'in':
        base += f'!intent={attr.intent}'
    if base == 'T1' and attr.intent is not None:
        base += f'!intent={attr.intent}'
    if getattr(attr, 'upd', None):
        base += '+upd'
    if getattr(attr, 'poison', None):
        base += '!POISONED'
    return base


class Real:
    def __init__(self):
        from loki.types import Scope
        s0 = Scope()
        s1 = Scope(parent=s0)
        s2 = Scope(parent=s1)
        self.nodes = [s0, s1, s2]      # keep every scope alive (parents are weak references)
        self.slots = [0, 1, 2]

    def scope(self, s):
        return self.nodes[self.slots[s]]

    def apply(self, ev):
        op = ev[0]
        try:
            if op == 'set':
                _, s, name, ty = ev
                self.scope(s).symbol_attrs[name] = _mk_type(ty)
                return ('ok',)
            if op == 'update_dict':
                _, s, name, ty = ev
                self.scope(s).symbol_attrs.update({name: _mk_type(ty)})
                return ('ok',)
            if op == 'update_pairs':
                _, s, name, ty = ev
                self.scope(s).symbol_attrs.update([(name, _mk_type(ty))])
                return ('ok',)
            if op == 'setdefault':
                _, s, name, ty = ev
                if ty is None:
                    self.scope(s).symbol_attrs.setdefault(name)
                else:
                    self.scope(s).symbol_attrs.setdefault(name, _mk_type(ty))
                return ('ok',)
            if op == 'del':
                _, s, name = ev
                del self.scope(s).symbol_attrs[name]
                return ('ok',)
            if op == 'pop':
                _, s, name = ev
                v = self.scope(s).symbol_attrs.pop(name)
                return ('ok', _tag(v))
            if op == 'pop_default':
                _, s, name = ev
                v = self.scope(s).symbol_attrs.pop(name, 'DEFAULT')
                return ('ok', v if isinstance(v, str) else _tag(v))
            if op == 'declare':
                _, s, name, ty = ev
                t = _mk_type(ty)
                kw = {'intent': t.intent} if t.intent else {}
                self.scope(s).declare(name, t.dtype, **kw)
                return ('ok',)
            if op == 'scope_update':
                _, s, name = ev
                self.scope(s).update(name, upd=True)
                return ('ok',)
            if op == 'clone':
                _, s = ev
                new = self.scope(s).clone()
                self.nodes.append(new)
                self.slots[s] = len(self.nodes) - 1
                return ('ok',)
            if op == 'table_clone':
                _, s = ev
                sc = self.scope(s)
                new = sc.symbol_attrs.clone()
                # a cloned table must be a full stand-in: same content, same parent
                object.__setattr__(sc, 'symbol_attrs', new)
                for other in self.nodes:
                    if other.parent is sc:
                        other.symbol_attrs.parent = new
                return ('ok',)
            if op == 'reparent':
                _, s, p = ev
                self.scope(s)._reset_parent(None if p is None else self.scope(p))  # pylint: disable=protected-access
                if p is None:
                    self.scope(s).symbol_attrs.parent = None
                return ('ok',)
        except KeyError:
            return ('KeyError',)
        except ValueError:
            return ('ValueError',)
        raise ValueError(ev)

    def observe(self, names):
        obs = []
        for s in range(3):
            sc = self.scope(s)
            t = sc.symbol_attrs
            obs.append(('keys', s, tuple(sorted((k, _tag(v)) for k, v in dict.items(t)))))
            for name in names:
                obs.append(('in', s, name, name in t))
                obs.append(('get', s, name, _tag(t.get(name))))
                try:
                    v = t[name]
                    # independence: mutate the returned copy; the sweep below re-reads
                    v.poison = True
                    v = _tag(t[name])
                except KeyError:
                    v = 'KeyError'
                obs.append(('getitem', s, name, v))
                lv = t.lookup(name, recursive=False)
                if lv is not None:
                    lv.poison = True
                obs.append(('lookup_nr', s, name, _tag(t.lookup(name, recursive=False))))
                lv = t.lookup(name, recursive=True)
                if lv is not None:
                    lv.poison = True
                obs.append(('lookup_r', s, name, _tag(t.lookup(name, recursive=True))))
                gt = sc.get_type(name, fail=False)
                if gt is not None:
                    gt.poison = True
                obs.append(('get_type', s, name, _tag(sc.get_type(name, fail=False))))
                ss = sc.get_symbol_scope(name)
                obs.append(('symbol_scope', s, name,
                            None if ss is None else next(i for i, n in enumerate(self.nodes) if n is ss)))
        return obs

    def canon(self):
        out = []
        for sc in self.nodes:
            p = sc.parent
            pi = None if p is None else next(i for i, n in enumerate(self.nodes) if n is p)
            tp = sc.symbol_attrs.parent
            tpi = None if tp is None else next((i for i, n in enumerate(self.nodes) if n.symbol_attrs is tp), -1)
            out.append((tuple(sorted((k, _tag(v)) for k, v in dict.items(sc.symbol_attrs))), pi, tpi))
        return (tuple(out), tuple(self.slots))


def events(names, full):
    evs = []
    for s in range(3):
        for n in names:
            for ty in TYPES:
                evs.append(('set', s, n, ty))
                evs.append(('declare', s, n, ty))
                if full or ty == 'T1':
                    evs.append(('update_dict', s, n, ty))
                    evs.append(('setdefault', s, n, ty))
                if full and ty == 'T2':
                    evs.append(('update_pairs', s, n, ty))
            evs.append(('setdefault', s, n, None))
            evs.append(('del', s, n))
            evs.append(('pop', s, n))
            evs.append(('pop_default', s, n))
            evs.append(('scope_update', s, n))
        evs.append(('table_clone', s))
    evs += [('reparent', 2, 0), ('reparent', 2, 1), ('reparent', 1, None), ('reparent', 1, 0), ('reparent', 2, None)]
    return evs


def _canon_small(canon):
    """Merge states that differ only by dead (no longer reachable) nodes."""
    nodes, slots = canon
    live = set()
    for s in slots:
        n = s
        while n is not None and n not in live:
            live.add(n)
            n = nodes[n][1]
    order = sorted(live, key=lambda n: (slots.index(n) if n in slots else 99, n))
    ren = {n: i for i, n in enumerate(order)}
    return (tuple((nodes[n][0], ren.get(nodes[n][1]), ren.get(nodes[n][2], nodes[n][2])) for n in order),
            tuple(ren[s] for s in slots))


def replay_history(hist):
    real, model = Real(), Model()
    for ev in hist:
        r, m = real.apply(ev), model.apply(ev)
        if r != m:
            return real, model, (ev, r, m)
    return real, model, None


def diff_obs(real, model, names):
    ro, mo = real.observe(names), model.observe(names)
    return [(r, m) for r, m in zip(ro, mo) if r != m]


def sig_of(ev, kind, extra=''):
    op = ev[0]
    name = next((x for x in ev[1:] if isinstance(x, str) and x not in TYPES), None)
    spell = 'none' if name is None else ('lower' if name == fold(name) else
                                         'subscripted' if '(' in name else 'upper')
    return f'symtab op={op} spelling={spell} {kind}{extra}'


_CFG = {}


def expand(hist):
    names, full = _CFG['names'], _CFG['full']
    out = []
    for ev in events(names, full):
        real, model, bad = replay_history(tuple(hist) + (ev,))
        case = dict(kind='symtab', history=[list(e) for e in tuple(hist) + (ev,)], names=names)
        if bad:
            if bad[0] is not ev and list(bad[0]) != list(ev):
                # divergence inside the already-accepted prefix: harness bug
                raise RuntimeError(f'divergence in accepted prefix {hist}: {bad}')
            out.append((ev, None, [(sig_of(ev, 'outcome', f' real={bad[1][0]} model={bad[2][0]}'), case,
                                    f'after {list(hist)}: {ev} -> real {bad[1]}, reference mapping {bad[2]}')]))
            continue
        d = diff_obs(real, model, names)
        if d:
            r, m = d[0]
            out.append((ev, None, [(sig_of(ev, f'observation={r[0]}'), case,
                                    f'after {list(hist)} + {ev}: {r} but reference mapping says {m} '
                                    f'({len(d)} differing observations)')]))
            continue
        out.append((ev, _canon_small(real.canon()), []))
    return out


# ------------------------------------------------------------------ CaseInsensitiveDict
CID_KEYS = ['k', 'K', 'Kx', 'kX', 7]


def cid_fold(k):
    return k.lower() if isinstance(k, str) else k


def cid_events():
    evs = []
    for k in CID_KEYS:
        for v in (1, 2):
            evs += [('set', k, v), ('setdefault', k, v), ('update', k, v), ('update_kw', k, v)]
        evs += [('del', k), ('pop', k), ('pop_default', k), ('copy',), ('ctor', k)]
    return [e for e in evs if not (e[0] == 'update_kw' and not isinstance(e[1], str))]


def cid_apply_model(d, ev):
    op = ev[0]
    if op in ('set', 'update', 'update_kw'):
        d[cid_fold(ev[1])] = ev[2]
        return ('ok',)
    if op == 'setdefault':
        return ('ok', d.setdefault(cid_fold(ev[1]), ev[2]))
    if op == 'del':
        if cid_fold(ev[1]) in d:
            del d[cid_fold(ev[1])]
            return ('ok',)
        return ('KeyError',)
    if op == 'pop':
        if cid_fold(ev[1]) in d:
            return ('ok', d.pop(cid_fold(ev[1])))
        return ('KeyError',)
    if op == 'pop_default':
        return ('ok', d.pop(cid_fold(ev[1]), 'DEFAULT'))
    if op in ('copy', 'ctor'):
        return ('ok',)
    raise ValueError(ev)


def cid_apply_real(box, ev):
    d = box[0]
    op = ev[0]
    try:
        if op == 'set':
            d[ev[1]] = ev[2]
            return ('ok',)
        if op == 'update':
            d.update({ev[1]: ev[2]})
            return ('ok',)
        if op == 'update_kw':
            d.update(**{ev[1]: ev[2]})
            return ('ok',)
        if op == 'setdefault':
            return ('ok', d.setdefault(ev[1], ev[2]))
        if op == 'del':
            del d[ev[1]]
            return ('ok',)
        if op == 'pop':
            return ('ok', d.pop(ev[1]))
        if op == 'pop_default':
            return ('ok', d.pop(ev[1], 'DEFAULT'))
        if op == 'copy':
            box[0] = d.copy()
            return ('ok',)
        if op == 'ctor':
            box[0] = type(d)(list(d.items()))
            return ('ok',)
    except KeyError:
        return ('KeyError',)
    raise ValueError(ev)


def cid_observe_real(d):
    obs = [('len', len(d)), ('keys', tuple(sorted(map(str, dict.keys(d)))))]
    for k in CID_KEYS:
        try:
            gi = d[k]
        except KeyError:
            gi = 'KeyError'
        obs += [('in', k, k in d), ('get', k, d.get(k)), ('getitem', k, gi)]
    return obs


def cid_observe_model(d):
    obs = [('len', len(d)), ('keys', tuple(sorted(map(str, d.keys()))))]
    for k in CID_KEYS:
        f = cid_fold(k)
        obs += [('in', k, f in d), ('get', k, d.get(f)), ('getitem', k, d[f] if f in d else 'KeyError')]
    return obs


def cid_new(cls_name):
    from loki.tools import util
    cls = getattr(util, cls_name)
    if cls_name == 'CaseInsensitiveDefaultDict':
        return cls(None)   # no default factory: behaves as a plain mapping
    return cls()


def cid_replay(cls_name, hist):
    box, m = [cid_new(cls_name)], {}
    for ev in hist:
        if cls_name == 'CaseInsensitiveDefaultDict' and ev[0] == 'ctor':
            continue
        r, mm = cid_apply_real(box, ev), cid_apply_model(m, ev)
        if r != mm:
            return box[0], m, (ev, r, mm)
    return box[0], m, None


def cid_expand(item):
    cls_name, hist = _CFG['cid_cls'], item
    out = []
    for ev in cid_events():
        h = tuple(hist) + (ev,)
        d, m, bad = cid_replay(cls_name, h)
        case = dict(kind='cid', cls=cls_name, history=[list(e) for e in h])
        k = ev[1] if len(ev) > 1 else None
        spell = 'none' if k is None else 'nonstring' if not isinstance(k, str) else \
            'lower' if k == k.lower() else 'mixed'
        if bad:
            out.append((ev, None, [(f'{cls_name} op={ev[0]} spelling={spell} outcome real={bad[1][0]} model={bad[2][0]}',
                                    case, f'after {list(hist)}: {ev} -> real {bad[1]}, reference mapping {bad[2]}')]))
            continue
        ro, mo = cid_observe_real(d), cid_observe_model(m)
        dd = [(a, b) for a, b in zip(ro, mo) if a != b]
        if dd:
            out.append((ev, None, [(f'{cls_name} op={ev[0]} spelling={spell} observation={dd[0][0][0]}', case,
                                    f'after {list(hist)} + {ev}: {dd[0][0]} but reference mapping says {dd[0][1]}')]))
            continue
        out.append((ev, tuple(sorted((str(a), b) for a, b in dict.items(d))), []))
    return out


# ------------------------------------------------------------------ driver
def run(ctx):
    names = NAMES_Q if ctx.quick else NAMES_T
    depth = 4 if ctx.quick else 5
    _CFG.update(names=names, full=not ctx.quick)
    ctx.reset_pool()   # config must reach forked workers
    r0 = Real()
    res = bfs_levels(ctx, expand, depth, _canon_small(r0.canon()))
    for sig, case, det in res['violations']:
        ctx.violation(sig, case, det)
    states, trans = res['states'], res['transitions']
    cid_stats = {}
    for cls_name in ('CaseInsensitiveDict', 'CaseInsensitiveDefaultDict'):
        _CFG['cid_cls'] = cls_name
        ctx.reset_pool()
        r = bfs_levels(ctx, cid_expand, 3 if ctx.quick else 4, ())
        for sig, case, det in r['violations']:
            ctx.violation(sig, case, det)
        cid_stats[cls_name] = dict(states=r['states'], transitions=r['transitions'], depth=r['depth'])
        states += r['states']
        trans += r['transitions']
    nev = len(events(names, not ctx.quick))
    ctx.cov.update(
        states=states, transitions=trans, traces_validated_against_impl=trans,
        evaluations=trans, distinct_nontrivial=states, exhaustive=not res['capped'],
        rule=f'BFS over all histories of <= {depth} operations from {nev} events on 3 nested real Scopes '
             f'(names {names}, 2 types; set/declare/update/setdefault/del/pop/scope-update/clone/table-clone/'
             f're-parent), states merged on the canonical content of the live tables; every transition is an '
             f'implementation trace compared with the dict model (outcome + {len(names) * 7 * 3 + 3} observations); '
             f'plus the same for CaseInsensitiveDict/DefaultDict with keys {CID_KEYS}',
        samples=[dict(history=[['set', 1, 'A', 'T1'], ['del', 1, 'a'], ['reparent', 2, 0]]),
                 dict(cid_history=[['set', 'Kx', 1], ['pop', 'kX']])],
        depth=res['depth'], symtab=dict(states=res['states'], transitions=res['transitions']), cid=cid_stats,
    )
    ctx.assumptions += ['reference model = plain dicts keyed by lower-cased, subscript-stripped name + parent links',
                        "setdefault's return value on SymbolTable is not compared (undocumented)"]


def replay(case):
    if case.get('kind') == 'cid':
        hist = [tuple(e) for e in case['history']]
        d, m, bad = cid_replay(case['cls'], hist)
        if bad:
            return f'{bad[0]} -> real {bad[1]}, reference {bad[2]}'
        ro, mo = cid_observe_real(d), cid_observe_model(m)
        dd = [(a, b) for a, b in zip(ro, mo) if a != b]
        return f'observations differ: {dd[:3]}' if dd else None
    hist = [tuple(None if x is None else x for x in e) for e in case['history']]
    real, model, bad = replay_history(hist)
    if bad:
        return f'{bad[0]} -> real {bad[1]}, reference {bad[2]}'
    d = diff_obs(real, model, case.get('names', NAMES_T))
    return f'observations differ: {d[:3]}' if d else None
