"""C07  The standalone expression parser (`loki.expression.parser.parse_expr`) follows Fortran semantics.

ENUM over expression *strings*.  A string is rendered from a structured case

    operands X0 .. Xk,  binary operators O1 .. Ok  (k <= K),  an optional leading unary (- / .not.),
    at most one parenthesised group (Xi .. Xj), i <= j, with an optional unary directly inside it,
    a layout style (spaced / compact / upper-case)

Sweeps (all complete for their stated bound, nothing sampled):

  S  structure sweep: every operator-class sequence over {+ - * / ** REL .and. .or.} with k <= K, every group
     position, every unary combination, default operands (a distinct integer / logical variable per position);
     the REL class is spelled by a rotation over the 12 comparison spellings (VERIF_SEED shifts the rotation);
  R  comparison sweep: every structure of S with k <= KR that contains a comparison, every single comparison
     position x all 12 spellings;
  E  .eqv./.neqv. sweep: S extended with the two equivalence operators for k <= KE;
  O  operand sweep: every structure with k <= KO (with a group only for k <= KOG), every single position x every
     operand alternative of the right
     type (int/real/logical literals with and without kinds, real variables, a(i), b(i,2), t%x, t%y, t%p, lg(i),
     max(i,w), upper-case names), plus the uniform themes (all numeric positions real variables / int literals);
  L  layout sweep: every structure with k <= KL in the compact (no blanks) and the upper-case style.

Only well-formed, well-typed, standard-conforming strings are kept (judged by the harness's own Fortran text
model `vf.exprsem.texteval(allow_ext=False)` on a typed valuation).  Conformance of that model: gfortran 12
evaluates the same masked grid (hash of all values compared): thorough = every string with <= 3 operators plus
every 4-operator string without a parenthesised group; quick = every string with <= 1 operator plus the S/E
sweeps with 2.  A disagreement is a HARNESS-ERROR.

Oracle, per string s and per valuation sigma of a complete small grid (guarded: valuations on which Fortran
leaves the value undefined -- zero divisor, 0**negative, INTEGER overflow -- or on which a real intermediate is
not a small dyadic rational are skipped):

    P = treeeval(parse_expr(s), sigma)           the tree under test
    F = treeeval(rhs of `zz = s` parsed by the FP frontend inside a tiny routine, sigma)   the property's own oracle
    G = texteval(s, sigma)                       Fortran semantics of the text (gfortran-validated in thorough)

A violation is reported iff P differs from G *and* from F (where the frontend accepted the text): the weaker
reading -- a frontend/Fortran disagreement alone is counted and noted, never blamed on parse_expr.  "Differs" is
a different value or value type, or a tree that cannot be evaluated because it is ill-typed (.not. applied to
an integer) or refers to a name that is not in the text.  Structural differences between the trees that do not
change the value are not violations.  parse_expr raising (ParseError, ...) is a refusal: counted, not a violation.

Signature = kind of difference + canonical minimal core: the failing string is reduced (drop operator+operand,
drop group, drop unary, default operand, `==` for the comparison, spaced style) through failing strings only,
the reachable failing string with the fewest operators is canonicalised (variables renamed in order of first
occurrence) and used as signature.
"""
import itertools
from fractions import Fraction

from vf import exprsem
from vf.exprsem import Undefined, Unsupported

PROPERTY = 'C07'
LEVEL = 'exploration'
META = dict(
    engine='enum',
    technique='bounded-exhaustive enumeration of typed expression strings; differential evaluation of '
              'parse_expr tree vs FP-frontend tree vs independent Fortran text evaluator over a complete valuation '
              'grid; gfortran conformance of the text evaluator',
    level_text='every well-typed expression string with <= 3 (quick) / <= 4 (thorough) binary operators over '
               '{+ - * / ** six comparisons in both spellings .and. .or.}, optional leading unary, one optional '
               'parenthesised group at every position, operand/layout/comparison-spelling deviations at smaller '
               'depth: value of parse_expr(s) == value of the frontend tree == Fortran value of the text on a '
               'complete small valuation grid',
    level_note='values by vf.exprsem (exact ints / dyadic rationals); undefined operations are masked per valuation; '
               'text evaluator validated against gfortran 12 on every string in thorough; bounded claim for integer '
               'division (small-scope hypothesis)',
)

# --------------------------------------------------------------------------------------------- alphabet
ARITH = ['+', '-', '*', '/', '**']
REL_SYM = ['==', '/=', '<', '<=', '>', '>=']
REL_DOT = ['.eq.', '.ne.', '.lt.', '.le.', '.gt.', '.ge.']
REL_ALL = REL_SYM + REL_DOT
LOGIC = ['.and.', '.or.']
EQV = ['.eqv.', '.neqv.']
CLASSES = ARITH + ['R'] + LOGIC          # structure-level operator classes; 'R' = comparison

NUMVARS = ['i', 'j', 'k', 'm', 'n']      # default numeric operand of position pos (all INTEGER)
LOGVARS = ['p', 'q', 'r', 's', 'u']      # default logical operand of position pos
REALVARS = ['x', 'y', 'z', 'v', 'e']     # real variable of position pos

INT_POOL = [-3, 2, 5, -2, 3]
REAL_POOL = [Fraction(2), Fraction(-1, 2), Fraction(4), Fraction(3, 2), Fraction(-2)]
LOG_POOL = [True, False]
MAX_VALUATIONS = 100

# fixed tables for array operands (index values = INT_POOL members)
A_TAB = {-3: 4, -2: -5, 2: 7, 3: -2, 5: 3}          # integer :: a(-3:5)
B_TAB = {-3: 2, -2: 6, 2: -3, 3: 5, 5: -4}          # integer :: b(-3:5, 2:2)   (second subscript always 2)
LG_TAB = {-3: True, -2: False, 2: False, 3: True, 5: True}   # logical :: lg(-3:5)

FP_DECLS = """\
  implicit none
  integer, parameter :: jprb = 8, jpim = 4, jplm = 4
  type tt
    integer :: x
    real(kind=jprb) :: y
    logical :: p
  end type tt
  integer :: i, j, k, m, n, w
  integer :: a(-3:5), b(-3:5, 2:2)
  real(kind=jprb) :: x, y, z, v, e
  logical :: p, q, r, s, u, lg(-3:5)
  type(tt) :: t
"""


def num_alternatives(pos):
    """Operand alternatives for a numeric position: (text, [(var, type)])."""
    iv, xv = NUMVARS[pos], REALVARS[pos]
    return [
        ('2', []), ('3_jpim', []), ('2_4', []),
        (xv, [(xv, 'r')]),
        ('2.0', []), ('.5', []), ('4.', []), ('1.5e0', []), ('2.d0', []), ('2e0', []), ('5.e-1', []),
        ('0.5_jprb', []), ('2.0_8', []), ('2.5e-1_jprb', []),
        (f'a({iv})', [(iv, 'i')]), (f'b({iv},2)', [(iv, 'i')]),
        ('t%x', [('t%x', 'i')]), ('t%y', [('t%y', 'r')]),
        (f'max({iv},w)', [(iv, 'i'), ('w', 'i')]),
        (iv.upper(), [(iv, 'i')]),
    ]


def log_alternatives(pos):
    pv, iv = LOGVARS[pos], NUMVARS[pos]
    return [
        ('.true.', []), ('.false.', []), ('.true._jplm', []), ('.false._4', []), ('.TRUE.', []),
        (f'lg({iv})', [(iv, 'i')]), ('t%p', [('t%p', 'l')]),
        (pv.upper(), [(pv, 'l')]),
    ]


# --------------------------------------------------------------------------------------------- cases
def is_logic_op(op):
    return op in LOGIC or op in EQV


def operand_types(ops, group, lead, glead):
    """Type ('n' numeric / 'l' logical) each operand position must have for the string to have a
    chance of being well-typed: numeric iff a directly attached operator is arithmetic/relational
    or a directly attached unary is '-'.  The result is validated by the text model afterwards."""
    k = len(ops)
    types = []
    for i in range(k + 1):
        near = []
        if i > 0:
            near.append(ops[i - 1])
        if i < k:
            near.append(ops[i])
        un = None                        # unary operator directly attached to this operand
        if group and group[0] == i:
            if glead:
                un = glead
            elif group[1] == i and i == 0:
                un = lead or None
        elif i == 0:
            un = lead or None
        numeric = any(not is_logic_op(o) for o in near) or un == '-'
        types.append('n' if numeric else 'l')
    return types


def render(case):
    """case: dict(ops, operands, group, lead, glead, style) -> expression string."""
    ops, xs, group = case['ops'], case['operands'], case.get('group')
    lead, glead, style = case.get('lead', ''), case.get('glead', ''), case.get('style', 'spaced')
    sp = '' if style == 'compact' else ' '

    def un(u):
        if not u:
            return ''
        return '-' if u == '-' else '.not.' + sp
    out = [un(lead)]
    for i, x in enumerate(xs):
        if group and group[0] == i:
            out.append('(' + un(glead))
        out.append(x)
        if group and group[1] == i:
            out.append(')')
        if i < len(ops):
            out.append(sp + ops[i] + sp)
    s = ''.join(out)
    return s.upper() if style == 'upper' else s


def default_operands(types):
    return [NUMVARS[i] if t == 'n' else LOGVARS[i] for i, t in enumerate(types)]


def case_vars(case):
    """Grid variables of a case: list of (name, type) in order of first occurrence."""
    seen, out = set(), []
    for x in case['operands']:
        for nm, ty in operand_vars(x):
            if nm not in seen:
                seen.add(nm)
                out.append((nm, ty))
    return out


_TVARS = {'t%x': 'i', 't%y': 'r', 't%p': 'l'}


def operand_vars(text):
    """Grid variables an operand text refers to: list of (name, type)."""
    t = text.lower()
    if t in _TVARS:
        return [(t, _TVARS[t])]
    if t in NUMVARS or t == 'w':
        return [(t, 'i')]
    if t in REALVARS:
        return [(t, 'r')]
    if t in LOGVARS:
        return [(t, 'l')]
    if '(' in t:       # a(i)  b(i,2)  lg(i)  max(i,w)
        inner = t[t.index('(') + 1:t.rindex(')')]
        return [(a.strip(), 'i') for a in inner.split(',') if a.strip() in NUMVARS or a.strip() == 'w']
    return []          # literal


def groups(k):
    """None + every (i, j) with 0 <= i <= j <= k."""
    yield None
    for i in range(k + 1):
        for j in range(i, k + 1):
            yield (i, j)


# --------------------------------------------------------------------------------------------- guarded arithmetic
INT_MAX = 2 ** 31 - 1
_REAL_DEN = 1 << 16        # real intermediates must be k / 2**16 with at most 24 significant bits
_REAL_MAX = 1 << 30        # ... and small: exactly representable in REAL(4) and REAL(8), no tolerance needed
_ORIG = {}


def _guard(v):
    """INTEGER overflow is undefined in Fortran; inexact reals cannot be compared without a tolerance:
    both make the *valuation* unusable (Undefined), never the string."""
    if isinstance(v, bool):
        return v
    if isinstance(v, int):
        if abs(v) > INT_MAX:
            raise Undefined('integer overflow')
        return v
    if isinstance(v, Fraction):
        if _REAL_DEN % v.denominator:
            raise Undefined('real is not a multiple of 2**-16')
        scaled = abs(v.numerator) * (_REAL_DEN // v.denominator)
        if scaled:
            scaled >>= (scaled & -scaled).bit_length() - 1          # strip trailing zero bits
        if scaled.bit_length() > 24 or abs(v) >= _REAL_MAX:
            raise Undefined('real not exactly representable in REAL(4)')
    return v


def install_guards():
    """vf.exprsem evaluates with unbounded exact arithmetic (5**5**5**5 never returns).  Wrap its
    arithmetic primitives (module globals looked up at call time by treeeval/texteval) so that
    every intermediate stays a 32-bit INTEGER / a small dyadic REAL.  Idempotent."""
    if _ORIG:
        return

    def wrap2(name):
        orig = getattr(exprsem, name)
        _ORIG[name] = orig

        def f(a, b):
            return _guard(orig(a, b))
        f.__name__ = name
        setattr(exprsem, name, f)
    for nm in ('f_add', 'f_sub', 'f_mul', 'f_div'):
        wrap2(nm)
    orig_pow = exprsem.f_pow
    _ORIG['f_pow'] = orig_pow

    def f_pow(a, b):
        if not isinstance(b, bool) and isinstance(b, (int, Fraction)) and not isinstance(a, bool) \
                and isinstance(a, (int, Fraction)) and abs(b) > 64 and abs(a) != 1 and a != 0:
            if b > 0 or not isinstance(a, int):
                raise Undefined('power out of the guarded range')
        return _guard(orig_pow(a, b))
    exprsem.f_pow = f_pow


# --------------------------------------------------------------------------------------------- valuations
_BASE_ENV = {}
for _v, _x in A_TAB.items():
    _BASE_ENV[('a', (_v,))] = _x
for _v, _x in B_TAB.items():
    _BASE_ENV[('b', (_v, 2))] = _x
for _v, _x in LG_TAB.items():
    _BASE_ENV[('lg', (_v,))] = _x

_POOLS = {'i': INT_POOL, 'r': REAL_POOL, 'l': LOG_POOL}


def pool_size(vars_):
    """The largest s <= 5 that keeps the complete grid <= MAX_VALUATIONS (logicals: both values)."""
    nnum = sum(1 for _, t in vars_ if t != 'l')
    nlog = len(vars_) - nnum
    size = 5
    while size > 2 and (size ** nnum) * (2 ** nlog) > MAX_VALUATIONS:
        size -= 1
    return size


def valuation_grid(vars_):
    """Complete product over the per-type pools, as list of value tuples (order of vars_)."""
    size = pool_size(vars_)
    pools = [(_POOLS[t][:size] if t != 'l' else LOG_POOL) for _, t in vars_]
    return list(itertools.product(*pools)), size


_PROBES = [(0, 1, 2, 1, 0), (1, 2, 0, 2, 1), (2, 0, 1, 0, 2), (1, 1, 2, 0, 0)]


def typed_ok(s, vars_):
    """Well-formed, well-typed, standard-conforming according to the harness's text model:
    no probe valuation raises Unsupported and at least one yields a value."""
    env = dict(_BASE_ENV)
    got = False
    for pr in _PROBES:
        for n, (name, t) in enumerate(vars_):
            env[name] = _POOLS[t][pr[n % 5] % (2 if t == 'l' else 3)]
        try:
            exprsem.texteval(s, env, allow_ext=False)
            return True
        except Undefined:
            continue
        except Unsupported:
            return False
    return got


# --------------------------------------------------------------------------------------------- sweeps
def bounds(ctx_or_tier):
    quick = ctx_or_tier == 'quick' if isinstance(ctx_or_tier, str) else ctx_or_tier.quick
    if quick:
        return dict(K=3, KR=1, KE=2, KO=1, KOG=1, KL=1, KT=1, KG=1, KGS=2)
    return dict(K=4, KR=2, KE=3, KO=2, KOG=1, KL=2, KT=2, KG=3, KGS=3)


def make_case(ops, group, lead, glead, operands, style='spaced', sweep='S'):
    return dict(ops=list(ops), operands=list(operands), group=list(group) if group else None,
                lead=lead, glead=glead, style=style, sweep=sweep)


CANON_REL = '<'      # canonical comparison of the structure sweep (an order comparison discriminates better than ==)


def canon_ops(ops):
    return [(CANON_REL if o == 'R' else o) for o in ops]


def spell(ops, rot):
    """Replace the class 'R' by concrete comparison spellings, rotating through all 12."""
    out = []
    for o in ops:
        if o == 'R':
            out.append(REL_ALL[rot % 12])
            rot += 5          # 5 is coprime to 12: consecutive comparisons get different spellings
        else:
            out.append(o)
    return out


def _rot(seed, ops, g, lead, glead, salt=0):
    """Deterministic start of the comparison-spelling rotation for one structure (seed shifts it)."""
    h = salt * 7 + len(lead) + 3 * len(glead) + (0 if not g else 5 * g[0] + 11 * g[1] + 1)
    for n, o in enumerate(ops):
        h = h * 13 + (CLASSES + EQV).index(o) + n
    return seed + h


def shards(tier):
    """Partition of the operator sequences: () | (o,) exactly | every sequence starting (o1, o2)."""
    B = bounds(tier)
    cl = CLASSES + EQV
    out = [()]
    out += [(o,) for o in cl]
    out += [(o1, o2) for o1 in cl for o2 in cl]
    return [(tier, sh) for sh in out if len(sh) <= B['K']]


def enumerate_shard(arg):
    """Every well-typed case of all sweeps whose operator sequence lies in the shard.
    Returns (cases, candidates, ill_typed).  Deterministic; the seed only shifts the spelling rotation."""
    (tier, prefix), seed = arg
    install_guards()
    B = bounds(tier)
    cases, seen = [], set()
    stats = [0, 0]

    def add(case):
        s = render(case)
        if s in seen:
            return False
        seen.add(s)
        stats[0] += 1
        if not typed_ok(s, case_vars(case)):
            stats[1] += 1
            return False
        case['s'] = s
        cases.append(case)
        return True

    def opseqs(kmax, classes):
        if len(prefix) < 2:
            if len(prefix) <= kmax:
                yield list(prefix)
            return
        for k in range(2, kmax + 1):
            for rest in itertools.product(classes, repeat=k - 2):
                yield list(prefix) + list(rest)

    def variants(ops):
        for g in groups(len(ops)):
            for lead in ('', '-', '.not.'):
                for glead in (('', '-', '.not.') if g else ('',)):
                    yield g, lead, glead

    has_eqv = any(o in EQV for o in prefix)
    # S: structure sweep, then R / O / T / L on every accepted structure within their bounds
    if not has_eqv:
        for ops in opseqs(B['K'], CLASSES):
            k = len(ops)
            for g, lead, glead in variants(ops):
                tys = [operand_types(ops, g, lead, glead)] if ops else [['n'], ['l']]
                for ty in tys:
                    rot = _rot(seed, ops, g, lead, glead)
                    if not add(make_case(canon_ops(ops), g, lead, glead, default_operands(ty), sweep='S')):
                        continue
                    if k <= B['KR'] and 'R' in ops:
                        for rp in [i for i, o in enumerate(ops) if o == 'R']:
                            for r in REL_ALL:
                                sp = canon_ops(ops)
                                sp[rp] = r
                                add(make_case(sp, g, lead, glead, default_operands(ty), sweep='R'))
                    if k <= B['KO'] and (g is None or k <= B['KOG']):
                        for pos in range(k + 1):
                            alts = num_alternatives(pos) if ty[pos] == 'n' else log_alternatives(pos)
                            for n, (text, _) in enumerate(alts):
                                xs = default_operands(ty)
                                xs[pos] = text
                                add(make_case(spell(ops, rot + n + pos), g, lead, glead, xs, sweep='O'))
                    if k <= B['KT'] and 'n' in ty:
                        for n, theme in enumerate(THEMES):
                            xs = default_operands(ty)
                            for pos in range(k + 1):
                                if ty[pos] == 'n':
                                    xs[pos] = THEMES[theme][pos]
                            add(make_case(spell(ops, rot + n), g, lead, glead, xs, sweep='T'))
                    if k <= B['KL']:
                        for n, style in enumerate(('compact', 'upper')):
                            add(make_case(spell(ops, rot + n), g, lead, glead, default_operands(ty),
                                          style=style, sweep='L'))
    # E: equivalence operators
    for ops in opseqs(B['KE'], CLASSES + EQV):
        if not any(o in EQV for o in ops):
            continue
        for g, lead, glead in variants(ops):
            ty = operand_types(ops, g, lead, glead)
            add(make_case(canon_ops(ops), g, lead, glead, default_operands(ty), sweep='E'))
    return cases, stats[0], stats[1]


THEMES = {'real': REALVARS, 'intlit': ['2', '3', '5', '7', '4'], 'reallit': ['2.0', '.5', '4.', '1.5e0', '0.25_jprb']}


# --------------------------------------------------------------------------------------------- judging
def _silence():
    import logging
    try:
        import loki.logging as ll
        ll.set_log_level(ll.ERROR)
    except Exception:  # pylint: disable=broad-except
        logging.disable(logging.WARNING)


def vkey(v):
    """Value with its Fortran type class (True == 1 == Fraction(1) in Python, not in Fortran)."""
    if isinstance(v, bool):
        return ('l', v)
    if isinstance(v, int):
        return ('i', v)
    return ('r', Fraction(v))


def vshow(k):
    if k is None:
        return 'undefined'
    t, v = k
    if t == 'l':
        return '.true.' if v else '.false.'
    if t == 'i':
        return str(v)
    return f'{float(v)!r}'


def fp_trees(strings):
    """rhs trees the FP frontend builds for `zz = s`, one routine for all strings; None where the
    frontend refuses.  A failing batch is bisected so a refusal is attributed to one string."""
    from loki import Subroutine, Frontend, FindNodes, Assignment
    if not strings:
        return []
    body = ''.join(f'  zz = {s}\n' for s in strings)
    src = f'subroutine c07k(i, j, k, m, n, w)\n{FP_DECLS}{body}end subroutine c07k\n'
    try:
        routine = Subroutine.from_source(src, frontend=Frontend.FP)
        assigns = FindNodes(Assignment).visit(routine.body)
        if len(assigns) == len(strings):
            return [a.rhs for a in assigns]
    except Exception:  # pylint: disable=broad-except
        pass
    if len(strings) == 1:
        return [None]
    mid = len(strings) // 2
    return fp_trees(strings[:mid]) + fp_trees(strings[mid:])


def _classify_unsupported(msg):
    if 'non-logical operand' in msg or 'non-numeric operand' in msg:
        return 'ill-typed'
    if 'unbound variable' in msg or 'array element' in msg or msg.startswith('intrinsic'):
        return 'wrong-name'
    if 'non-integral real exponent' in msg:
        return None                    # valuation outside the exact alphabet, not a property of the tree
    return 'unevaluable'               # node class the reference evaluator does not know: looked at by hand


def _eval_tree(tree, env):
    """('v', key) | ('u', None) undefined on this valuation | ('x', kind, msg) tree has no Fortran value."""
    try:
        return ('v', vkey(exprsem.treeeval(tree, env)))
    except Undefined:
        return ('u', None)
    except Unsupported as e:
        kind = _classify_unsupported(str(e))
        if kind is None:
            return ('u', None)
        return ('x', kind, str(e))
    except (TypeError, ValueError, AttributeError, ZeroDivisionError, OverflowError) as e:
        return ('x', 'unevaluable', f'{type(e).__name__}: {e}')


HASH_P, HASH_M = 1000003, 2147483647


def _code(key):
    t, v = key
    if t == 'l':
        return 1 if v else 0
    if t == 'i':
        return v
    return int(v * _REAL_DEN)


def judge(s, vars_, ptree, perr, ftree):
    """Compare P (parse_expr), F (frontend), G (text model) on the complete grid.  Returns a dict."""
    grid, size = valuation_grid(vars_)
    names = [n for n, _ in vars_]
    env = dict(_BASE_ENV)
    res = dict(s=s, nval=len(grid), ndef=0, pool=size, status='ok', detail='', fnote='', p_undef=0)
    mask, h, seen_vals = [], 0, set()
    pg = pf = fg = None          # first differences P/G, P/F, F/G
    pf_cmp = 0
    toks = exprsem.f_tokenize(s)
    for vals in grid:
        env.update(zip(names, vals))
        try:
            g = vkey(exprsem._FParser(toks, env, False).parse())     # == texteval(s, env, allow_ext=False)
        except (Undefined, Unsupported):
            mask.append('0')
            continue
        mask.append('1')
        res['ndef'] += 1
        seen_vals.add(g)
        h = (h * HASH_P + _code(g)) % HASH_M
        f = _eval_tree(ftree, env) if ftree is not None else None
        if f is not None and fg is None and f[0] != 'u' and (f[0] == 'x' or f[1] != g):
            fg = (vals, f, g)
        if ptree is None:
            continue
        p = _eval_tree(ptree, env)
        if p[0] == 'u':
            res['p_undef'] += 1
            continue
        if pg is None and (p[0] == 'x' or p[1] != g):
            pg = (vals, p, g)
        if f is not None and f[0] != 'u':
            pf_cmp += 1
            if pf is None and (p[0] != f[0] or p[1] != f[1]):
                pf = (vals, p, f)

    def show(vals):
        return dict(zip(names, [vshow(vkey(v)) for v in vals]))
    res['mask'] = ''.join(mask)
    res['hash'] = h
    res['ndistinct'] = len(seen_vals)
    if fg is not None:
        sig, f, g = show(fg[0]), fg[1], fg[2]
        res['fnote'] = f'frontend tree gives {vshow(f[1]) if f[0] == "v" else f[1:]} but Fortran gives {vshow(g)} at {sig}'
    if ptree is None:
        res['status'] = 'refused'
        res['detail'] = perr
        return res
    if pg is not None and (ftree is None or pf is not None or pf_cmp == 0):
        sig, p, g = show(pg[0]), pg[1], pg[2]
        if p[0] == 'x':
            res['status'] = p[1]
            res['detail'] = (f'parse_expr({s!r}) -> {_short(ptree)} cannot be evaluated ({p[2]}) at {sig}; '
                             f'Fortran value {vshow(g)}' + (f', frontend tree {_short(ftree)}' if ftree is not None else ''))
        else:
            res['status'] = 'value'
            res['detail'] = (f'parse_expr({s!r}) -> {_short(ptree)} evaluates to {vshow(p[1])} at {sig}; '
                             f'Fortran value {vshow(g)}' + (f', frontend tree {_short(ftree)}' if ftree is not None else ''))
    return res


def _short(tree):
    """Fully parenthesised rendering of a tree (diagnostics only; never compared)."""
    import pymbolic.primitives as pmbl
    t = tree
    if isinstance(t, (int, float)):
        return str(t)
    if isinstance(t, pmbl.Sum):
        return '(' + ' + '.join(_short(c) for c in t.children) + ')'
    if isinstance(t, pmbl.Product):
        return '(' + ' * '.join(_short(c) for c in t.children) + ')'
    if isinstance(t, pmbl.Quotient):
        return f'({_short(t.numerator)} / {_short(t.denominator)})'
    if isinstance(t, pmbl.Power):
        return f'({_short(t.base)} ** {_short(t.exponent)})'
    if isinstance(t, pmbl.Comparison):
        return f'({_short(t.left)} {t.operator} {_short(t.right)})'
    if isinstance(t, pmbl.LogicalAnd):
        return '(' + ' .and. '.join(_short(c) for c in t.children) + ')'
    if isinstance(t, pmbl.LogicalOr):
        return '(' + ' .or. '.join(_short(c) for c in t.children) + ')'
    if isinstance(t, pmbl.LogicalNot):
        return f'(.not. {_short(t.child)})'
    try:
        return str(t)
    except Exception:  # pylint: disable=broad-except
        return repr(t)


def parse_p(s):
    """(tree, None) or (None, 'ExcType: msg')."""
    from loki.expression.parser import parse_expr
    import io
    import contextlib
    try:
        with contextlib.redirect_stdout(io.StringIO()):     # PymbolicMapper prints on some failures
            return parse_expr(s), None
    except Exception as e:  # pylint: disable=broad-except
        return None, f'{type(e).__name__}: {str(e)[:120]}'


def judge_chunk(cases):
    """Top-level worker: judge a list of cases (one FP parse for the whole chunk)."""
    _silence()
    install_guards()
    strings = [c['s'] for c in cases]
    ftrees = fp_trees(strings)
    out = []
    for c, ft in zip(cases, ftrees):
        pt, perr = parse_p(c['s'])
        r = judge(c['s'], case_vars(c), pt, perr, ft)
        r['fp'] = ft is not None
        out.append(r)
    return out


# --------------------------------------------------------------------------------------------- gfortran conformance
GF_UNIT = 250        # expressions per compilation unit


def _f_real(v):
    return f'{float(v)!r}_8'


def _gf_module():
    setup = []
    for nm, tab in (('a', A_TAB), ('lg', LG_TAB)):
        for ix, val in sorted(tab.items()):
            setup.append(f'    {nm}({ix}) = {".true." if val is True else ".false." if val is False else val}')
    for ix, val in sorted(B_TAB.items()):
        setup.append(f'    b({ix}, 2) = {val}')
    return f"""module c07m
  implicit none
  integer, parameter :: jprb = 8, jpim = 4, jplm = 4
  type tt
    integer :: x
    real(kind=jprb) :: y
    logical :: p
  end type tt
  integer :: i, j, k, m, n, w
  integer :: a(-3:5), b(-3:5, 2:2)
  real(kind=jprb) :: x, y, z, v, e
  logical :: p, q, r, s, u, lg(-3:5)
  type(tt) :: t
  integer, parameter :: ipool({len(INT_POOL)}) = (/ {', '.join(str(x) for x in INT_POOL)} /)
  real(kind=8), parameter :: rpool({len(REAL_POOL)}) = (/ {', '.join(_f_real(x) for x in REAL_POOL)} /)
  logical, parameter :: lpool(2) = (/ .true., .false. /)
  interface code
    module procedure code_i4, code_i8, code_r4, code_r8, code_l4
  end interface
contains
  subroutine setup()
    a = 0
    b = 0
    lg = .false.
{chr(10).join(setup)}
  end subroutine setup
  integer(8) function code_i4(val) result(c)
    integer(4), intent(in) :: val
    c = int(val, 8)
  end function
  integer(8) function code_i8(val) result(c)
    integer(8), intent(in) :: val
    c = val
  end function
  integer(8) function code_r4(val) result(c)
    real(4), intent(in) :: val
    c = nint(real(val, 8) * {float(_REAL_DEN)!r}_8, 8)
  end function
  integer(8) function code_r8(val) result(c)
    real(8), intent(in) :: val
    c = nint(val * {float(_REAL_DEN)!r}_8, 8)
  end function
  integer(8) function code_l4(val) result(c)
    logical(4), intent(in) :: val
    c = merge(1_8, 0_8, val)
  end function
  subroutine acc(hh, c)
    integer(8), intent(inout) :: hh
    integer(8), intent(in) :: c
    hh = modulo(hh * {HASH_P}_8 + c, {HASH_M}_8)
  end subroutine acc
end module c07m
"""


GF_GROUP = 40        # expressions sharing one loop nest


def _gf_sub(gid, vars_, members, items):
    """One subroutine = one loop nest over the grid of vars_, evaluating every member expression."""
    size = pool_size(vars_)
    lines = [f'subroutine xs{gid}()', f'  integer(8) :: hh({len(members)})',
             '  integer :: cc' + ''.join(f', l{n}' for n in range(len(vars_)))]
    for q, n in enumerate(members):
        lines.append(f"  character(len={len(items[n][2])}), parameter :: mk{q} = '{items[n][2]}'")
    lines += ['  hh = 0', '  cc = 0']
    for n, (name, ty) in enumerate(vars_):
        hi = 2 if ty == 'l' else size
        pool = {'i': 'ipool', 'r': 'rpool', 'l': 'lpool'}[ty]
        lines.append(f'  do l{n} = 1, {hi}')
        lines.append(f'    {name} = {pool}(l{n})')
    lines.append('    cc = cc + 1')
    for q, n in enumerate(members):
        lines.append(f"    if (mk{q}(cc:cc) == '1') call acc(hh({q + 1}), code({items[n][0]}))")
    lines += ['  end do'] * len(vars_)
    for q, n in enumerate(members):
        lines.append(f"  print '(A,I0,1X,I0)', '#', {n}, hh({q + 1})")
    lines.append(f'end subroutine xs{gid}')
    return '\n'.join(lines)


def gf_hashes(items):
    """items: list of (s, vars_, mask) with at least one defined valuation each.  Returns for each item the
    hash gfortran computes over the masked grid (int) or ('ERR', msg).  Compile errors are bisected."""
    from vf import gf
    out = [None] * len(items)
    with gf.Build(prefix='c07_') as b:
        b.write('c07m.f90', _gf_module())
        rc, _, err = b.run([gf.GFORTRAN, *gf.FFLAGS, '-c', 'c07m.f90'])
        if rc != 0:
            return [('ERR', 'module: ' + err[-300:])] * len(items)

        def attempt(idx):
            byvars = {}
            for n in idx:
                byvars.setdefault(tuple(items[n][1]), []).append(n)
            subs = []
            for vars_, mem in byvars.items():
                for c in range(0, len(mem), GF_GROUP):
                    subs.append((list(vars_), mem[c:c + GF_GROUP]))
            src = ['program c07p', '  use c07m', '  implicit none', '  call setup()']
            src += [f'  call xs{g}()' for g in range(len(subs))]
            src.append('contains')
            src += [_gf_sub(g, vs, mem, items) for g, (vs, mem) in enumerate(subs)]
            src.append('end program c07p')
            b.write('p.f90', '\n'.join(src) + '\n')
            rc, _, err = b.run([gf.GFORTRAN, *gf.FFLAGS, '-fno-range-check', '-ffpe-summary=none', 'p.f90', 'c07m.o',
                                '-o', 'p.x'], timeout=900)
            if rc != 0:
                if len(idx) == 1:
                    out[idx[0]] = ('ERR', 'compile: ' + err[-400:])
                    return
                mid = len(idx) // 2
                attempt(idx[:mid])
                attempt(idx[mid:])
                return
            rc, stdout, err = b.run(['./p.x'], timeout=300)
            got = {}
            for line in stdout.splitlines():
                if line.startswith('#'):
                    x, _, y = line[1:].partition(' ')
                    got[int(x)] = int(y)
            if rc != 0 and len(idx) > 1:
                mid = len(idx) // 2
                attempt(idx[:mid])
                attempt(idx[mid:])
                return
            for n in idx:
                out[n] = got.get(n, ('ERR', 'run: ' + (err or '')[-300:]))
        attempt(list(range(len(items))))
    return out


# --------------------------------------------------------------------------------------------- shrinking
VIOLATION_KINDS = ('value', 'ill-typed', 'wrong-name', 'unevaluable')
_DEFAULTS = set(NUMVARS) | set(LOGVARS)
SIMPLER = {'t%y': 't%x'}          # operand alternatives that have a simpler member of the same family


def operand_is_logical(text):
    t = text.lower()
    return t in LOGVARS or t == 't%p' or t.startswith(('.true.', '.false.', 'lg('))


def _redefault(c):
    """After a structural change: default-variable operands follow their (new) position and type."""
    ty = operand_types(c['ops'], c['group'], c['lead'], c['glead'])
    if not c['ops']:
        ty = ['l' if operand_is_logical(c['operands'][0]) else 'n']
    for pos, x in enumerate(c['operands']):
        if x in _DEFAULTS:
            c['operands'][pos] = NUMVARS[pos] if ty[pos] == 'n' else LOGVARS[pos]
    return c


def _copy(c, **kw):
    d = dict(ops=list(c['ops']), operands=list(c['operands']), group=list(c['group']) if c.get('group') else None,
             lead=c.get('lead', ''), glead=c.get('glead', ''), style=c.get('style', 'spaced'), sweep=c.get('sweep', 'S'))
    d.update(kw)
    return d


def reductions(c):
    """Structural one-step reductions of a case (fewer operators / no group / no unary)."""
    out = []
    if c['group']:
        out.append(_redefault(_copy(c, group=None, glead='')))
        if c['group'][0] == 0 and not c['lead'] and c['glead']:       # ( -a op b )  ->  -a op b
            out.append(_redefault(_copy(c, group=None, glead='', lead=c['glead'])))
    if c['glead']:
        out.append(_redefault(_copy(c, glead='')))
    if c['lead']:
        out.append(_redefault(_copy(c, lead='')))
    k = len(c['ops'])
    for i in range(k + 1):
        for side in (-1, 0):          # drop operand i together with the operator on its left / right
            oi = i + side
            if oi < 0 or oi >= k:
                continue
            d = _copy(c)
            del d['operands'][i]
            del d['ops'][oi]
            g, glead = d['group'], d['glead']
            if g:
                gi, gj = g
                if i < gi:
                    gi, gj = gi - 1, gj - 1
                elif i <= gj:
                    gj -= 1
                if gj < gi:
                    g, glead = None, ''
                else:
                    g = [gi, gj]
            d['group'], d['glead'] = g, glead
            out.append(_redefault(d))
    return out


def normalisations(c):
    """One-step normalisations towards the canonical family (spaced, default operands, '<', .eqv.)."""
    out = []
    if c['style'] != 'spaced':
        out.append(_copy(c, style='spaced'))
    ty = operand_types(c['ops'], c['group'], c['lead'], c['glead'])
    for pos, x in enumerate(c['operands']):
        if x in SIMPLER:
            d = _copy(c)
            d['operands'][pos] = SIMPLER[x]
            out.append(d)
        if x not in _DEFAULTS:
            for t in ([ty[pos]] if c['ops'] else ['l' if operand_is_logical(x) else 'n']):
                d = _copy(c)
                d['operands'][pos] = NUMVARS[pos] if t == 'n' else LOGVARS[pos]
                out.append(d)
    for n, o in enumerate(c['ops']):
        if o in REL_ALL and o != CANON_REL:
            d = _copy(c)
            d['ops'][n] = CANON_REL
            out.append(d)
        if o == '.neqv.':
            d = _copy(c)
            d['ops'][n] = '.eqv.'
            out.append(d)
    return out


def canonical(c):
    d = _copy(c, style='spaced')
    ty = operand_types(d['ops'], d['group'], d['lead'], d['glead'])
    if not d['ops']:
        ty = ['l' if operand_is_logical(d['operands'][0]) else 'n']
    d['operands'] = default_operands(ty)
    d['ops'] = [CANON_REL if o in REL_ALL else '.eqv.' if o == '.neqv.' else o for o in d['ops']]
    return d


def canon_text(c):
    """Rendered core with variables renamed in order of first occurrence (per type)."""
    ren, used = {}, {'i': 0, 'r': 0, 'l': 0}
    pools = {'i': NUMVARS, 'r': REALVARS, 'l': LOGVARS}

    def rn(name):
        low = name.lower()
        vs = operand_vars(low)
        if vs != [(low, vs[0][1])] if vs else True:
            return None
        ty = vs[0][1]
        if low in _TVARS or low == 'w':
            return name
        if low not in ren:
            ren[low] = pools[ty][used[ty]]
            used[ty] += 1
        return ren[low].upper() if name.isupper() else ren[low]
    xs = []
    for x in c['operands']:
        r = rn(x)
        if r is not None:
            xs.append(r)
        elif '(' in x and x.lower() not in _TVARS:
            head, inner = x[:x.index('(')], x[x.index('(') + 1:x.rindex(')')]
            args = [(rn(a.strip()) or a.strip()) for a in inner.split(',')]
            xs.append(f'{head}({",".join(args)})')
        else:
            xs.append(x)
    return render(_copy(c, operands=xs))


class Shrinker:
    """Signature-preserving reduction with memoised verdicts.  `table` maps string -> status for
    everything the run already judged; anything else is judged on demand (full oracle, incl. frontend)."""

    def __init__(self, table):
        self.table = table
        self.best = {}
        self.computed = 0

    def status(self, c):
        s = render(c)
        if s not in self.table:
            if not typed_ok(s, case_vars(c)):
                self.table[s] = 'ill-formed'
            else:
                self.computed += 1
                self.table[s] = judge_chunk([dict(c, s=s)])[0]['status']
        return self.table[s]

    @staticmethod
    def key(c):
        s = render(c)
        nondef = sum(1 for x in c['operands'] if x not in _DEFAULTS)
        return (len(c['ops']), nondef, 1 if c['group'] else 0, (1 if c['lead'] else 0) + (1 if c['glead'] else 0),
                0 if c['style'] == 'spaced' else 1, len(s), s)

    def normalise(self, c, kind):
        c0 = canonical(c)
        if render(c0) != render(c) and self.status(c0) == kind:
            return c0
        progress = True
        while progress:
            progress = False
            for d in normalisations(c):
                if self.status(d) == kind:
                    c, progress = d, True
                    break
        return c

    def structural(self, c, kind):
        """Smallest failing case reachable through failing cases (memoised on the string)."""
        s = (render(c), kind)
        if s in self.best:
            return self.best[s]
        best = c
        for d in reductions(c):
            if self.status(d) == kind:
                m = self.structural(d, kind)
                if self.key(m) < self.key(best):
                    best = m
        self.best[s] = best
        return best

    def core(self, c, kind):
        prev = None
        while prev != render(c):
            prev = render(c)
            c = self.normalise(c, kind)
            c = self.structural(c, kind)
        return c


# --------------------------------------------------------------------------------------------- run / replay
def _gf_chunk(items):
    return gf_hashes(items)


def _enum(arg):
    return enumerate_shard(arg)


def _adapt_nproc(ctx):
    """Measured on this 16-vCPU VM: the judge workers scale to about 4-8 processes (1: 9.3 s, 4: 3.0 s, 8: 2.9 s,
    16: 4.6 s wall for the same work on an idle machine, kernel time growing from 0.1 s to 24 s) and at load 100
    sixteen workers ran 4x slower than one.  Cap the pool at 6 and narrow it further under load, unless
    VERIF_NPROC says otherwise."""
    import os
    if 'VERIF_NPROC' in os.environ:
        return
    ctx.nproc = min(ctx.nproc, 6)
    try:
        load, ncpu = os.getloadavg()[0], os.cpu_count() or 4
    except OSError:
        return
    if load > ncpu:
        ctx.nproc = max(2, min(ctx.nproc, int(ncpu * ncpu / load)))


def run(ctx):
    import collections
    from vf.explore import seeded_order
    import gc
    _adapt_nproc(ctx)
    _silence()
    install_guards()
    gc.collect()
    gc.freeze()          # forked workers must not touch (and so copy) the parent's heap during collections
    B = bounds(ctx)
    phase = {}
    t0 = ctx.elapsed()
    parts = ctx.pmap(_enum, [(sh, ctx.seed) for sh in shards(ctx.tier)], chunksize=1)
    cases, seen = [], set()
    ncand = nill = 0
    for cs, a, b in parts:
        ncand += a
        nill += b
        for c in cs:
            if c['s'] not in seen:
                seen.add(c['s'])
                cases.append(c)
    cases = seeded_order(cases, ctx.seed)
    phase['enumerate'] = round(ctx.elapsed() - t0, 1)
    t0 = ctx.elapsed()
    chunks = [cases[i:i + 60] for i in range(0, len(cases), 60)]
    results = [r for chunk in ctx.pmap(_judge, chunks, chunksize=1) for r in chunk]
    ctx.require(len(results) == len(cases), 'lost results')
    table = {r['s']: r['status'] for r in results}
    phase['judge'] = round(ctx.elapsed() - t0, 1)
    t0 = ctx.elapsed()
    shr = Shrinker(table)
    by_status = collections.Counter()
    refusals = collections.Counter()
    refusal_samples = {}
    fnotes, fp_refused, nontrivial, valuations, p_undef = [], [], 0, 0, 0
    sweeps = collections.Counter()
    # smallest first, so that the representative of every signature is its smallest instance
    order = sorted(range(len(cases)), key=lambda n: (len(cases[n]['ops']), len(cases[n]['s']), cases[n]['s']))
    for n in order:
        c, r = cases[n], results[n]
        by_status[r['status']] += 1
        sweeps[c['sweep']] += 1
        valuations += r['ndef']
        p_undef += r['p_undef']
        if r['ndef'] >= 2 and r['ndistinct'] >= 2:
            nontrivial += 1
        if r['fnote']:
            fnotes.append(f'{r["s"]}: {r["fnote"]}')
        if not r['fp']:
            fp_refused.append(r['s'])
        if r['status'] == 'refused':
            ex = r['detail'].split(':')[0]
            refusals[ex] += 1
            refusal_samples.setdefault(ex, r['s'])
        elif r['status'] in VIOLATION_KINDS:
            core = shr.core(c, r['status'])
            sig = f'{r["status"]}: {canon_text(core)}'
            case = {k: c[k] for k in ('ops', 'operands', 'group', 'lead', 'glead', 'style', 's')}
            ctx.violation(sig, case, r['detail'] + f'  [minimal core: {render(core)}]')
        elif r['status'] != 'ok':
            ctx.harness_error(f'unknown status {r["status"]} for {r["s"]}')
    phase['shrink'] = round(ctx.elapsed() - t0, 1)
    t0 = ctx.elapsed()
    # conformance of the text model: gfortran evaluates the same masked grid of every string
    def in_gf(c):
        k = len(c['ops'])
        if ctx.quick:        # quick: every string with <= KG operators + the structure sweeps up to KGS
            return k <= B['KG'] or (c['sweep'] in 'SE' and k <= B['KGS'])
        # thorough: every string with <= KG operators + every longer string without a parenthesised group
        return k <= B['KG'] or not c['group']
    gf_set = [n for n in order if results[n]['ndef'] > 0 and in_gf(cases[n])]
    items = [(cases[n]['s'], case_vars(cases[n]), results[n]['mask']) for n in gf_set]
    gchunks = [items[i:i + GF_UNIT] for i in range(0, len(items), GF_UNIT)]
    got = [h for ch in ctx.pmap(_gf_chunk, gchunks, chunksize=1) for h in ch]
    bad = [(items[q][0], got[q], results[gf_set[q]]['hash']) for q in range(len(items)) if got[q] != results[gf_set[q]]['hash']]
    ctx.require(not bad, f'text model and gfortran disagree on {len(bad)} strings, e.g. {bad[:3]}')
    phase['gfortran'] = round(ctx.elapsed() - t0, 1)
    # vacuity guards
    n = len(cases)
    ctx.require(n >= (15000 if ctx.quick else 120000), f'only {n} strings enumerated')
    ctx.require(nontrivial >= n // 2, f'only {nontrivial} of {n} strings are non-trivial')
    ctx.require(len(fp_refused) <= n // 50, f'frontend refused {len(fp_refused)} strings, e.g. {fp_refused[:5]}')
    ctx.require(by_status['refused'] <= n // 5, f'parse_expr refused {by_status["refused"]} of {n} strings')
    ctx.require(len(got) >= (1000 if ctx.quick else 20000), f'only {len(got)} strings validated against gfortran')
    if fnotes:
        ctx.note(f'{len(fnotes)} strings on which the FP frontend tree and Fortran semantics disagree (not judged here), '
                 f'e.g. {fnotes[:3]}')
    if fp_refused:
        ctx.note(f'{len(fp_refused)} strings refused by the FP frontend (judged against the text model only), '
                 f'e.g. {fp_refused[:5]}')
    samples = [cases[order[0]]['s'], cases[order[len(order) // 3]]['s'], cases[order[len(order) // 2]]['s'],
               cases[order[-1]]['s']]
    ctx.cov.update(
        evaluations=n, distinct_nontrivial=nontrivial, exhaustive=True,
        rule='every well-typed string of the sweeps S/R/E/O/T/L (module docstring) within the bound; distinct by text; '
             'non-trivial = at least 2 defined valuations and at least 2 distinct Fortran values over the grid',
        samples=samples, bound=dict(B, max_valuations=MAX_VALUATIONS, int_pool=INT_POOL,
                                    real_pool=[str(x) for x in REAL_POOL]),
        candidates_before_type_filter=ncand, ill_typed_candidates=nill,
        by_sweep=dict(sweeps), by_status=dict(by_status), valuations_compared=valuations,
        valuations_where_parse_tree_undefined_but_text_defined=p_undef,
        parse_expr_refusals=dict(refusals), refusal_samples=refusal_samples,
        frontend_refusals=len(fp_refused), frontend_vs_fortran_disagreements=len(fnotes),
        traces_validated_against_impl=len(got), shrink_judged_on_demand=shr.computed, phase_wall_s=phase, workers=ctx.nproc,
    )
    ctx.assumptions += [
        'vf.exprsem.treeeval / texteval give Fortran values (exact ints, dyadic reals); text model validated against '
        'gfortran 12 on the strings counted in traces_validated_against_impl',
        'valuations with INTEGER overflow, zero divisors or inexact real intermediates are not compared',
        'parse_expr raising an exception is a refusal, not a violation',
        'a parse_expr tree that is ill-typed under Fortran rules (e.g. .not. applied to an integer) or names a symbol '
        'that is not in the text counts as a different meaning',
    ]


def _judge(chunk):
    return judge_chunk(chunk)


def replay(case):
    _silence()
    install_guards()
    c = _copy(case)
    c['s'] = render(c)
    r = judge_chunk([c])[0]
    if r['status'] in VIOLATION_KINDS:
        return f'[{r["status"]}] {r["detail"]}'
    return None
