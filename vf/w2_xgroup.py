"""Grouped variant of vf.xform.run_case for checks whose cases come in groups that share the *same* sources and
driver and differ only in the transformation variant (C31, C32): the untransformed program is built and run once
per group instead of once per case.  Verdicts, details and the `changed` flag are computed exactly as in
xform.run_case (the code below is that function with the original build factored out)."""
import hashlib
import traceback

from vf import xform


class HarnessProblem(Exception):
    """raised by a check's `apply` when its *own* scaffolding (scratch files, directories) fails: verdict HARNESS"""


def source_key(case):
    h = hashlib.sha1()
    for part in (case['sources'], case['driver'], case.get('extra', ())):
        h.update(repr(part).encode())
    return h.hexdigest()


def build_original(case, base=None, flags=xform.FLAGS):
    from loki import Sourcefile, Frontend
    xform.quiet()
    orig = xform.build_run(case['sources'], case['driver'], case.get('extra', ()), base=base, flags=flags)
    try:
        base_text = [[f, Sourcefile.from_source(t, frontend=Frontend.FP).to_fortran()] for f, t in case['sources']]
    except Exception:  # pylint: disable=broad-except
        base_text = None
    return dict(run=orig, base_text=base_text)


def run_case_with_orig(case, apply, original, base=None, flags=xform.FLAGS, keep_files=False):
    """-> dict(verdict, detail, changed, transformed) ; `original` = build_original(case) of the same sources/driver"""
    xform.quiet()
    orig = original['run']
    if not orig['ok']:
        return dict(verdict='HARNESS', detail=f'original fails at {orig["stage"]}: {orig["err"][-600:]}', changed=False)
    try:
        files = xform.parse_sources(case)
        ret = apply(case, files)
        if isinstance(ret, dict):
            new = [[f, ret.get(f, None) or files[f].to_fortran()] for f, _ in case['sources']]
            new += [[f, t] for f, t in ret.items() if f not in files]
        else:
            new = [[f, files[f].to_fortran()] for f, _ in case['sources']]
    except HarnessProblem as ex:
        return dict(verdict='HARNESS', detail=f'harness scaffolding failed: {ex}', changed=False)
    except Exception as ex:  # pylint: disable=broad-except
        tb = traceback.format_exc().strip().splitlines()
        where = next((ln.strip() for ln in reversed(tb) if ln.strip().startswith('File "') and '/loki/' in ln), '')
        if xform.is_refusal(ex):
            return dict(verdict='refused', detail=f'{type(ex).__name__}: {str(ex)[:200]}', changed=False)
        return dict(verdict='loki-exception', detail=f'{type(ex).__name__}: {str(ex)[:300]} @ {where}', changed=False)
    base_text = original['base_text']
    changed = base_text is None or [t for _, t in base_text] != [t for _, t in new[:len(base_text)]] or len(new) != len(base_text)
    res = xform.build_run(new, case['driver'], case.get('extra', ()), base=base, flags=flags)
    out = dict(changed=changed, transformed=new if keep_files else None)
    if not res['ok']:
        kind = 'xform-compile-error' if res['stage'] == 'compile' else 'xform-run-error'
        out.update(verdict=kind, detail=(res['err'] or '')[-900:])
        return out
    a, b = xform.norm_out(orig['out']), xform.norm_out(res['out'])
    if a != b:
        n = next((i for i, (x, y) in enumerate(zip(a, b)) if x != y), min(len(a), len(b)))
        out.update(verdict='output-differs',
                   detail=f'first difference at output line {n + 1}: original {a[n] if n < len(a) else "<eof>"!r} '
                          f'vs transformed {b[n] if n < len(b) else "<eof>"!r}')
        return out
    out.update(verdict='ok' if changed else 'unchanged-ok', detail='', nlines=len(a), distinct_lines=len(set(a)))
    return out


def run_group(cases, apply, base=None, flags=xform.FLAGS):
    """cases share sources and driver; -> results in order (each with 'id')"""
    original = build_original(cases[0], base=base, flags=flags)
    out = []
    for c in cases:
        assert source_key(c) == source_key(cases[0])
        r = run_case_with_orig(c, apply, original, base=base, flags=flags)
        r['id'] = c['id']
        out.append(r)
    return out


def judge_grouped(ctx, cases, group_worker):
    """like xform.judge_cases, but work items are groups of cases with identical sources/driver.
    group_worker: top-level function(list of cases) -> list of results."""
    from vf.explore import seeded_order
    groups, index = {}, {}
    for i, c in enumerate(cases):
        k = source_key(c)
        groups.setdefault(k, []).append(c)
        index.setdefault(k, []).append(i)
    keys = seeded_order(list(groups), ctx.seed)
    res = ctx.pmap(group_worker, [groups[k] for k in keys], chunksize=1)
    out = [None] * len(cases)
    for k, rs in zip(keys, res):
        for i, r in zip(index[k], rs):
            out[i] = r
    return out


_ORIG_CACHE = {}


def replay_case(case, apply, flags=xform.FLAGS):
    """for replay(): the original program of a case is built once per process (the determinism guard of the runner
    replays the *transformation* twice; the untransformed program is the same text both times)."""
    k = source_key(case)
    if k not in _ORIG_CACHE:
        _ORIG_CACHE[k] = build_original(case, flags=flags)
    return run_case_with_orig(case, apply, _ORIG_CACHE[k], flags=flags)


def confirm_violations(ctx, cases, results, group_worker, good=('ok', 'unchanged-ok', 'refused')):
    """Every violating case is judged a second time (fresh scratch directory, usually another worker process).  The
    machine is shared and at times heavily oversubscribed; a verdict that does not repeat is judged a third time and the
    majority wins.  Every disagreement is recorded in ctx.notes with both details, so a nondeterministic transformation
    cannot disappear silently: it shows up as `flaky` in the evidence."""
    idx = [i for i, r in enumerate(results) if r['verdict'] not in good and r['verdict'] != 'HARNESS']
    if not idx:
        return results, 0
    second = judge_grouped(ctx, [cases[i] for i in idx], group_worker)
    results = list(results)
    flaky = [(i, r2) for i, r2 in zip(idx, second) if r2['verdict'] != results[i]['verdict']]
    if flaky:
        third = judge_grouped(ctx, [cases[i] for i, _ in flaky], group_worker)
        for (i, r2), r3 in zip(flaky, third):
            r1 = results[i]
            ctx.note(f'flaky verdict for {cases[i]["id"]}: run1 {r1["verdict"]} ({r1["detail"][:200]}) / run2 {r2["verdict"]} '
                     f'({r2["detail"][:200]}) / run3 {r3["verdict"]} ({r3["detail"][:200]})')
            votes = [r1, r2, r3]
            for cand in votes:
                if sum(1 for v in votes if v['verdict'] == cand['verdict']) >= 2:
                    results[i] = cand
                    break
            else:
                results[i] = r1
    return results, len(flaky)
