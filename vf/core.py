"""Runner core: context object handed to every check, violation bookkeeping,
known-findings matching, replay files, evidence writing, exit codes.

Exit codes:  0 property held on everything explored (known findings listed)
             1 at least one violation not listed in known_findings/
             2 HARNESS-ERROR (the harness itself is broken; never a verdict)
"""
import hashlib
import importlib
import json
import multiprocessing as mp
import os
import shutil
import sys
import tempfile
import time
import traceback
from pathlib import Path

ROOT = Path(__file__).resolve().parent.parent
EVIDENCE_DIR = ROOT / 'evidence'
REPLAY_DIR = ROOT / 'replays'
FINDINGS_DIR = ROOT / 'known_findings'
SCHEMA_DIR = Path('/root/.vp')
MAX_VIOLATION_LINES = 20


class HarnessError(Exception):
    """The harness (generator, reference model, tool chain) is wrong or broken."""


def sighash(sig):
    return hashlib.sha1(sig.encode()).hexdigest()[:12]


def jsonable(x):
    if isinstance(x, (str, int, float, bool)) or x is None:
        return x
    if isinstance(x, dict):
        return {str(k): jsonable(v) for k, v in x.items()}
    if isinstance(x, (list, tuple, set, frozenset)):
        return [jsonable(v) for v in x]
    return repr(x)


_POOL_FN = None


def _pool_call(args):
    fn_mod, fn_name, item = args
    mod = sys.modules.get(fn_mod) or importlib.import_module(fn_mod)
    return getattr(mod, fn_name)(item)


class Ctx:
    """What a check sees."""

    def __init__(self, pid, tier, seed, nproc=None):
        self.pid = pid
        self.tier = tier
        self.quick = tier == 'quick'
        self.seed = seed
        self.nproc = nproc or int(os.environ.get('VERIF_NPROC', 0)) or self._auto_nproc()
        self.t0 = time.time()
        self.cov = {}            # coverage dict (check fills in)
        self.assumptions = []
        self.violations = []     # (signature, case, detail)
        self.notes = []
        self._scratch = None
        self._pool = None

    @staticmethod
    def _auto_nproc():
        """All cores on an idle machine; a quarter of them when the box is already oversubscribed
        (several checks being developed side by side) so that runs do not starve each other."""
        cpu = os.cpu_count() or 4
        try:
            load = os.getloadavg()[0]
        except OSError:
            load = 0.0
        return cpu if load < 1.5 * cpu else max(4, cpu // 4)

    # -- scratch -----------------------------------------------------------
    @property
    def scratch(self):
        if self._scratch is None:
            base = '/dev/shm' if os.path.isdir('/dev/shm') and os.access('/dev/shm', os.W_OK) else None
            self._scratch = Path(tempfile.mkdtemp(prefix=f'vf_{self.pid}_', dir=base))
        return self._scratch

    def cleanup(self):
        if self._pool is not None:
            self._pool.terminate()
            self._pool.join()
            self._pool = None
        if self._scratch is not None:
            shutil.rmtree(self._scratch, ignore_errors=True)
            self._scratch = None

    # -- time --------------------------------------------------------------
    def elapsed(self):
        return time.time() - self.t0

    # -- fan-out -----------------------------------------------------------
    def pmap(self, fn, items, chunksize=None, ordered=True):
        """Apply top-level function fn to every item on all cores; returns list."""
        items = list(items)
        if not items:
            return []
        if self.nproc <= 1 or len(items) < 4:
            return [fn(i) for i in items]
        if self._pool is None:
            self._pool = mp.get_context('fork').Pool(self.nproc)
        if chunksize is None:
            chunksize = max(1, min(256, len(items) // (self.nproc * 8) or 1))
        args = [(fn.__module__, fn.__name__, i) for i in items]
        it = self._pool.imap(_pool_call, args, chunksize) if ordered else \
            self._pool.imap_unordered(_pool_call, args, chunksize)
        return list(it)

    def reset_pool(self):
        """Call after changing module-level configuration that forked workers must see."""
        if self._pool is not None:
            self._pool.terminate()
            self._pool.join()
            self._pool = None

    # -- verdicts ----------------------------------------------------------
    def violation(self, signature, case, detail=''):
        """Record one violating case.  `signature` identifies *what* failed
        (canonical, minimal core) and is what known findings are matched on."""
        self.violations.append((str(signature), jsonable(case), str(detail)))

    def harness_error(self, msg):
        raise HarnessError(msg)

    def require(self, cond, msg):
        if not cond:
            raise HarnessError(msg)

    def note(self, msg):
        self.notes.append(str(msg))


def load_check(pid):
    hits = sorted((ROOT / 'checks').glob(f'{pid.lower()}_*.py'))
    if len(hits) != 1:
        raise HarnessError(f'no unique check module for {pid}: {hits}')
    return importlib.import_module(f'checks.{hits[0].stem}')


def load_findings(pid):
    """Entries of known_findings/<pid>.json; only status=open suppresses."""
    f = FINDINGS_DIR / f'{pid}.json'
    if not f.exists():
        return []
    data = json.loads(f.read_text())
    return [e for e in data if e.get('property') == pid]


def write_evidence(pid, level, tier, seed, cov, assumptions, wall, nviol, extra=None):
    import jsonschema
    ev = {
        'property_id': pid, 'tier': tier, 'seed': seed, 'level': level,
        'coverage': jsonable(cov), 'assumptions': list(assumptions),
        'wall_s': round(wall, 3), 'violations': nviol,
    }
    if extra:
        ev.update(extra)
    schema = json.loads((SCHEMA_DIR / 'EVIDENCE.schema.json').read_text()) \
        if (SCHEMA_DIR / 'EVIDENCE.schema.json').exists() else \
        json.loads((ROOT / 'vf' / 'EVIDENCE.schema.json').read_text())
    jsonschema.validate(ev, schema)
    # evidence under /verif/evidence describes /repo only: runs against a scratch tree (mutation experiments
    # through VERIF_REPO) write theirs to a scratch location instead
    evdir = EVIDENCE_DIR
    if os.environ.get('VERIF_REPO', '/repo').rstrip('/') != '/repo':
        evdir = Path(tempfile.gettempdir()) / 'verif_evidence_scratch'
    evdir.mkdir(exist_ok=True)
    tmp = evdir / f'.{pid}.json.tmp'
    tmp.write_text(json.dumps(ev, indent=1, sort_keys=True) + '\n')
    tmp.replace(evdir / f'{pid}.json')
    return ev


def write_replay(pid, sig, case, detail):
    d = REPLAY_DIR / pid
    d.mkdir(parents=True, exist_ok=True)
    p = d / f'{sighash(sig)}.json'
    p.write_text(json.dumps({'property': pid, 'signature': sig, 'case': case,
                             'detail': detail}, indent=1) + '\n')
    return p


def run_check(pid, tier, seed):
    mod = load_check(pid)
    ctx = Ctx(pid, tier, seed)
    level = getattr(mod, 'LEVEL', 'exploration')
    try:
        mod.run(ctx)
        # group by signature, keep the first (smallest-first enumeration) case
        groups = {}
        for sig, case, detail in ctx.violations:
            groups.setdefault(sig, []).append((case, detail))
        findings = load_findings(pid)
        if (REPLAY_DIR / pid).is_dir():
            for old in (REPLAY_DIR / pid).glob('*.json'):
                old.unlink()
        open_sigs = {e['signature']: e for e in findings if e.get('status') == 'open'}
        known, fresh = [], []
        for sig, lst in groups.items():
            case, detail = lst[0]
            # determinism guard: the representative must fail again, twice, on replay
            for attempt in (1, 2):
                try:
                    r = mod.replay(case)
                except Exception as e:  # replay crashing is a failure mode of the case, keep it
                    r = f'replay raised {type(e).__name__}: {e}'
                if not r:
                    raise HarnessError(
                        f'violation {sig!r} did not reproduce on replay #{attempt} '
                        f'(nondeterministic harness); case={json.dumps(case)[:400]}')
            path = write_replay(pid, sig, case, detail)
            (known if sig in open_sigs else fresh).append((sig, len(lst), path, detail))
        seen_sigs = set(groups)
        for sig, n, path, detail in known:
            print(f'KNOWN-FINDING: property={pid} {open_sigs[sig].get("what", sig)} '
                  f'[sig={sighash(sig)} cases={n}]')
        for sig, n, path, detail in fresh[:MAX_VIOLATION_LINES]:
            print(f'VIOLATION property={pid} replay={path}')
            print(f'  signature: {sig[:300]}')
            print(f'  detail: {detail[:600]}  (cases with this signature: {n})')
        if len(fresh) > MAX_VIOLATION_LINES:
            print(f'  ... {len(fresh) - MAX_VIOLATION_LINES} more distinct violation signatures')
        stale = [s for s in open_sigs if s not in seen_sigs]
        for s in stale:
            # an open finding that no longer shows is information, not an alarm
            print(f'NOTE: open known finding not observed in this tier: '
                  f'{open_sigs[s].get("what", s)} [sig={sighash(s)}]')
        cov = dict(ctx.cov)
        cov.setdefault('evaluations', 0)
        cov['violating_cases'] = len(ctx.violations)
        cov['violation_signatures'] = len(groups)
        cov['known_finding_signatures'] = len(known)
        cov['unlisted_violation_signatures'] = len(fresh)
        if ctx.notes:
            cov['notes'] = ctx.notes[:50]
        ev = write_evidence(pid, level, tier, seed, cov, ctx.assumptions, ctx.elapsed(), len(fresh))
        c = ev['coverage']
        print(f'{pid} {tier} seed={seed}: evaluations={c.get("evaluations")} '
              f'distinct_nontrivial={c.get("distinct_nontrivial")} states={c.get("states")} '
              f'transitions={c.get("transitions")} exhaustive={c.get("exhaustive")} '
              f'known={len(known)} violations={len(fresh)} wall={ev["wall_s"]}s')
        return 1 if fresh else 0
    finally:
        ctx.cleanup()


def run_replay(pid, path):
    mod = load_check(pid)
    data = json.loads(Path(path).read_text())
    case = data['case'] if 'case' in data and 'property' in data else data
    r = mod.replay(case)
    if r:
        print(f'VIOLATION property={pid} replay={path}')
        print(f'  detail: {str(r)[:2000]}')
        return 1
    print(f'replay {path}: property {pid} holds on this case')
    return 0


def main(argv=None):
    import argparse
    ap = argparse.ArgumentParser(prog='check')
    ap.add_argument('pid')
    ap.add_argument('--tier', choices=['quick', 'thorough'], default=None)
    ap.add_argument('--replay', default=None)
    a = ap.parse_args(argv)
    pid = a.pid.upper()
    env_tier = os.environ.get('VERIF_TIER')
    tier = a.tier or env_tier or 'quick'
    if a.tier and env_tier and env_tier != a.tier:
        print(f'HARNESS-ERROR: VERIF_TIER={env_tier} disagrees with --tier {a.tier}')
        return 2
    try:
        seed = int(os.environ.get('VERIF_SEED', '0') or 0)
    except ValueError:
        seed = 0
    cwd = Path.cwd()
    if (cwd / 'loki').is_dir():
        print(f'HARNESS-ERROR: cwd {cwd} contains a loki/ directory that would shadow the package')
        return 2
    try:
        import loki  # noqa
        lp = Path(loki.__file__).resolve()
        repo = os.environ.get('VERIF_REPO', '/repo').rstrip('/')
        if not str(lp).startswith(repo + '/'):
            raise HarnessError(f'loki resolves to {lp}, not {repo}')
        if a.replay:
            return run_replay(pid, a.replay)
        return run_check(pid, tier, seed)
    except HarnessError as e:
        print(f'HARNESS-ERROR: property={pid} {e}')
        return 2
    except Exception:
        traceback.print_exc()
        print(f'HARNESS-ERROR: property={pid} unexpected exception in harness')
        return 2
