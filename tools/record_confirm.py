#!/venv/bin/python
"""Write the lead's own suite confirmation (from /tmp/confirm_<name>.log) into seeded/<name>/meta.json."""
import json, re
from pathlib import Path
for d in sorted(Path('/verif/seeded').glob('*_*')):
    log = Path(f'/tmp/confirm_{d.name}.log')
    if not log.exists():
        continue
    txt = [l for l in log.read_text().splitlines() if 'condarc' not in l]
    m = json.loads((d / 'meta.json').read_text())
    summ = ' | '.join(txt[-2:])[:300]
    m.setdefault('lead_confirmation', {})['tests'] = f'relevant part of the pinned suite run by the lead in a scratch worktree (tools/baseline.py, compared with BASELINE.json stable_pass): {summ}'
    (d / 'meta.json').write_text(json.dumps(m, indent=1) + '\n')
print('ok')
