"""Layout grammar: one base Fortran file + a menu of orthogonal layout/syntax deviations.

The base file has a module (three imports with only / rename / plain, a derived type with
procedure bindings, a renamed binding and a generic binding, a generic interface block,
two module subroutines and a module function) followed by a free subroutine and a free
function.  `build(devs, seed)` applies a dict {switch: value} of deviations and returns a
`Layout` whose *facts are known by construction* (they are recorded while the abstract
statement list is assembled, never recovered from the text):

  facts['units']       [[path, kind], ...]       path = 'mod/proc/inner', kind in module|subroutine|function
  facts['imports']     {path: [[module, [[local, remote|None], ...] (only list), [[local, remote], ...] (renames)], ...]}
  facts['typedefs']    {path: [[name, [['proc', binding, target|None] | ['generic', name, [specifics...]], ...]], ...]}
  facts['interfaces']  {path: [[spec|None, abstract, [names in [module] procedure stmts], [[name, kind] of interface bodies]], ...]}
  facts['calls']       {path: [target, ...]}     in source order, 'p%add' for type-bound calls
  layout.stmts         every statement with .kind, .unit, .l0, .l1 (1-based physical lines) and
                       .solo (True when it is the only statement on its lines)

All names in the facts are lower case.  Every generated file is meant to be valid Fortran
2008; checks verify that with `gfortran -fsyntax-only` (see `syntax_check`), together with
the harness-owned companion modules `DEPS`.

`VERIF_SEED` only selects the identifier pool (`NAMES[seed % 3]`), never the structure.
"""
import contextlib
import itertools
import re
import signal

from vf.explore import deviations

__all__ = ['MENU', 'DEPS', 'build', 'cases', 'syntax_check', 'Layout', 'dev_key', 'CpuBudget', 'cpu_guard']


DEPS = '''module m_kinds
  implicit none
  integer, parameter :: rk = 8, ik = 4, sk = 4
end module m_kinds

module m_util
  implicit none
contains
  subroutine util_step(n)
    integer, intent(inout) :: n
    n = n + 1
  end subroutine util_step
  subroutine util_log(n)
    integer, intent(in) :: n
    if (n < 0) print *, n
  end subroutine util_log
end module m_util
'''

# identifier pools: the seed picks one of them (surface spelling only)
NAMES = [
    dict(mod='m_geo', typ='t_pt', add_i='add_i', add_r='add_r', norm='norm', pt_norm='pt_norm', add='add',
         combine='combine', drv='driver_sub', twice='twice', inner='inner_step', ifun='inner_val',
         ext='ext_proc', cb='cb_iface', p='p', a='a'),
    dict(mod='shape_mod', typ='shape_type', add_i='bump_int', add_r='bump_real', norm='size', pt_norm='shape_size',
         add='bump', combine='merge_in', drv='run_shapes', twice='dbl', inner='local_step', ifun='local_val',
         ext='outer_proc', cb='hook_iface', p='sh', a='cnt'),
    dict(mod='Field_Ops', typ='Field_T', add_i='Acc_I', add_r='Acc_R', norm='Mag', pt_norm='Field_Mag',
         add='Acc', combine='Gather', drv='Step_Fields', twice='Two_X', inner='Sub_Step', ifun='Sub_Val',
         ext='Ext_Hook', cb='Cb_Sig', p='fld', a='num'),
]

# switch -> non-default values.  Every value names exactly one modification of the base file.
MENU = {
    # ---- the menu of DESIGN §4 C19
    'cont_header': ['sub_args', 'sub_kw', 'fun_result', 'free3', 'module'],
    'cont_use': ['only', 'list_amp', 'rename', 'comment_between'],
    'cont_call': ['args', 'name', 'member', 'args3'],
    'semi': ['calls', 'assign_call', 'use', 'decl', 'end', 'nospace'],
    'inline_if': ['call', 'paren', 'member', 'nospace', 'nest2', 'nest3'],
    'kw_comment': ['end_sub', 'call', 'use', 'contains', 'inline_call', 'end_type', 'interface', 'end_module'],
    'kw_string': ['call', 'end_sub', 'use_print', 'dq_semi', 'amp', 'bang', 'contains'],
    'label': ['call', 'continue', 'end', 'if_call', 'format'],
    'case': ['upper', 'title', 'kw_upper', 'end_name_upper'],
    'bare_end': ['sub', 'fun', 'free', 'module', 'all'],
    'iface': ['procedure', 'split', 'noname_end', 'body', 'abstract', 'body_fun'],
    'prefix': ['pure', 'elemental', 'recursive', 'pure_elemental', 'impure', 'recursive_fun'],
    'typed_fun': ['integer', 'kind', 'pure_typed', 'typed_result'],
    'end_noname': ['fun', 'sub', 'module', 'type', 'free', 'all'],
    'internal': ['free_sub', 'module_sub', 'two', 'fun_in_fun'],
    'contains_case': ['upper', 'title', 'comment', 'type_upper'],
    'use_rename': ['nospace', 'plain_rename', 'two_renames', 'only_empty', 'in_routine'],
    'use_colons': ['plain', 'only', 'nospace'],
    'use_intrinsic': ['intrinsic', 'non_intrinsic', 'nospace'],
    # ---- layout that moves lines (DESIGN §4 C20)
    'lead': ['comment', 'blank', 'both'],
    'blank': ['spec', 'between_units', 'body'],
    'cont_decl': ['two', 'three_comment'],
    'trail_ws': ['all'],
    'inline_comment': ['stmts', 'headers'],
    'indent': ['none', 'deep'],
    'kw_names': ['on'],
    # ---- predefined CPP macros / OPEN arguments the FP frontend sanitises away before parsing (files need -cpp)
    'cpp': ['line', 'file_newunit'],
}


def dev_key(devs):
    """Canonical text of a deviation dict (used in signatures / samples)."""
    return ','.join(f'{k}={devs[k]}' for k in sorted(devs)) or 'base'


class Stmt:
    __slots__ = ('kind', 'parts', 'unit', 'info', 'cont', 'join', 'label', 'trail', 'depth', 'l0', 'l1', 'solo',
                 'nocase')

    def __init__(self, kind, parts, unit, depth, **info):
        self.kind = kind
        self.parts = [parts] if isinstance(parts, str) else list(parts)
        self.unit = unit
        self.depth = depth
        self.info = info
        self.cont = []        # [(index of the part that starts a new physical line, style)]
        self.join = False     # appended to the previous statement's line with ';'
        self.label = None
        self.trail = None     # trailing comment text (including '!')
        self.nocase = False   # comment lines are never case-transformed
        self.l0 = self.l1 = None
        self.solo = True

    def brk(self, index, style='plain'):
        self.cont.append((index, style))
        return self

    @property
    def text(self):
        return ''.join(self.parts)

    def as_dict(self):
        return dict(kind=self.kind, unit=self.unit, l0=self.l0, l1=self.l1, solo=self.solo, text=self.text)


class Layout:
    def __init__(self, devs, text, stmts, facts):
        self.devs = dict(devs)
        self.text = text
        self.stmts = stmts
        self.facts = facts
        self.nlines = text.count('\n')
        self.cpp = bool(self.devs.get('cpp'))     # needs the C preprocessor to be valid Fortran for gfortran

    @property
    def key(self):
        return dev_key(self.devs)


class _Prog:
    """Abstract statement list + facts recorded by construction."""

    def __init__(self):
        self.stmts = []
        self.stack = []          # [(path, kind)]
        self.units = []
        self.imports = {}
        self.typedefs = {}
        self.interfaces = {}
        self.calls = {}
        self._typedef = None
        self._iface = None

    # -- helpers -------------------------------------------------------------
    @property
    def unit(self):
        return self.stack[-1][0] if self.stack else None

    @property
    def depth(self):
        d = len(self.stack)
        if self._typedef is not None:
            d += 1
        if self._iface is not None:
            d += 1
        return d

    def add(self, kind, parts, depth=None, **info):
        s = Stmt(kind, parts, self.unit, self.depth if depth is None else depth, **info)
        self.stmts.append(s)
        return s

    # -- program units ---------------------------------------------------------
    def begin(self, kind, name, parts):
        in_iface = self._iface is not None
        path = name.lower() if not self.stack else f'{self.unit}/{name.lower()}'
        s = Stmt(kind + '_begin', parts, path, self.depth, name=name.lower(), in_iface=in_iface)
        self.stmts.append(s)
        if in_iface:
            self._iface[3].append([name.lower(), kind])
            self.stack.append((path, kind, 'iface', self._iface))
            self._iface = None      # statements inside the interface body are not "in the interface"
        else:
            self.units.append([path, kind])
            self.stack.append((path, kind, 'unit', None))
            self.imports.setdefault(path, [])
            self.calls.setdefault(path, [])
        return s

    def end(self, parts):
        path, kind, how, saved = self.stack[-1]
        s = Stmt(kind + '_end', parts, path, len(self.stack) - 1 + (1 if how == 'iface' else 0), name=path.split('/')[-1])
        self.stack.pop()
        if how == 'iface':
            self._iface = saved
            s.depth = self.depth
        self.stmts.append(s)
        return s

    def contains(self, text='contains'):
        return self.add('contains', text, depth=self.depth - 1)

    # -- spec statements ---------------------------------------------------------
    def use(self, parts, module, only=(), renames=()):
        rec = [module.lower(), [[a.lower(), b.lower() if b else None] for a, b in only],
               [[a.lower(), b.lower()] for a, b in renames]]
        top = self.stack[-1]
        if top[2] == 'unit':
            self.imports[self.unit].append(rec)
        return self.add('use', parts, module=module.lower())

    def begin_type(self, parts, name):
        s = self.add('type_begin', parts, name=name.lower())
        self._typedef = [name.lower(), []]
        self.typedefs.setdefault(self.unit, []).append(self._typedef)
        return s

    def binding(self, parts, pairs):
        for b, t in pairs:
            self._typedef[1].append(['proc', b.lower(), t.lower() if t else None])
        return self.add('binding', parts)

    def generic(self, parts, name, specifics):
        self._typedef[1].append(['generic', name.lower(), [s.lower() for s in specifics]])
        return self.add('generic', parts)

    def end_type(self, parts):
        self._typedef = None
        return self.add('type_end', parts)

    def begin_iface(self, parts, spec=None, abstract=False):
        s = self.add('iface_begin', parts)
        self._iface = [spec.lower() if spec else None, bool(abstract), [], []]
        self.interfaces.setdefault(self.unit, []).append(self._iface)
        return s

    def modproc(self, parts, names):
        self._iface[2].extend(n.lower() for n in names)
        return self.add('modproc', parts)

    def end_iface(self, parts):
        self._iface = None
        return self.add('iface_end', parts)

    # -- executable statements -------------------------------------------------
    def call(self, parts, target, kind='call'):
        top = self.stack[-1]
        if top[2] == 'unit':
            self.calls[self.unit].append(target.lower())
        return self.add(kind, parts, target=target.lower())

    def facts(self):
        return dict(units=sorted(self.units), imports=self.imports, typedefs=self.typedefs,
                    interfaces=self.interfaces, calls=self.calls)


# ------------------------------------------------------------------ case transformation
_KEYWORDS = {
    'module', 'end', 'use', 'only', 'implicit', 'none', 'type', 'contains', 'procedure', 'generic', 'interface',
    'subroutine', 'function', 'result', 'class', 'integer', 'real', 'character', 'intent', 'in', 'inout', 'out',
    'call', 'if', 'then', 'continue', 'print', 'format', 'pure', 'elemental', 'recursive', 'impure', 'abstract',
    'intrinsic', 'non_intrinsic', 'kind', 'len', 'write', 'external', 'private', 'public',
}
_WORD = re.compile(r'[A-Za-z_]\w*')
_QUOTED = re.compile(r"('[^']*'|\"[^\"]*\")")


def _case_code(text, mode, end_name=None):
    """Transform the letter case of code (never of quoted strings)."""
    def tr(seg):
        if mode == 'upper':
            return seg.upper()
        if mode == 'title':
            return _WORD.sub(lambda m: m.group(0).capitalize(), seg)
        if mode == 'kw_upper':
            return _WORD.sub(lambda m: m.group(0).upper() if m.group(0).lower() in _KEYWORDS else m.group(0), seg)
        return seg
    out = []
    for i, seg in enumerate(_QUOTED.split(text)):
        out.append(seg if i % 2 else tr(seg))
    return ''.join(out)


# ------------------------------------------------------------------ the base file and its deviations
def build(devs, seed=0):
    """Return the `Layout` for the base file modified by the deviation dict `devs`."""
    devs = dict(devs)
    for k, v in devs.items():
        if k not in MENU or v not in MENU[k]:
            raise ValueError(f'unknown deviation {k}={v}')
    o = devs.get
    N = dict(NAMES[seed % len(NAMES)])
    if o('kw_names'):
        # identifiers that start with / contain Fortran keywords
        N.update(mod='module_geo', typ='type_pt', add_i='call_add', add_r='end_add', norm='function_norm',
                 pt_norm='use_norm', add='contains_add', combine='interface_all', drv='subroutine_drv',
                 twice='end_function_x', inner='call_inner', ifun='procedure_val', ext='external_call',
                 cb='abstract_cb', p='endtype', a='if_a')
    mod, typ, add_i, add_r, norm, pt_norm = N['mod'], N['typ'], N['add_i'], N['add_r'], N['norm'], N['pt_norm']
    add, combine, drv, twice, inner, ifun = N['add'], N['combine'], N['drv'], N['twice'], N['inner'], N['ifun']
    ext, cb, p, a = N['ext'], N['cb'], N['p'], N['a']

    P = _Prog()
    bare = o('bare_end')
    noname = o('end_noname')
    pre = o('prefix')
    ccase = o('contains_case')

    def end_parts(kw, name, which):
        """END statement of a unit: which in sub|fun|free|module (the switch target names)."""
        if bare in (which, 'all') or (bare == 'free' and which == 'free'):
            return ['end']
        if noname in (which, 'all'):
            return ['end ', kw]
        return ['end ', kw, ' ', name]

    # ---- leading material
    if o('lead') in ('comment', 'both'):
        c = P.add('comment', '! (C) test layout file')
        c.nocase = True
        c = P.add('comment', '! generated: keep all lines')
        c.nocase = True
    if o('lead') in ('blank', 'both'):
        P.add('blank', '')
        P.add('blank', '')

    # ---- module header
    s = P.begin('module', mod, ['module ', mod])
    if o('cont_header') == 'module':
        s.brk(1)
    if o('inline_comment') == 'headers':
        s.trail = '! the module'

    # imports
    icb = 'iso_c_binding'
    if o('use_intrinsic') == 'intrinsic':
        P.use(['use, intrinsic :: ', icb, ', only: c_int'], icb, only=[('c_int', None)])
    elif o('use_intrinsic') == 'nospace':
        P.use(['use,intrinsic::', icb, ',only:c_int'], icb, only=[('c_int', None)])
    else:
        P.use(['use ', icb, ', only: c_int'], icb, only=[('c_int', None)])
    if o('kw_comment') == 'use':
        P.add('comment', '! use m_ghost, only: ghost').nocase = True

    ur = o('use_rename')
    uc = o('use_colons')
    head = 'use :: m_kinds' if uc == 'only' else 'use m_kinds'
    if ur == 'nospace':
        s = P.use([head, ', only: ', 'wp=>', 'rk', ', ik'], 'm_kinds', only=[('wp', 'rk'), ('ik', None)])
    elif ur == 'two_renames':
        s = P.use([head, ', only: ', 'wp => ', 'rk', ', ik => ik, sp => sk'], 'm_kinds',
                  only=[('wp', 'rk'), ('ik', 'ik'), ('sp', 'sk')])
    else:
        s = P.use([head, ', only: ', 'wp => ', 'rk', ', ik'], 'm_kinds', only=[('wp', 'rk'), ('ik', None)])
    cu = o('cont_use')
    if cu == 'only':
        s.brk(2)
    elif cu == 'list_amp':
        s.brk(4, 'amp')
    elif cu == 'rename':
        s.brk(3)
    elif cu == 'comment_between':
        s.brk(2, 'comment')
    use_kinds = s

    if o('use_intrinsic') == 'non_intrinsic':
        s = P.use(['use, non_intrinsic :: m_util'], 'm_util')
    elif uc == 'plain':
        s = P.use(['use :: m_util'], 'm_util')
    elif uc == 'nospace':
        s = P.use(['use::m_util'], 'm_util')
    elif ur == 'plain_rename':
        s = P.use(['use m_util, log_it => util_log'], 'm_util', renames=[('log_it', 'util_log')])
    elif ur == 'only_empty':
        s = P.use(['use m_util, only:'], 'm_util')
        P.use(['use m_util, only: util_step'], 'm_util', only=[('util_step', None)])
    else:
        s = P.use(['use m_util'], 'm_util')
    if o('semi') == 'use':
        s.join = True
    if o('blank') == 'spec':
        P.add('blank', '')
    s = P.add('implicit', 'implicit none')
    if o('trail_ws'):
        pass  # applied at render time to every line
    if o('kw_comment') == 'contains':
        P.add('comment', '!contains').nocase = True
        P.add('comment', '! contains').nocase = True
    if o('kw_comment') == 'interface':
        P.add('comment', '! interface ghost_if').nocase = True
        P.add('comment', '! end interface ghost_if').nocase = True

    # abstract interface (deviation)
    if o('iface') == 'abstract':
        P.begin_iface('abstract interface', abstract=True)
        P.begin('subroutine', cb, ['subroutine ', cb, '(n)'])
        P.add('decl', 'integer, intent(in) :: n')
        P.end(['end subroutine ', cb])
        P.end_iface('end interface')

    # derived type
    P.begin_type(['type :: ', typ], typ)
    s = P.add('decl', ['integer(ik) ', ':: n ', '= 0'])
    if o('cont_decl') == 'two':
        s.brk(1)
    elif o('cont_decl') == 'three_comment':
        s.brk(1, 'comment').brk(2, 'amp')
    s = P.add('decl', 'real(wp) :: w = 1.0_wp')
    if o('semi') == 'decl':
        s.join = True
    if o('kw_comment') == 'end_type':
        P.add('comment', f'! end type {typ}').nocase = True
    if ccase == 'type_upper':
        P.contains('CONTAINS')
    else:
        P.contains('contains')
    P.binding(['procedure :: ', add_i], [(add_i, None)])
    P.binding(['procedure :: ', add_r], [(add_r, None)])
    P.binding(['procedure :: ', norm, ' => ', pt_norm], [(norm, pt_norm)])
    P.generic(['generic :: ', add, ' => ', add_i, ', ', add_r], add, [add_i, add_r])
    P.end_type(['end type'] if noname in ('type', 'all') else ['end type ', typ])

    # generic interface
    ifv = o('iface')
    P.begin_iface(['interface ', combine], spec=combine)
    if ifv == 'procedure':
        P.modproc(['procedure :: ', add_i, ', ', add_r], [add_i, add_r])
    elif ifv == 'split':
        P.modproc(['module procedure ', add_i], [add_i])
        P.modproc(['module procedure ', add_r], [add_r])
    else:
        P.modproc(['module procedure ', add_i, ', ', add_r], [add_i, add_r])
    P.end_iface(['end interface'] if ifv == 'noname_end' else ['end interface ', combine])
    if o('blank') == 'spec':
        P.add('blank', '')

    # module contains
    if ccase == 'upper':
        s = P.contains('CONTAINS')
    elif ccase == 'title':
        s = P.contains('Contains')
    else:
        s = P.contains('contains')
    if ccase == 'comment':
        s.trail = '! module procedures below'

    # ---- module subroutine add_i
    pfx = {'recursive': 'recursive ', 'impure': 'impure '}.get(pre, '')
    s = P.begin('subroutine', add_i, [pfx + 'subroutine ', add_i, f'({p}, ', 'k)'])
    ch = o('cont_header')
    if ch == 'sub_args':
        s.brk(3)
    elif ch == 'sub_kw':
        s.brk(1)
    if o('inline_comment') == 'headers':
        s.trail = f'! adds k to {p}'
    P.add('decl', f'class({typ}), intent(inout) :: {p}')
    P.add('decl', 'integer, intent(in) :: k')
    P.add('decl', 'integer(c_int) :: k2')
    if o('kw_string') or o('label') == 'format' or o('cpp') == 'file_newunit':
        P.add('decl', 'character(len=48) :: msg')
    if o('cpp') == 'file_newunit':
        P.add('decl', 'integer :: iu')
    if o('internal') == 'module_sub':
        pass
    if o('blank') == 'body':
        P.add('blank', '')
    if o('cpp') == 'line':
        P.call(['call ', 'util_log', '(__LINE__)'], 'util_log').nocase = True
        P.add('assign', 'k2 = __LINE__').nocase = True
    elif o('cpp') == 'file_newunit':
        P.add('assign', 'msg = __FILE__').nocase = True
        P.add('open', "open(newunit=iu, status='scratch')").nocase = True
        P.add('close', 'close(iu)')
    s = P.add('assign', 'k2 = k')
    if o('inline_comment') == 'stmts':
        s.trail = '! copy'
    if o('kw_comment') == 'call':
        P.add('comment', '! call ghost(k2)').nocase = True
        P.add('comment', '!call ghost(k2)').nocase = True
    ks = o('kw_string')
    if ks == 'call':
        P.add('assign', "msg = 'call ghost(k2)'")
    elif ks == 'end_sub':
        P.add('assign', f"msg = 'end subroutine {add_i}'")
    elif ks == 'use_print':
        P.add('print', "print *, 'use m_ghost'")
    elif ks == 'dq_semi':
        P.add('assign', "msg = \"it's; call ghost(1)\"")
    elif ks == 'amp':
        P.add('assign', "msg = 'a & b'")
        P.add('assign', "msg = 'c &'")
    elif ks == 'bang':
        P.add('assign', "msg = 'wow! call ghost(k2)'")
    elif ks == 'contains':
        P.add('assign', "msg = 'contains'")
    if o('label') == 'format':
        P.add('format', "format(a)").label = '100'
        P.add('write', 'write(msg, 100) \'x\'')
    # the call in add_i
    lab = o('label')
    cc = o('cont_call')
    ii = o('inline_if')
    if ii == 'call':
        s = P.call(['if (k2 > 0) ', 'call ', 'util_step', '(k2)'], 'util_step', kind='if_call')
    elif ii == 'paren':
        s = P.call(['if ((k2 > 0) .and. (k2 < 99)) ', 'call ', 'util_step', '(k2)'], 'util_step', kind='if_call')
    elif ii == 'nospace':
        s = P.call(['if(k2>0)', 'call ', 'util_step', '(k2)'], 'util_step', kind='if_call')
    elif ii == 'nest2':     # condition with parentheses nested two levels inside the IF parentheses
        s = P.call(['if (abs(min(k2, 5)) > 0) ', 'call ', 'util_step', '(k2)'], 'util_step', kind='if_call')
    elif ii == 'nest3':     # ... three levels
        s = P.call(['if (abs(min(max(k2, 1), 5)) > 0) ', 'call ', 'util_step', '(k2)'], 'util_step', kind='if_call')
    elif lab == 'if_call':
        s = P.call(['if (k2 > 0) ', 'call ', 'util_step', '(k2)'], 'util_step', kind='if_call')
        s.label = '30'
    else:
        s = P.call(['', 'call ', 'util_step', '(k2)'], 'util_step')
    if lab == 'call':
        s.label = '10'
    if cc == 'name':
        s.brk(2)
    if o('semi') == 'assign_call':
        s.join = True
        if o('inline_comment') == 'stmts':
            P.stmts[-2].trail = None
    if o('kw_comment') == 'inline_call':
        s.trail = '! call ghost(k2)'
    if lab == 'continue':
        P.add('continue', 'continue').label = '20'
    if o('internal') == 'module_sub':
        P.call(['call ', inner, '(k2)'], inner)
    if o('kw_comment') == 'end_sub':
        P.add('comment', f'! end subroutine {add_i}').nocase = True
        P.add('comment', f'!end subroutine {add_i}').nocase = True
    s = P.add('assign', f'{p}%n = {p}%n + k2')
    if o('internal') == 'module_sub':
        P.contains('contains')
        P.begin('subroutine', inner, ['subroutine ', inner, '(m)'])
        P.add('decl', 'integer, intent(inout) :: m')
        P.call(['call ', 'util_log', '(m)'], 'util_log')
        P.end(['end subroutine ', inner])
    s = P.end(end_parts('subroutine', add_i, 'sub'))
    if lab == 'end':
        s.label = '99'

    # ---- module subroutine add_r
    if o('blank') == 'between_units':
        P.add('blank', '')
        P.add('blank', '')
    pfx = {'pure': 'pure ', 'elemental': 'elemental ', 'pure_elemental': 'pure elemental '}.get(pre, '')
    P.begin('subroutine', add_r, [pfx + 'subroutine ', add_r, f'({p}, f)'])
    P.add('decl', f'class({typ}), intent(inout) :: {p}')
    P.add('decl', 'real(wp), intent(in) :: f')
    s = P.add('assign', f'{p}%w = {p}%w + f')
    s = P.end(end_parts('subroutine', add_r, 'sub'))
    if o('semi') == 'end':
        s.join = True

    # ---- module function pt_norm
    tf = o('typed_fun')
    if tf == 'kind':
        s = P.begin('function', pt_norm, ['real(kind=wp) function ', pt_norm, '(self)'])
        res = pt_norm
    elif pre == 'recursive_fun':
        s = P.begin('function', pt_norm, ['recursive function ', pt_norm, '(self) ', 'result(r)'])
        res = 'r'
    else:
        s = P.begin('function', pt_norm, ['function ', pt_norm, '(self) ', 'result(r)'])
        res = 'r'
    if ch == 'fun_result' and res == 'r':
        s.brk(3)
    P.add('decl', f'class({typ}), intent(in) :: self')
    if res == 'r':
        P.add('decl', 'real(wp) :: r')
    if o('internal') == 'fun_in_fun':
        P.add('assign', f'{res} = self%w * {ifun}(self%n)')
        P.contains('contains')
        P.begin('function', ifun, ['function ', ifun, '(m) ', 'result(v)'])
        P.add('decl', 'integer, intent(in) :: m')
        P.add('decl', 'real(wp) :: v')
        P.add('assign', 'v = real(m, wp)')
        P.end(['end function ', ifun])
    else:
        P.add('assign', f'{res} = self%w * self%n')
    P.end(end_parts('function', pt_norm, 'fun'))
    if o('kw_comment') == 'end_module':
        P.add('comment', f'! end module {mod}').nocase = True
    P.end(end_parts('module', mod, 'module'))

    # ---- free subroutine
    if o('blank') == 'between_units':
        P.add('blank', '')
        P.add('blank', '')
        c = P.add('comment', '! free procedures')
        c.nocase = True
    P.add('blank', '')
    s = P.begin('subroutine', drv, ['subroutine ', drv, '(', f'{a})'])
    if ch == 'free3':
        s.brk(1, 'amp').brk(3, 'amp')
    P.use(['use ', mod, ', only: ', typ, ', ', combine], mod, only=[(typ, None), (combine, None)])
    if ur == 'in_routine':
        P.use(['use m_util, only: step_it => util_step'], 'm_util', only=[('step_it', 'util_step')])
        step = 'step_it'
    else:
        P.use(['use m_util, only: util_step'], 'm_util', only=[('util_step', None)])
        step = 'util_step'
    P.add('implicit', 'implicit none')
    P.add('decl', f'integer, intent(inout) :: {a}')
    P.add('decl', f'type({typ}) :: {p}')
    if ifv in ('body', 'body_fun'):
        P.begin_iface('interface')
        if ifv == 'body':
            P.begin('subroutine', ext, ['subroutine ', ext, '(n)'])
            P.add('decl', 'integer, intent(inout) :: n')
            P.end(['end subroutine ', ext])
        else:
            P.begin('function', ext, ['integer function ', ext, '(n)'])
            P.add('decl', 'integer, intent(in) :: n')
            P.end(['end function ', ext])
        P.end_iface('end interface')
    if o('blank') == 'body':
        P.add('blank', '')
    s = P.call(['call ', combine, f'({p}, ', f'{a})'], combine)
    if cc == 'args':
        s.brk(3)
    elif cc == 'args3':
        s.brk(2, 'amp').brk(3, 'amp')
    if ii == 'member':
        s = P.call([f'if ({a} > 0) ', 'call ', f'{p}%', add, '(2)'], f'{p}%{add}', kind='if_call')
    else:
        s = P.call(['', 'call ', f'{p}%', add, '(2)'], f'{p}%{add}')
    if cc == 'member':
        s.brk(3)
    s1 = P.call(['call ', f'{p}%{add_r}', '(0.5d0)'], f'{p}%{add_r}')
    s2 = P.call(['call ', step, f'({a})'], step)
    if o('semi') == 'calls':
        s2.join = True
    if o('semi') == 'nospace':
        s2.join = 'tight'
    if ifv == 'body':
        P.call(['call ', ext, f'({a})'], ext)
    elif ifv == 'body_fun':
        P.add('assign', f'{a} = {ext}({a})')
    if o('internal') in ('free_sub', 'two'):
        P.call(['call ', inner, f'({a})'], inner)
    if o('internal') == 'two':
        P.add('assign', f'{a} = {ifun}({a})')
    s = P.add('assign', f'{a} = {a} + {p}%n')
    if o('inline_comment') == 'stmts':
        s.trail = '! accumulate'
    if o('internal') in ('free_sub', 'two'):
        P.contains('contains')
        P.begin('subroutine', inner, ['subroutine ', inner, '(m)'])
        P.add('decl', 'integer, intent(inout) :: m')
        P.call(['call ', step, '(m)'], step)
        P.end(['end subroutine ', inner])
        if o('internal') == 'two':
            P.begin('function', ifun, ['function ', ifun, '(m) ', 'result(v)'])
            P.add('decl', 'integer, intent(in) :: m')
            P.add('decl', 'integer :: v')
            P.add('assign', 'v = m + 1')
            P.end(['end function ', ifun])
    P.end(end_parts('subroutine', drv, 'free'))

    # ---- free function
    P.add('blank', '')
    if tf == 'integer':
        s = P.begin('function', twice, ['integer function ', twice, f'({a})'])
        res = twice
    elif tf == 'pure_typed':
        s = P.begin('function', twice, ['pure integer function ', twice, f'({a})'])
        res = twice
    elif tf == 'typed_result':
        s = P.begin('function', twice, ['integer function ', twice, f'({a}) ', 'result(b)'])
        res = 'b'
    else:
        pfx = {'elemental': 'elemental ', 'pure_elemental': 'pure elemental ', 'pure': 'pure '}.get(pre, '')
        s = P.begin('function', twice, [pfx + 'function ', twice, f'({a}) ', 'result(b)'])
        res = 'b'
    P.add('implicit', 'implicit none')
    P.add('decl', f'integer, intent(in) :: {a}')
    if res == 'b' and tf != 'typed_result':
        P.add('decl', 'integer :: b')
    P.add('assign', f'{res} = 2 * {a}')
    P.end(end_parts('function', twice, 'free' if bare == 'free' or noname == 'free' else 'fun'))

    return _render(P, devs)


def _render(P, devs):
    o = devs.get
    case = o('case')
    indent_unit = {'none': 0, 'deep': 6}.get(o('indent'), 2)
    lines = []
    trails = {}
    prev = None
    for s in P.stmts:
        parts = list(s.parts)
        if not s.nocase and case in ('upper', 'title', 'kw_upper'):
            parts = [_case_code(x, case) for x in parts]
        if case == 'end_name_upper' and s.kind.endswith('_end') and len(parts) >= 4:
            parts[-1] = parts[-1].upper()
        ind = ' ' * (indent_unit * s.depth)
        if s.join and prev is not None:
            # appended to the last physical line of the previous *statement* (comment lines may lie in between);
            # trailing comments stay behind the last statement of the line
            sep = ';' if s.join == 'tight' else '; '
            at = prev.l1 - 1
            lines[at] = lines[at] + sep + ''.join(parts)
            s.l0 = s.l1 = prev.l1
            s.solo = False
            prev.solo = False
            if s.trail:
                trails[at] = s.trail
            prev = s
            continue
        if s.kind == 'blank':
            lines.append('')
            s.l0 = s.l1 = len(lines)
            continue
        first = ind
        if s.label:
            first = (s.label + ' ' + ind)[:max(len(ind), len(s.label) + 1)] if len(ind) > len(s.label) else s.label + ' '
        breaks = dict(s.cont)
        cur = first
        s.l0 = len(lines) + 1
        for i, part in enumerate(parts):
            if i in breaks and i > 0:
                style = breaks[i]
                lines.append(cur + ' &' if not cur.endswith(' ') else cur + '&')
                if style == 'comment':
                    lines.append(ind + '  ! continued below')
                cur = ind + ('    & ' if style == 'amp' else '    ')
            cur += part
        lines.append(cur)
        s.l1 = len(lines)
        if s.trail:
            trails[s.l1 - 1] = s.trail
        if s.kind not in ('comment',):
            prev = s
    lines = [l + ' ' + trails[i] if i in trails else l for i, l in enumerate(lines)]
    if o('trail_ws'):
        lines = [(l + '   ') if l and not l.rstrip().endswith('&') else (l + ' ' if l else l) for l in lines]
    text = '\n'.join(lines) + '\n'
    return Layout(devs, text, P.stmts, P.facts())


def cases(d):
    """Every deviation dict with at most d switches away from the base, fewest first."""
    return list(deviations(MENU, d))


def syntax_check(layouts, scratch, chunk=20):
    """gfortran -fsyntax-only on every layout (conformance of the generator).
    Returns list of (key, stderr) for rejected files.  Every gfortran invocation writes its module files into a
    directory of its own (-J), so that a compiler left behind by a timeout can never race with a later one."""
    from vf.gf import Build, GFORTRAN, FFLAGS
    bad = []
    with Build(base=scratch, prefix='lay_') as b:
        b.write('deps/deps.f90', DEPS)
        rc, _, err = b.run([GFORTRAN, *FFLAGS, '-fsyntax-only', '-J', 'deps', 'deps/deps.f90'], timeout=600)
        if rc != 0:
            return [('DEPS', err)]
        counter = [0]

        def compile_(names, cpp=False):
            counter[0] += 1
            d = f'm{counter[0]}'
            (b.dir / d).mkdir()
            for attempt in (1, 2):
                rc, _, err = b.run([GFORTRAN, *FFLAGS, '-std=f2008', '-fsyntax-only', '-Werror=line-truncation',
                                    '-I', 'deps', '-J', d, *(['-cpp'] if cpp else []), *names], timeout=300 * attempt)
                if rc != -9:
                    break
                counter[0] += 1
                d = f'm{counter[0]}'
                (b.dir / d).mkdir()
            return rc == 0, err

        for c0 in range(0, len(layouts), chunk):
            group = layouts[c0:c0 + chunk]
            names = []
            for i, lay in enumerate(group):
                n = f'f{c0 + i}.f90'
                b.write(n, lay.text)
                names.append(n)
            plain = [n for n, lay in zip(names, group) if not lay.cpp]
            withcpp = [n for n, lay in zip(names, group) if lay.cpp]
            ok = all(compile_(ns, cpp)[0] for ns, cpp in ((plain, False), (withcpp, True)) if ns)
            if ok:
                continue
            for n, lay in zip(names, group):
                ok1, err1 = compile_([n], lay.cpp)
                if not ok1:
                    bad.append((lay.key, err1[-800:]))
    return bad


# ------------------------------------------------------------------ run-away guard for calls into the REGEX frontend
class CpuBudget(BaseException):
    """The guarded call used more than its budget of process CPU time.  Derived from BaseException so that the
    `except Exception` clauses inside fparser / Loki cannot swallow it."""


@contextlib.contextmanager
def cpu_guard(seconds):
    """Raise CpuBudget inside the body once it has used `seconds` of *process CPU time* (ITIMER_VIRTUAL), and again
    every 0.25 s of CPU time after that until the exception has left the body (a one-shot signal can get lost in a
    `finally`/`except` of the code under test).  Loki's own regex timeout is wall-clock based and therefore not
    reproducible on a loaded machine; the checks disable it (config['regex-frontend-timeout'] = 0) and use this
    guard instead.  Main thread only."""
    def handler(signum, frame):
        raise CpuBudget(f'more than {seconds} s of CPU time')
    old = signal.signal(signal.SIGVTALRM, handler)
    signal.setitimer(signal.ITIMER_VIRTUAL, seconds, 0.25)
    try:
        yield
    finally:
        signal.setitimer(signal.ITIMER_VIRTUAL, 0)
        signal.signal(signal.SIGVTALRM, old)
