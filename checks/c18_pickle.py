"""C18  Pickling round-trip preserves program units.

ENUM over the shared unit zoo (vf/unitzoo.py): every entry x {plain, enriched with its definition
modules and sibling units} x every top-level pickling level (the Sourcefile, each Module, each
free-standing Subroutine/Function).  For u2 = loads(dumps(u)) the check demands, exactly as the
property states:

  text      fgen(u2) == fgen(u)
  equal     u2 == u and u == u2
  scopes    every typed symbol reachable from u2 is scoped inside u2's own scope chain (and never in
            a scope object of the original)
  types     every typed-symbol occurrence has the same type as in the original: dtype, kind, intent,
            shape, initial, flags; derived types render the same TypeDef, procedure types are linked
            to an equivalent procedure iff the original's were (enriched `ProcedureType.procedure`);
            a link that pointed inside the original unit must point inside the copy
  fixpoint  a second round trip of u2 changes nothing (text, ==, types)
  edits     (DESIGN) a fresh copy survives each single edit of the C17 menu: the original's text and
            types stay byte-identical, the edited copy generates what a freshly parsed unit generates
            after the same edit

Weaker readings taken: procedures contained in a module/routine are pickled as part of their host,
not in isolation (a member pickled alone loses its host by design: `_parent` is not pickled);
`dumps`/`loads` raising is a violation (the property promises the round trip for every unit).
Signatures name the failing clause and the masked place/exception, never the zoo entry; the
representative case carries a line-shrunk source so that replays are self-contained.
"""
import pickle

from vf import unitzoo, unitedit as ue

PROPERTY = 'C18'
LEVEL = 'exploration'
META = dict(
    engine='enum',
    technique='exhaustive pass over a 30-unit zoo x enrichment x pickling level; round-trip compared on text, ==, '
              'scope chains, type fingerprints, second round trip, single-edit independence',
    level_text='every zoo unit (modules with typedefs/imports/procedures, routines with members, files with both, '
               'interfaces, type-bound calls, casts, renamed imports), plain and enriched, at file/module/routine '
               'level: loads(dumps(u)) generates the same code, == original both ways, symbols scoped in the copy, '
               'types equal incl. derived/procedure links, second round trip is a fixpoint, copy independent under '
               'every single edit of the menu',
    level_note='zoo is hand-written (small-scope); text via fgen; type equality via an identity-free fingerprint of '
               'SymbolAttributes written in the harness',
)


def _setup():
    from vf import lokiperf
    lokiperf.silence()
    lokiperf.speedup()
    lokiperf.cache_fparser_ast()


def entry_of(case):
    return unitzoo.Entry(case.get('name', 'case'), case['source'], tuple(case.get('defs', ())), ())


def judge(case, edits=True):
    """All clause violations of one case dict(source, defs, enrich, path) as [(signature, detail)].
    Raises unitzoo/parse errors unchanged (caller decides: harness error or shrink rejection)."""
    _setup()
    entry = entry_of(case)
    enrich, path = bool(case['enrich']), tuple(case['path'])
    b = unitzoo.build(entry, enrich)
    u = b.unit(path)
    lvl = type(u).__name__
    out = []
    try:
        blob = pickle.dumps(u)      # the freshly parsed unit is pickled *before* anything else looks at it
    except Exception as e:  # pylint: disable=broad-except
        return [(f'dumps raises {type(e).__name__}: {ue.mask_message(e)}', f'pickle.dumps({lvl}) -> {type(e).__name__}: {e}')]
    o0 = ue.observe(u)
    try:
        u2 = pickle.loads(blob)
    except RecursionError as e:
        return [('loads raises RecursionError', f'pickle.loads(pickle.dumps({lvl})) -> RecursionError: {e}')]
    except Exception as e:  # pylint: disable=broad-except
        return [(f'loads raises {type(e).__name__}: {ue.mask_message(e)}',
                 f'pickle.loads(pickle.dumps({lvl})) -> {type(e).__name__}: {e}')]
    try:
        o2 = ue.observe(u2)
    except Exception as e:  # pylint: disable=broad-except
        return [(f'copy unusable: fgen/type access raises {type(e).__name__}: {ue.mask_message(e)}', str(e))]
    if o2.text != o0.text:
        out.append(('text differs', _textdiff(o0.text, o2.text)))
    for a, bb, tag in ((u2, u, 'copy == original'), (u, u2, 'original == copy')):
        why = ue.explain_neq(a, bb)
        if why is not None:
            out.append((f'not equal at {ue.strip_to_unit(why)}', f'{tag} is False; first difference: {why}'))
            break
    base = {f[1:] for f in o0.foreign}
    for f in o2.foreign:
        if f[1:] not in base:
            out.append((f'scope outside the copy\'s own chain: {f[4]}', f'{f}'))
    orig_scopes = {id(s) for s in ue.all_scopes(u)}
    alien = [str(s) for s, _, _ in ue.typed_symbol_occurrences(u2) if s.scope is not None and id(s.scope) in orig_scopes]
    if alien:
        out.append(('scope points into the original', f'{alien[:3]}'))
    d = ue.diff_types(o0.types, o2.types)
    if d:
        out.append((f'types differ: {d[0]}', d[1]))
    # links that pointed into the original must point into the copy
    own0 = {id(s) for s in ue.all_scopes(u)}
    own2 = {id(s) for s in ue.all_scopes(u2)}
    l0, l2 = ue.link_targets(u), ue.link_targets(u2)
    if len(l0) == len(l2):
        for (s0, k0, t0), (s2, k2, t2) in zip(l0, l2):
            if id(t0) in own0 and id(t2) not in own2:
                out.append((f'{k0} link of the copy leaves the copy', f'symbol {s2}: {k2} target is not part of the unpickled unit'))
                break
    # second round trip
    try:
        u3 = pickle.loads(pickle.dumps(u2))
        o3 = ue.observe(u3)
        if o3.text != o2.text:
            out.append(('second round trip: text differs', _textdiff(o2.text, o3.text)))
        why = ue.explain_neq(u3, u2) or ue.explain_neq(u2, u3)
        if why is not None:
            out.append((f'second round trip: not equal at {ue.strip_to_unit(why)}', why))
        d = ue.diff_types(o2.types, o3.types)
        if d:
            out.append((f'second round trip: types differ: {d[0]}', d[1]))
    except RecursionError as e:
        out.append(('second round trip raises RecursionError', str(e)))
    except Exception as e:  # pylint: disable=broad-except
        out.append((f'second round trip raises {type(e).__name__}: {ue.mask_message(e)}', str(e)))
    nedits = 0
    if edits:
        menu = ue.edit_menu(unitzoo.build(entry, enrich), path)
        for ed in menu:
            ref = unitzoo.build(entry, enrich).unit(path)
            try:
                ue.apply_edit(ref, ed)
                ref_text = ue.observe(ref).text
            except Exception:  # pylint: disable=broad-except
                continue    # edit not applicable to a fresh unit in this configuration
            nedits += 1
            c = pickle.loads(blob)
            try:
                ue.apply_edit(c, ed)
                ct = ue.observe(c).text
            except Exception as e:  # pylint: disable=broad-except
                out.append((f'edit {ed[0]} fails on the copy only: {type(e).__name__}', f'{ue.edit_name(ed)}: {e}'))
                continue
            if ct != ref_text:
                out.append((f'edited copy differs from edited fresh unit: {ed[0]}', f'{ue.edit_name(ed)}\n' + _textdiff(ref_text, ct)))
            oa = ue.observe(u)
            if oa.text != o0.text:
                out.append((f'original text changed by editing the copy: {ed[0]}', ue.edit_name(ed)))
            elif oa.types != o0.types:
                dd = ue.diff_types(o0.types, oa.types)
                out.append((f'original types changed by editing the copy: {ed[0]}: {dd[0]}', f'{ue.edit_name(ed)}: {dd[1]}'))
    seen, res = set(), []
    for sig, det in out:
        if sig not in seen:
            seen.add(sig)
            res.append((sig, det))
    judge.last_edits = nedits
    return res


judge.last_edits = 0


def _textdiff(a, b):
    la, lb = a.splitlines(), b.splitlines()
    for i, (x, y) in enumerate(zip(la, lb)):
        if x != y:
            return f'first differing line {i + 1}: {x!r} vs {y!r}'
    return f'line count {len(la)} vs {len(lb)}'


def cases(zoo):
    out = []
    for e in zoo:
        for enrich in ((False, True) if 'enrichable' in e.features else (False,)):
            b = unitzoo.build(e, False)
            for path in b.paths(nested=False):
                out.append(dict(name=e.name, source=e.source, defs=list(e.defs), enrich=enrich, path=list(path)))
    return out


def work(case):
    try:
        v = judge(case)
    except (Exception, SystemExit) as e:  # pylint: disable=broad-except
        return case, None, f'{type(e).__name__}: {e}', 0
    return case, v, None, judge.last_edits


def shrink(case, sig):
    """Smallest variant of `case` with the same signature: no enrichment, a deeper level, fewer lines."""
    def fails(c):
        try:
            if not unitzoo.is_valid_fortran(c['source'], c.get('defs', ())):
                return False    # keep every shrunk example standard-conforming (gfortran -fsyntax-only)
            return any(s == sig for s, _ in judge(c, edits='edit' in sig or 'original' in sig))
        except (Exception, SystemExit):  # pylint: disable=broad-except
            return False      # does not parse any more (fparser's reader even calls sys.exit on some inputs)
    cur = dict(case)
    if cur['enrich']:
        c2 = dict(cur, enrich=False)
        if fails(c2):
            cur = c2
    if not cur['path']:
        try:
            paths = unitzoo.build(entry_of(cur), False).paths(nested=False)
        except (Exception, SystemExit):  # pylint: disable=broad-except
            paths = []
        for p in paths[1:]:
            c2 = dict(cur, path=list(p))
            if fails(c2):
                cur = c2
                break
    src = ue.shrink_source(cur['source'], lambda t: fails(dict(cur, source=t)), budget=150)
    cur = dict(cur, source=src)
    if cur.get('defs') and fails(dict(cur, defs=[])):
        cur = dict(cur, defs=[])
    return cur


def valid_work(e):
    """gfortran accepts the zoo entry, and re-using a memoised fparser tree is invisible to the observations."""
    from vf import lokiperf
    ok = unitzoo.is_valid_fortran(e.source, e.defs)
    lokiperf.uncache_fparser_ast()
    base = ue.observe(unitzoo.build(e, False).file)
    lokiperf.cache_fparser_ast()
    same = all(ue.observe(unitzoo.build(e, False).file) == base for _ in range(3))
    return ok and same


def known_open_signatures():
    import json
    from vf import core
    f = core.FINDINGS_DIR / f'{PROPERTY}.json'
    if not f.exists():
        return set()
    return {e['signature'] for e in json.loads(f.read_text()) if e.get('status') == 'open'}


def shrink_work(item):
    return shrink(item[0], item[1])


def run(ctx):
    from vf.explore import seeded_order
    _setup()
    zoo = unitzoo.ZOO_QUICK if ctx.quick else unitzoo.ZOO
    valid = ctx.pmap(valid_work, list(zoo), chunksize=1)
    ctx.require(all(valid), f'zoo entries rejected by gfortran or parse-tree cache not transparent: {[e.name for e, ok in zip(zoo, valid) if not ok]}')
    cs = seeded_order(cases(zoo), ctx.seed)
    results = ctx.pmap(work, cs, chunksize=1, ordered=True)
    by_sig = {}
    clean = nontrivial = nedits = 0
    for case, v, err, ne in results:
        ctx.require(err is None, f'zoo case {case["name"]} enrich={case["enrich"]} path={case["path"]} could not be judged: {err}')
        nedits += ne
        if not v:
            clean += 1
        for sig, det in v:
            by_sig.setdefault(sig, []).append((case, det))
        nontrivial += 1
    reps = {}
    for sig in sorted(by_sig):
        by_sig[sig].sort(key=lambda x: (len(x[0]['source']), x[0]['name'], x[0]['enrich'], len(x[0]['path'])))
        reps[sig] = by_sig[sig][0]
    # new signatures get a line-shrunk, gfortran-valid minimal example; signatures already listed as open
    # known findings keep their smallest zoo case (the signature does not depend on the shrinking)
    known = known_open_signatures()
    todo = [s for s in sorted(reps) if s not in known]
    shrunk = {s: reps[s][0] for s in reps}
    shrunk.update(zip(todo, ctx.pmap(shrink_work, [(reps[s][0], s) for s in todo], chunksize=1)))
    for sig in sorted(by_sig):
        lst = by_sig[sig]
        det = reps[sig][1]
        small = shrunk[sig]
        v = dict(judge(small, edits='edit' in sig or 'original' in sig))
        names = sorted({f'{c["name"]}{"+enriched" if c["enrich"] else ""}' for c, _ in lst})
        ctx.violation(sig, small, f'{v.get(sig, det)}\nseen on {len(lst)} zoo cases: {", ".join(names)[:300]}')
    feats = sorted({f for e in zoo for f in e.features})
    # a floor on clean round trips guards against a zoo that only ever hits known findings; it must not turn
    # a genuinely broken pickling (every case violating with new signatures) into a harness error
    ctx.require(clean >= 5 or any(sig not in known for sig in by_sig), f'vacuous: only {clean} zoo cases round-trip cleanly')
    ctx.cov.update(
        evaluations=len(cs), distinct_nontrivial=nontrivial, exhaustive=True, clean_cases=clean,
        single_edit_checks=nedits, zoo_entries=len(zoo), features=feats,
        zoo_sources_accepted_by_gfortran=sum(map(bool, valid)),
        rule='every zoo entry x {plain, enriched (only entries with imports/calls that can be enriched)} x {file, each '
             'top-level module/routine}; every case is a distinct (source, enrichment, level) triple and is non-trivial '
             '(each unit has symbols, a symbol table and at least one statement); clauses: text, == both ways, scope '
             'chains, type fingerprints incl. links, second round trip, every single edit of the shared edit menu on a '
             'fresh copy',
        samples=[dict(name=c['name'], enrich=c['enrich'], path=c['path']) for c in cs[:3]] +
                [dict(source=cs[0]['source'])],
        bound=dict(zoo=[e.name for e in zoo], levels=['file', 'module', 'routine'], enrichment=[False, True]),
    )
    ctx.assumptions += [
        'contained procedures are pickled with their host, not in isolation',
        'type equality is judged on an identity-free rendering of SymbolAttributes (vf/unitedit.type_fp): links are '
        'compared through what they point at (TypeDef text, procedure name/arguments/spec text)',
    ]


def replay(case):
    v = judge(case)
    return '; '.join(f'[{s}] {d}' for s, d in v) if v else None
