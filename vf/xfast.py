"""Cheaper builds for group-T checks with many small source files per case (C33, C34).

`run_case` is `vf.xform.run_case` with one difference: every build (original and transformed) hands gfortran
ONE file that is the concatenation `extra + sources + driver` (same order as the separate files would have on
the command line) instead of one file per unit.  One compiler process instead of 4-6 per build; verdicts,
flags and output comparison are exactly those of vf.xform.  The only semantic difference is that gfortran
sees all program units of a case at once and can therefore also diagnose inconsistent calls to *external*
procedures defined in another file of the case - which is a genuine defect of the transformed code whenever
it happens (the original programs are checked the same way and must build, else HARNESS).

The swap of `xform.build_run` is local to the calling (worker) process and undone on return.

Build+run results (successes, gfortran diagnostics and Fortran run-time errors; never time-outs or tool failures)
are memoised by exact program text and flags (gfortran and the generated program are
deterministic; Loki - the system under test - is always re-executed).  By default the memo lives in the run's own
scratch directory and dies with it; `VERIF_GF_MEMO=<dir>` (development aid for a heavily loaded machine, never set by
MANIFEST commands) keeps it across runs, e.g. for the seed 0/1/2 repetitions that generate the same programs.
"""
import hashlib
import json
import os

from vf import gf, xform


def merged_build_run(sources, driver, extra=(), base=None, flags=xform.FLAGS, timeout=60):
    """one-file build; successful results are memoised below `base` (the run's scratch directory) keyed by the exact
    program text + flags, because all transformation variants of one switch combination share the original program"""
    parts = [t if t.endswith('\n') else t + '\n' for _, t in list(extra) + list(sources)] + [driver]
    text = ''.join(parts)
    memo = None
    memo_dir = os.environ.get('VERIF_GF_MEMO') or base     # VERIF_GF_MEMO: opt-in memo directory that outlives one run
    if memo_dir:
        os.makedirs(str(memo_dir), exist_ok=True)
        key = hashlib.sha1(('\0'.join(flags) + '\0' + text).encode()).hexdigest()
        memo = os.path.join(str(memo_dir), f'memo_{key}.json')
        try:
            with open(memo) as fh:
                return json.load(fh)
        except (OSError, ValueError):
            pass
    res = gf.compile_and_run([('all.f90', text)], flags=list(flags), base=base, timeout=timeout)
    err = res.get('err') or ''
    deterministic_failure = (res.get('stage') == 'compile' and 'Error' in err) or 'Fortran runtime error' in err
    if memo and (res.get('ok') or deterministic_failure):
        tmp = f'{memo}.{os.getpid()}.tmp'
        with open(tmp, 'w') as fh:
            json.dump(res, fh)
        os.replace(tmp, memo)
    return res


def run_case(case, apply, **kwargs):
    orig = xform.build_run
    xform.build_run = merged_build_run
    try:
        return xform.run_case(case, apply, **kwargs)
    finally:
        xform.build_run = orig


def judge_until(ctx, cases, worker, deadline_s, chunk=None):
    """judge `cases` (seeded order) in chunks until all are done or ctx.elapsed() exceeds deadline_s.
    -> (cases_done, results, complete).  The time cap only ever truncates the enumeration (reported by the caller as
    exhaustive=False with the number completed); it never selects cases: the order is the seeded enumeration order."""
    from vf.explore import seeded_order
    order = seeded_order(list(range(len(cases))), ctx.seed)
    chunk = chunk or max(16, ctx.nproc * 4)
    done, results = [], []
    for s in range(0, len(order), chunk):
        if ctx.elapsed() > deadline_s:
            return done, results, False
        part = [cases[i] for i in order[s:s + chunk]]
        results += ctx.pmap(worker, part, chunksize=1)
        done += part
    return done, results, True


def interleave(cases, key):
    """round-robin over the groups given by key(case) (deterministic): a capped run then covers every group evenly"""
    groups = {}
    for c in cases:
        groups.setdefault(key(c), []).append(c)
    out, i = [], 0
    lists = list(groups.values())
    while any(i < len(g) for g in lists):
        out += [g[i] for g in lists if i < len(g)]
        i += 1
    return out
