"""C32  Constant propagation, dead-code removal and unused variable / dummy removal preserve behaviour.

ENUM (deviation-bounded) + gfortran differential run.  Four families, each a kernel assembled from feature
blocks; one block per branch / shortcut / missing handler found by reading
ConstantPropagationTransformer, ConstantPropagationMapper, RemoveDeadCodeTransformer,
find_unused_dummy_args_and_vars / get_used_or_defined_symbols and RemoveCodeTransformation:

cp  do_constant_propagation(unroll_loops -/+), and constant propagation followed by do_remove_dead_code
    constant reassigned in one / both branches (same / different value), inline IF, ELSE only, ELSE IF chains,
    nested IF, constant first created in a branch; assigned in a counted loop with symbolic / literal / empty
    literal / descending bounds; self-increment in and outside loops (within_loop flag, nested loops);
    loop-carried use before redefinition; EXIT / CYCLE before the assignment; loop index read after the loop;
    constant as loop bound / subscript; DO WHILE (no handler -> generic traversal) with assignment / increment;
    SELECT CASE branch (no handler); WHERE; callee INTENT(OUT) / INTENT(INOUT) (no CallStatement handler), also
    inside a loop; declaration initialiser (SAVE semantics) read-only / later reassigned; PARAMETER scalar and
    array; initialised array read with constant subscripts, then written through a variable subscript; integer
    quotient of literals with negative operands; integer value propagated into a real variable; logical and real
    constants.
dc  do_remove_dead_code(use_simplify +/-), RemoveCodeTransformation(remove_dead_code), constprop + dead code
    condition literally true / false with and without ELSE, inline IF, decidable by simplification (comparison of
    literals, .or. .true., .and. .false., .not., integer quotient inside a comparison, x == x), undecidable;
    condition on a logical variable literally named `true` / `false` (string comparison `== 'True'`);
    ELSE IF chains with a decidable first / middle member with and without final ELSE; nested conditionals;
    SELECT CASE on a literal / variable with single values, lists, ranges, open ranges, default only,
    a selector variable named `false`; dead branches inside loops; condition decidable only after constant
    propagation.
uv  do_remove_unused_vars(remove_only_arrays +/-), RemoveCodeTransformation(remove_unused_vars)
    unused local scalar / array / automatic array / derived-type variable / PARAMETER; locals that are used, but
    only: as dimension of another local, as KIND, as character length, in another PARAMETER's initialiser, as DO
    variable, as CASE value, as subscript, as actual argument (callee with / without declared intents), in a
    contained procedure (host association), in ALLOCATE only, in an I/O statement only, as ASSOCIATE selector.
ua  RemoveCodeTransformation(remove_unused_args=True) through the Scheduler over top -> k1 -> k2
    unused dummy passed positionally / by keyword / all keywords, first / last / two unused, unused through two
    levels, used only as dimension of a (used / unused) dummy array, OPTIONAL unused dummy absent / passed by
    keyword, two calls, expression actual, function (InlineCall) with unused dummy, contained procedure with an
    unused dummy, dummy used only inside a contained procedure, array section actual, call inside a branch and a
    loop, callee shared by two callers, upper-case spelling, two calls of which the earlier passes the unused dummy
    by keyword and the later by position in front of a used OPTIONAL dummy.

Every combination of <= d blocks (d=1 quick, d=2 thorough) x the family's transformation variants is built twice
(original / transformed; gfortran -O0 -fcheck=bounds -finit-integer) with the same harness-owned driver.  In the
thorough tier the pairs are formed from the blocks that hold on their own for the variant at hand: a block that
violates alone gives every superset its signature, so it is reported at d=1 and not combined further (those pairs are
counted as `pairs_subsumed_by_a_violating_single`); the pair programs are compiled 16 kernels (8 call-tree modules)
per build, and a build that does not pass cleanly is re-run pair by pair so that every verdict and every replay
refers to a single-kernel program.  `make_cases(d)` still returns the full, static d-bounded stream (C40/C41).
The driver
calls the kernel on the complete grid x in {-1,0,1,2,4,7} x n in {0,2,3} x flag in {T,F} *in one process* (so SAVE
semantics are observable) and prints every output slot.  DO WHILE loops of the templates call a tick() routine
that stops the program after 5000 iterations, so a rewrite that makes a loop infinite fails fast.
"""
import itertools
import shutil
import tempfile
from pathlib import Path

from vf import xform, w2_xgroup
from vf.explore import deviations

PROPERTY = 'C32'
LEVEL = 'exploration'
META = dict(
    engine='enum',
    technique='deviation-bounded exhaustive template enumeration x all transformation variants; gfortran differential run '
              '(original vs transformed) over a complete input grid in one process',
    level_text='all combinations of <= d feature blocks of 4 templates (constant propagation, dead code, unused variables, '
               'unused dummies over a 3-level call tree) x {constprop(unroll -/+), constprop+deadcode, deadcode(simplify -/+), '
               'RemoveCodeTransformation variants, remove_unused_vars(only_arrays -/+), Scheduler-driven unused-argument '
               'removal}: transformed code compiles and prints exactly the original output on 36 inputs; exhaustive for d '
               '(d=2: pairs of blocks that hold alone; pairs containing a block that violates alone are subsumed by its finding)',
    level_note='gfortran 12 -O0 -fcheck=bounds -finit-integer=-9999 is the semantics; exact dyadic reals; the original program '
               'must build and run (else HARNESS-ERROR)',
)

FLAGS = xform.FLAGS + ('-finit-integer=-9999', '-finit-real=nan')

# ---------------------------------------------------------------------------------------------- cp / dc template
HEAD = '''module cmod
  implicit none
  integer :: ticks = 0
  type :: pt
    integer :: m
  end type pt
contains
  subroutine tick()
    ticks = ticks + 1
    if (ticks > 5000) stop 7
  end subroutine tick
  subroutine setv(v)
    integer, intent(out) :: v
    v = 9
  end subroutine setv
  subroutine incv(v)
    integer, intent(inout) :: v
    v = v + 1
  end subroutine incv
  subroutine noint(v)
    integer :: v
    v = v + 3
  end subroutine noint
'''
KERN_HEAD = '''  subroutine kern(x, n, flag, ia, io, ro)
    integer, intent(in) :: x, n
    logical, intent(in) :: flag
    integer, intent(inout) :: ia(4)
    integer, intent(inout) :: io(60)
    real, intent(inout) :: ro(8)
    integer :: c, d, e, i, j
    logical :: lt, true, false
    real :: z
'''
TAIL_KERN = '  end subroutine kern\n'
TAIL_MOD = 'end module cmod\n'

DRIVER = '''program drv
  use cmod
  implicit none
  integer, parameter :: xs(6) = (/ -1, 0, 1, 2, 4, 7 /), ns(3) = (/ 0, 2, 3 /)
  integer :: ia(4), io(60), ix, in, il, e
  real :: ro(8)
  logical :: flag
  do ix = 1, 6
    do in = 1, 3
      do il = 1, 2
        flag = il == 1
        do e = 1, 4
          ia(e) = e + mod(ix, 2)
        end do
        io = 0
        ro = 0.0
        call kern(xs(ix), ns(in), flag, ia, io, ro)
        write(*,'(A,I0,1X,I0,1X,L1)') 'IN ', xs(ix), ns(in), flag
        write(*,'(A,4(1X,I0))') 'IA', ia
        write(*,'(A,60(1X,I0))') 'IO', io
        write(*,'(A,8(1X,ES14.7))') 'RO', ro
      end do
    end do
  end do
end program drv
'''


def B(body, decl='', members=''):
    return dict(body=body.strip('\n'), decl=decl.strip('\n'), members=members.strip('\n'))


CP_BLOCKS = {
    'base': B('c = 5\nd = c + 2\n@ = d*x + c'),
    'branch_one': B('c = 5\nif (flag) then\n  c = 6\nend if\n@ = c'),
    'branch_inline': B('c = 5\nif (flag) c = 6\n@ = c'),
    'branch_both_same': B('c = 5\nif (flag) then\n  c = 6\nelse\n  c = 6\nend if\n@ = c'),
    'branch_both_diff': B('c = 5\nif (flag) then\n  c = 6\nelse\n  c = 7\nend if\n@ = c'),
    'branch_else_only': B('c = 5\nd = 0\nif (flag) then\n  d = 1\nelse\n  c = 6\nend if\n@ = c + d'),
    'branch_new_const': B('e = x\nif (flag) then\n  e = 3\nend if\n@ = e'),
    'elseif_chain': B('c = 5\nif (x == 1) then\n  c = 6\nelse if (x == 2) then\n  c = 7\nelse\n  c = 8\nend if\n@ = c'),
    'elseif_partial': B('c = 5\nif (x == 1) then\n  c = 6\nelse if (x == 2) then\n  c = 7\nend if\n@ = c'),
    'nested_if': B('c = 5\nif (flag) then\n  if (x > 1) then\n    c = 6\n  end if\nend if\n@ = c'),
    'loop_sym_assign': B('c = 5\ndo i = 1, n\n  c = 7\nend do\n@ = c'),
    'loop_lit_assign': B('c = 5\ndo i = 1, 3\n  c = 7\nend do\n@ = c'),
    'loop_lit_empty': B('c = 5\ndo i = 1, 0\n  c = 7\nend do\n@ = c'),
    'loop_lit_desc': B('c = 5\ndo i = 3, 1, -1\n  c = 7 + 1\nend do\n@ = c'),
    'loop_self_inc_lit': B('c = 5\ndo i = 1, 3\n  c = c + 1\nend do\n@ = c'),
    'loop_self_inc_sym': B('c = 5\ndo i = 1, n\n  c = c + 1\nend do\n@ = c'),
    'loop_carried': B('c = 5\nd = 0\ndo i = 1, 3\n  d = d + c\n  c = 7\nend do\n@ = d'),
    'loop_carried_copy': B('c = 5\ne = 0\ndo i = 1, 3\n  e = c\n  c = 7\nend do\n@ = e'),
    'loop_exit_before': B('c = 5\ndo i = 1, 3\n  if (i == 1) exit\n  c = 7\nend do\n@ = c'),
    'loop_cond_inside': B('c = 5\ndo i = 1, 3\n  if (i == x) then\n    c = 6\n  end if\nend do\n@ = c'),
    'loop_index_after': B('d = 0\ndo i = 1, 3\n  d = d + i\nend do\n@ = i*100 + d'),
    'loop_nested_self_inc': B('c = 5\ndo i = 1, 2\n  do j = 1, 2\n    c = c + 1\n  end do\nend do\n@ = c'),
    'loop_bound_const': B('c = 3\nd = 0\ndo i = 1, c\n  d = d*2 + i\nend do\n@ = d'),
    'self_inc': B('c = 5\nc = c + 1\nc = c*2\n@ = c'),
    'while_assign': B('c = 5\nj = 0\ndo while (j < n)\n  call tick()\n  c = 7\n  j = j + 1\nend do\n@ = c*10 + j'),
    'while_self_inc': B('c = 5\nj = n\ndo while (j > 0)\n  call tick()\n  c = c + 1\n  j = j - 1\nend do\n@ = c'),
    'select_branch': B('c = 5\nd = 0\nselect case (x)\ncase (1)\n  c = 6\ncase default\n  d = 1\nend select\n@ = c*2 + d'),
    'select_all': B('c = 5\nselect case (x)\ncase (1)\n  c = 6\ncase default\n  c = 6\nend select\n@ = c'),
    'where_array': B('wv = 1\nwhere (ia > 2) wv = 0\n@ = wv(1)*8 + wv(2)*4 + wv(3)*2 + wv(4)', 'integer :: wv(4)'),
    'call_out': B('c = 5\ncall setv(c)\n@ = c'),
    'call_inout': B('c = 5\ncall incv(c)\n@ = c'),
    'call_noint': B('c = 5\ncall noint(c)\n@ = c'),
    'call_in_loop': B('c = 5\ndo i = 1, 2\n  call incv(c)\nend do\n@ = c'),
    'init_save': B('@ = sv\nsv = sv + 1', 'integer :: sv = 3'),
    'init_readonly': B('@ = sr + x', 'integer :: sr = 4'),
    'param_const': B('@ = pc*x + pc / 3', 'integer, parameter :: pc = 4'),
    'init_array_const': B('@ = wa(2) + wa(4)*x', 'integer :: wa(4) = (/ 1, 2, 3, 4 /)'),
    'init_array_varwrite': B('j = 1 + mod(abs(x), 4)\nwb(j) = 9\n@ = wb(2)*10 + wb(3)', 'integer :: wb(4) = (/ 1, 2, 3, 4 /)'),
    'param_array': B('j = 1 + mod(abs(x), 3)\n@ = wp(2)*10 + wp(j)', 'integer, parameter :: wp(3) = (/ 5, 6, 7 /)'),
    'local_array_sub': B('wc = 0\nwc(2) = 5\nj = 1 + mod(abs(x), 4)\nwc(j) = 9\n@ = wc(2)', 'integer :: wc(4)'),
    'quot_neg': B('c = -7\nd = 2\n@ = c / d + (-7) / 2 + 7 / (-2) + (-7) / (-2)*100'),
    'quot_pos': B('c = 7\nd = 2\n@ = c / d + (9 / 4)*10'),
    'quot_chain': B('c = 7\n@ = c / 2*2 + c*2 / 4*10'),
    'mod_power': B('c = 3\n@ = c**2 + mod(c, 2) - c'),
    'real_const': B('z = 1.5\nro(1) = z*2.0 + 0.25\nz = z / 2.0\nro(2) = z'),
    'real_from_int': B('c = 3\nz = c\nro(3) = z / 2'),
    'logical_const': B('lt = .true.\nif (lt) then\n  @ = 1\nelse\n  @ = 2\nend if\nlt = x > 1\nif (lt) @ = @ + 10'),
    'reassign_input': B('c = 5\nc = x\n@ = c'),
    'subscript_const': B('c = 2\nia(c) = ia(c) + 7\n@ = ia(2)'),
}

DC_BLOCKS = {
    'base': B('if (x > 2) then\n  @ = 1\nelse\n  @ = 2\nend if'),
    'lit_true': B('if (.true.) then\n  @ = 1\nelse\n  @ = 2\nend if'),
    'lit_false_else': B('if (.false.) then\n  @ = 1\nelse\n  @ = 2\nend if'),
    'lit_false_noelse': B('@ = 3\nif (.false.) then\n  @ = 1\nend if'),
    'inline_false': B('@ = 3\nif (.false.) @ = 1'),
    'inline_true': B('@ = 3\nif (.true.) @ = 1'),
    'cmp_lit': B('if (1 > 2) then\n  @ = 1\nelse\n  @ = 2\nend if\nif (2 == 2) @ = @ + 10'),
    'or_true': B('if (.true. .or. flag) then\n  @ = 1\nelse\n  @ = 2\nend if'),
    'and_false': B('if (flag .and. .false.) then\n  @ = 1\nelse\n  @ = 2\nend if'),
    'not_lit': B('if (.not. .false.) then\n  @ = 1\nelse\n  @ = 2\nend if'),
    'int_div_cmp': B('if (7 / 2 == 3) then\n  @ = 1\nelse\n  @ = 2\nend if'),
    'arith_cmp': B('if (2*3 > 5 .and. 1.5 > 0.5) then\n  @ = 1\nelse\n  @ = 2\nend if'),
    'same_var_cmp': B('if (x == x) then\n  @ = 1\nelse\n  @ = 2\nend if\nif (x > x) @ = @ + 10'),
    'paren_true': B('if ((.true.)) then\n  @ = 1\nelse\n  @ = 2\nend if'),
    'var_named_true': B('true = x > 1\nif (true) then\n  @ = 1\nelse\n  @ = 2\nend if'),
    'var_named_false': B('false = x > 1\nif (false) then\n  @ = 1\nelse\n  @ = 2\nend if'),
    'elseif_mid_true': B('if (x > 5) then\n  @ = 1\nelse if (.true.) then\n  @ = 2\nelse\n  @ = 3\nend if'),
    'elseif_first_false': B('if (.false.) then\n  @ = 1\nelse if (x > 2) then\n  @ = 2\nelse\n  @ = 3\nend if'),
    'elseif_first_true': B('if (.true.) then\n  @ = 1\nelse if (x > 2) then\n  @ = 2\nelse\n  @ = 3\nend if'),
    'elseif_mid_false_noelse': B('@ = 4\nif (x > 5) then\n  @ = 1\nelse if (.false.) then\n  @ = 2\nend if'),
    'elseif_mid_false_else': B('if (x > 5) then\n  @ = 1\nelse if (.false.) then\n  @ = 2\nelse\n  @ = 3\nend if'),
    'elseif_undecidable': B('if (x > 5) then\n  @ = 1\nelse if (x > 1) then\n  @ = 2\nelse\n  @ = 3\nend if'),
    'elseif_three': B('if (x > 5) then\n  @ = 1\nelse if (.false.) then\n  @ = 2\nelse if (x > 1) then\n  @ = 3\nelse\n  @ = 4\nend if'),
    'nested_dead_inner': B('if (flag) then\n  if (.false.) then\n    @ = 1\n  else\n    @ = 2\n  end if\nelse\n  @ = 3\nend if'),
    'nested_dead_outer': B('if (.true.) then\n  if (flag) then\n    @ = 1\n  else\n    @ = 2\n  end if\nelse\n  @ = 3\nend if'),
    'select_lit': B('select case (2)\ncase (1)\n  @ = 1\ncase (2)\n  @ = 2\ncase default\n  @ = 3\nend select'),
    'select_lit_default': B('select case (9)\ncase (1)\n  @ = 1\ncase (2)\n  @ = 2\ncase default\n  @ = 3\nend select'),
    'select_lit_range': B('select case (2)\ncase (1:3)\n  @ = 1\ncase (5)\n  @ = 2\ncase default\n  @ = 3\nend select'),
    'select_var': B('select case (x)\ncase (1)\n  @ = 1\ncase (2, 4)\n  @ = 2\ncase (5:)\n  @ = 3\ncase default\n  @ = 4\nend select'),
    'select_var_open_low': B('select case (x)\ncase (:0)\n  @ = 1\ncase (1:3)\n  @ = 2\ncase default\n  @ = 3\nend select'),
    'select_logical_lit': B('select case (.false.)\ncase (.true.)\n  @ = 1\ncase (.false.)\n  @ = 2\nend select'),
    'select_named_false': B('false = x > 1\nselect case (false)\ncase (.true.)\n  @ = 1\ncase (.false.)\n  @ = 2\nend select'),
    'select_default_only': B('select case (x)\ncase default\n  @ = 1\nend select'),
    'select_nested_dead': B('select case (x)\ncase (1)\n  if (.false.) then\n    @ = 1\n  else\n    @ = 2\n  end if\ncase default\n  @ = 3\nend select'),
    'loop_dead_inside': B('do i = 1, n\n  if (.false.) then\n    @ = @ + 1\n  else\n    @ = @ + 2\n  end if\nend do'),
    'const_after_cp': B('c = 5\nif (c > 3) then\n  @ = 1\nelse\n  @ = 2\nend if\nif (c == x) @ = @ + 10'),
}

UV_BLOCKS = {
    'base': B('used1 = x + 1\n@ = used1', 'integer :: used1'),
    'unused_scalar': B('@ = x', 'integer :: un1\nreal :: un2'),
    'unused_array': B('@ = x', 'real :: ua1(5)\ninteger :: ua3(2, 3)'),
    'unused_auto_array': B('@ = x', 'real :: ua2(n + 1)'),
    'unused_dt': B('@ = x', 'type(pt) :: ud1\ntype(pt) :: ud2(3)'),
    'unused_param': B('@ = x', 'integer, parameter :: up1 = 3'),
    'dim_param_used_arr': B('ub = x\n@ = ub(2)', 'integer, parameter :: nl = 3\ninteger :: ub(nl)'),
    'dim_param_unused_arr': B('@ = x', 'integer, parameter :: nl2 = 3\nreal :: uc(nl2)'),
    'kind_param_only': B('zk = 0.5\n@ = int(zk*4)', 'integer, parameter :: wp = 8\nreal(kind=wp) :: zk'),
    'char_len_param': B("cs = 'ab'\n@ = len(cs)", 'integer, parameter :: cl = 4\ncharacter(len=cl) :: cs'),
    'init_expr_only': B('@ = b2 + x', 'integer, parameter :: b1 = 2\ninteger, parameter :: b2 = b1*3'),
    'loop_var_only': B('do lv = 1, 3\n  @ = @ + 2\nend do', 'integer :: lv'),
    'case_value_param': B('select case (x)\ncase (ps)\n  @ = 1\ncase default\n  @ = 2\nend select', 'integer, parameter :: ps = 2'),
    'subscript_param': B('@ = ia(ks)', 'integer, parameter :: ks = 2'),
    'cond_only_init': B('if (x > iv0) then\n  @ = 1\nelse\n  @ = 2\nend if', 'integer :: iv0 = 2'),
    'call_arg_intent': B('call setv(ca)\n@ = x', 'integer :: ca'),
    'call_arg_nointent': B('cb = 1\ncall noint(cb)\n@ = cb', 'integer :: cb'),
    'call_arg_nointent_only': B('call noset(cc)\n@ = x', 'integer :: cc'),
    'member_only': B('call helper()', 'integer :: hv', 'subroutine helper()\n  hv = x + 1\n  @ = hv\nend subroutine helper'),
    'alloc_only': B('allocate(al(3))\ndeallocate(al)\n@ = x', 'real, allocatable :: al(:)'),
    'io_stmt_only': B("pv = x + 1\nwrite(cbuf, '(I8)') pv\nread(cbuf, '(I8)') @", 'integer :: pv\ncharacter(len=8) :: cbuf'),
    'assoc_selector': B('associate (q => av)\n  @ = q + x\nend associate', 'integer :: av = 3'),
    'dt_component_only': B('dv%m = x\n@ = dv%m + 1', 'type(pt) :: dv'),
    'array_section_only': B('as1(2:3) = x\n@ = as1(3)', 'integer :: as1(4)'),
}
UV_EXTRA_CALLEE = '''  subroutine noset(v)
    integer :: v
    v = 4
  end subroutine noset
'''


def kernel_text(blocks, names, slots, kname='kern'):
    decl, body, members = [], [], []
    for nm in names:
        b = blocks[nm]
        slot = f'io({slots[nm]})'
        if b['decl']:
            decl += b['decl'].split('\n')
        body += b['body'].replace('@', slot).split('\n')
        if b['members']:
            members += b['members'].replace('@', slot).split('\n')
    text = KERN_HEAD.replace('subroutine kern(', f'subroutine {kname}(')
    text += ''.join(f'    {ln}\n' for ln in decl) + ''.join(f'    {ln}\n' for ln in body)
    if members:
        text += '  contains\n' + ''.join(f'    {ln}\n' for ln in members)
    return text + TAIL_KERN.replace('kern', kname)


def module_text(blocks, kernels):
    return HEAD + (UV_EXTRA_CALLEE if blocks is UV_BLOCKS else '') + ''.join(kernels) + TAIL_MOD


def assemble(blocks, names, slots):
    return module_text(blocks, [kernel_text(blocks, names, slots)])


def batch_driver(knames):
    calls = ''.join(f"""        io = 0
        ro = 0.0
        do e = 1, 4
          ia(e) = e + mod(ix, 2)
        end do
        call {k}(xs(ix), ns(in), flag, ia, io, ro)
        write(*,'(A,I0,1X,I0,1X,L1)') '{k} IN ', xs(ix), ns(in), flag
        write(*,'(A,4(1X,I0))') 'IA', ia
        write(*,'(A,60(1X,I0))') 'IO', io
        write(*,'(A,8(1X,ES14.7))') 'RO', ro
""" for k in knames)
    return DRIVER[:DRIVER.index('        do e = 1, 4\n')] + calls + '      end do\n    end do\n  end do\nend program drv\n'


# ---------------------------------------------------------------------------------------------- ua template
UA_MENU = {
    'pass': ['keyword', 'keyword_all'],
    'position': ['first', 'last'],
    'two_unused': [True],
    'two_levels': [True],
    'dim_only': ['used_array', 'unused_array'],
    'optional': ['absent', 'keyword'],
    'two_calls': [True],
    'expr_actual': [True],
    'function': [True],
    'member': ['unused_dummy', 'host_use_only'],
    'array_actual': [True],
    'nested_call_site': [True],
    'shared_callee': [True],
    'upper_case': [True],
    'mixed_calls': [True],
}
UA_DRIVER = '''program drv
  use umod
  implicit none
  integer :: x, y, r, g
  real :: a(5)
  do g = 1, 4
    x = g - 2
    y = 3*g
    r = g
    a = (/ 0.5, 1.5, -1.0, 2.0, 0.25 /) * real(g)
    call top(x, y, r, a)
    write(*,'(A,I0,1X,I0,1X,I0)') 'R ', x, y, r
    write(*,'(A,5(1X,ES14.7))') 'A', a
  end do
end program drv
'''


def ua_build(dev):
    U = 'U' if dev.get('upper_case') else 'u'
    if dev.get('mixed_calls'):
        return ua_mixed_calls(dev, U)
    pos = dev.get('position', 'middle')
    two = dev.get('two_unused')
    dim = dev.get('dim_only')
    opt = dev.get('optional')
    arr = dev.get('array_actual')
    # ---- k1's dummy list
    dummies = {'first': [U, 'x', 'r'], 'middle': ['x', U, 'r'], 'last': ['x', 'r', U]}[pos]
    decls = ['integer, intent(in) :: x', f'integer, intent(in) :: {U}', 'integer, intent(inout) :: r']
    actual = {'x': 'x', U: 'y*2 + 1' if dev.get('expr_actual') else 'y', 'r': 'r'}
    if two:
        dummies.append('v')
        decls.append('integer, intent(in) :: v')
        actual['v'] = 'x'
    if dim:
        dummies += ['na', 'b']
        decls += ['integer, intent(in) :: na', 'real, intent(inout) :: b(na)']
        actual.update(na='5', b='a')
    if arr:
        dummies += ['s']
        decls += ['real, intent(in) :: s(:)']
        actual['s'] = 'a(2:4)'
    if opt:
        dummies.append('o')
        decls.append('integer, intent(in), optional :: o')
    mode = dev.get('pass', 'positional')

    def call_k1(extra_kw=''):
        names = [d for d in dummies if d != 'o']
        if mode == 'keyword_all':
            args = [f'{d.lower()}={actual[d]}' for d in names]
        elif mode == 'keyword':
            # positional up to (not including) the unused dummy, keywords from there on
            k = names.index(U)
            args = [actual[d] for d in names[:k]] + [f'{d.lower()}={actual[d]}' for d in names[k:]]
        else:
            args = [actual[d] for d in names]
        if opt == 'keyword':
            args.append('o=7')
        return f'call k1({", ".join(args)})'

    k1_body = ['r = r*3 + x']
    if dim == 'used_array':
        k1_body.append('b(2) = b(2) + real(x)')
    if dev.get('two_levels'):
        k1_body.append(f'call k2(x, {U}, r)')
    else:
        k1_body.append('call k2(x, 4, r)')
    if dev.get('function'):
        k1_body.append('r = r + f1(x, 5, r)')
    member = dev.get('member')
    members = []
    if member == 'unused_dummy':
        k1_body.append('call inner(x, 6)')
        members = ['subroutine inner(p, w)', '  integer, intent(in) :: p, w', '  r = r + p', 'end subroutine inner']
    elif member == 'host_use_only':
        k1_body.append('call inner()')
        members = ['subroutine inner()', f'  r = r + {U}', 'end subroutine inner']
    top_body = []
    site = call_k1()
    if dev.get('nested_call_site'):
        top_body += ['do i = 1, 2', '  if (x + i > 0) then', '    ' + site, '  end if', 'end do']
    else:
        top_body.append(site)
    if dev.get('two_calls'):
        actual[U] = '11'
        actual['x'] = 'x + 1'
        top_body.append(call_k1())
    if dev.get('shared_callee'):
        top_body.append('call k2(y, x, r)')
    L = ['module umod', '  implicit none', 'contains',
         '  subroutine top(x, y, r, a)', '    integer, intent(in) :: x, y', '    integer, intent(inout) :: r',
         '    real, intent(inout) :: a(5)', '    integer :: i']
    L += ['    ' + ln for ln in top_body] + ['  end subroutine top']
    L += [f'  subroutine k1({", ".join(dummies)})'] + ['    ' + ln for ln in decls] + ['    ' + ln for ln in k1_body]
    if members:
        L += ['  contains'] + ['    ' + ln for ln in members]
    L += ['  end subroutine k1',
          '  subroutine k2(x, u2, r)', '    integer, intent(in) :: x, u2', '    integer, intent(inout) :: r',
          '    r = r*2 + x', '  end subroutine k2',
          '  function f1(p, w, q) result(res)', '    integer, intent(in) :: p, w, q', '    integer :: res',
          '    res = p + mod(q, 5)', '  end function f1',
          'end module umod']
    return '\n'.join(L) + '\n'


def ua_mixed_calls(dev, U):
    """two calls to the same callee, the earlier passing the unused dummy by keyword, the later by position, behind
    it a trailing OPTIONAL dummy that the callee does use: the set of positional arguments to drop differs per call"""
    k1_body = ['r = r*3 + x', 'if (present(o)) r = r + 100*o']
    k1_body.append(f'call k2(x, {U}, r)' if dev.get('two_levels') else 'call k2(x, 4, r)')
    L = ['module umod', '  implicit none', 'contains',
         '  subroutine top(x, y, r, a)', '    integer, intent(in) :: x, y', '    integer, intent(inout) :: r',
         '    real, intent(inout) :: a(5)', '    integer :: i',
         f'    call k1(x, r, o=3, {U.lower()}=y)', '    call k1(x + 1, r, 11)',
         '    call k2(y, x, r)' if dev.get('shared_callee') else '    r = r + 1',
         '  end subroutine top',
         f'  subroutine k1(x, r, {U}, o)', '    integer, intent(in) :: x', '    integer, intent(inout) :: r',
         f'    integer, intent(in) :: {U}', '    integer, intent(in), optional :: o']
    L += ['    ' + ln for ln in k1_body]
    L += ['  end subroutine k1',
          '  subroutine k2(x, u2, r)', '    integer, intent(in) :: x, u2', '    integer, intent(inout) :: r',
          '    r = r*2 + x', '  end subroutine k2',
          'end module umod']
    return '\n'.join(L) + '\n'


# ---------------------------------------------------------------------------------------------- case stream
CP_XF = [('constprop', dict(unroll_loops=False)), ('constprop', dict(unroll_loops=True)),
         ('constprop+deadcode', dict(unroll_loops=False, use_simplify=True))]
DC_XF = [('deadcode', dict(use_simplify=True)), ('deadcode', dict(use_simplify=False)),
         ('trafo', dict(remove_dead_code=True, use_simplify=True, remove_marked_regions=False)),
         ('constprop+deadcode', dict(unroll_loops=False, use_simplify=True))]
UV_XF = [('unusedvars', dict(remove_only_arrays=True)), ('unusedvars', dict(remove_only_arrays=False)),
         ('trafo', dict(remove_unused_vars=True, remove_only_arrays=False, remove_marked_regions=False))]
UA_XF = [('sched', dict(remove_unused_args=True, remove_marked_regions=False)),
         ('sched', dict(remove_unused_args=True, remove_unused_vars=True, remove_only_arrays=False,
                        remove_marked_regions=False))]
BLOCK_FAMILIES = {'cp': (CP_BLOCKS, CP_XF), 'dc': (DC_BLOCKS, DC_XF), 'uv': (UV_BLOCKS, UV_XF)}


def opt_id(opts):
    return ','.join(f'{k}={v}' for k, v in sorted(opts.items()))


def case_id(fam, label, xf, opts):
    return f'{fam}:{label}|{xf}({opt_id(opts)})'


def make_cases(d):
    cases = []
    for fam, (blocks, xfs) in BLOCK_FAMILIES.items():
        names = [k for k in blocks if k != 'base']
        slots = {nm: i + 1 for i, nm in enumerate(blocks)}
        for dev in deviations({k: [True] for k in names}, d):
            chosen = ['base'] + [k for k in names if k in dev]
            text = assemble(blocks, chosen, slots)
            for n, (xf, opts) in enumerate(xfs):
                cases.append(dict(id=case_id(fam, '+'.join(chosen), xf, opts), sources=[['cmod.f90', text]],
                                  driver=DRIVER, xform=xf, opts=opts, family=fam, variant=n, switches=sorted(dev)))
    for dev in deviations(UA_MENU, d):
        text = ua_build(dev)
        label = '+'.join(f'{k}={v}' for k, v in dev.items()) or 'base'
        for n, (xf, opts) in enumerate(UA_XF):
            cases.append(dict(id=case_id('ua', label, xf, opts), sources=[['umod.f90', text]], driver=UA_DRIVER,
                              xform=xf, opts=opts, family='ua', variant=n,
                              switches=[f'{k}={v}' for k, v in dev.items()]))
    return cases


def apply(case, files):
    """in place on `files` (for xform 'sched' the dict entries are replaced by the Scheduler's Sourcefile objects)"""
    try:
        return _apply(case, files)
    except w2_xgroup.HarnessProblem:
        raise
    except Exception as ex:  # pylint: disable=broad-except
        crash = internal_crash(ex)
        if crash:
            raise RuntimeError(crash) from ex
        raise


CRASH_TYPES = (TypeError, AttributeError, KeyError, IndexError, NameError, ZeroDivisionError, AssertionError,
               UnboundLocalError, RecursionError)


def internal_crash(ex):
    """xform.is_refusal matches 'unsupported' / 'cannot' anywhere in the message, which also hits CPython's own
    messages.  A Python programming error (or a pydantic ValidationError) at the root of the exception chain is a
    crash, never a refusal: re-word the message so that it is classified as loki-exception."""
    seen = []
    while ex is not None and not any(ex is s for s in seen):
        seen.append(ex)
        ex = ex.__cause__ or ex.__context__
    root = seen[-1]
    if isinstance(root, CRASH_TYPES) or type(root).__name__ == 'ValidationError':
        msg = str(root).replace('unsupported', 'unsupp.').replace('cannot ', 'can not ').replace('not supported', 'not supp.')
        msg = msg.replace('not possible', 'not poss.').replace('not implemented', 'not impl.')
        return f'internal {type(root).__name__}: {" ".join(msg.split())[:200]}'
    return None


def _apply(case, files):
    from loki.transformations.constant_propagation import do_constant_propagation
    from loki.transformations.remove_code import (
        do_remove_dead_code, do_remove_unused_vars, RemoveCodeTransformation)
    xf, o = case['xform'], dict(case['opts'])
    if xf == 'sched':
        return apply_sched(case, files, o)
    for sf in files.values():
        for r in sf.all_subroutines:
            if not r.name.lower().startswith('kern'):
                continue
            if xf == 'constprop':
                do_constant_propagation(r, unroll_loops=o['unroll_loops'])
            elif xf == 'constprop+deadcode':
                do_constant_propagation(r, unroll_loops=o['unroll_loops'])
                do_remove_dead_code(r, use_simplify=o['use_simplify'])
            elif xf == 'deadcode':
                do_remove_dead_code(r, use_simplify=o['use_simplify'])
            elif xf == 'unusedvars':
                do_remove_unused_vars(r, remove_only_arrays=o['remove_only_arrays'])
            elif xf == 'trafo':
                RemoveCodeTransformation(**o).apply(r, role='kernel')
            else:
                raise ValueError(xf)
    return None


def apply_sched(case, files, opts):
    from loki import Scheduler, SchedulerConfig, Frontend
    from loki.transformations.remove_code import RemoveCodeTransformation
    base = worker.base if worker.base and Path(worker.base).is_dir() else ('/dev/shm' if Path('/dev/shm').is_dir() else None)
    try:
        d = Path(tempfile.mkdtemp(prefix='c32s_', dir=base))
    except OSError as ex:
        raise w2_xgroup.HarnessProblem(f'mkdtemp: {ex}') from ex
    try:
        try:
            for fname, text in case['sources']:
                (d / fname).write_text(text)
        except OSError as ex:
            raise w2_xgroup.HarnessProblem(f'writing scheduler sources: {ex}') from ex
        config = SchedulerConfig.from_dict({
            'default': {'role': 'kernel', 'expand': True, 'strict': False, 'enable_imports': True},
            'routines': {'top': {'role': 'driver'}}})
        sched = Scheduler(paths=[d], config=config, frontend=Frontend.FP, xmods=[d])
        sched.process(transformation=RemoveCodeTransformation(**opts))
        done = set()
        for item in sched.items:
            src = item.source
            name = Path(src.path).name
            if name in files and name not in done:
                files[name] = src
                done.add(name)
        if set(done) != set(files):
            raise w2_xgroup.HarnessProblem(f'scheduler did not pick up {sorted(set(files) - done)}')
    finally:
        shutil.rmtree(d, ignore_errors=True)


def worker(case):
    r = xform.run_case(case, apply, base=worker.base, flags=FLAGS)
    r['id'] = case['id']
    return r


worker.base = None


def group_worker(cases):
    """cases with identical sources and driver (transformation variants): the original is built once"""
    return w2_xgroup.run_group(cases, apply, base=worker.base, flags=FLAGS)


def sigfn(results_by_id):
    def sig(case, r):
        fam = case['family']
        xfs = UA_XF if fam == 'ua' else BLOCK_FAMILIES[fam][1]
        xf, opts = xfs[case['variant']]
        for sw in case['switches']:
            label = sw if fam == 'ua' else f'base+{sw}'
            single = results_by_id.get(case_id(fam, label, xf, opts))
            if single and single['verdict'] == r['verdict']:
                return f'{r["verdict"]} block={sw} xform={fam}'
        return f'{r["verdict"]} blocks={"+".join(case["switches"]) or "base"} xform={fam}'
    return sig


BATCH = 16
GOOD = ('ok', 'unchanged-ok')


def block_case(fam, chosen, n):
    blocks, xfs = BLOCK_FAMILIES[fam]
    slots = {nm: i + 1 for i, nm in enumerate(blocks)}
    xf, opts = xfs[n]
    return dict(id=case_id(fam, '+'.join(chosen), xf, opts), sources=[['cmod.f90', assemble(blocks, chosen, slots)]],
                driver=DRIVER, xform=xf, opts=opts, family=fam, variant=n, switches=sorted(c for c in chosen if c != 'base'))


def pair_batches(fam, n, healthy):
    """all pairs of `healthy` blocks (menu order), BATCH kernels per module: one build per batch instead of one per pair"""
    blocks, xfs = BLOCK_FAMILIES[fam]
    slots = {nm: i + 1 for i, nm in enumerate(blocks)}
    xf, opts = xfs[n]
    pairs = list(itertools.combinations(healthy, 2))
    for k in range(0, len(pairs), BATCH):
        chunk = pairs[k:k + BATCH]
        knames = [f'kern_{i + 1}' for i in range(len(chunk))]
        kernels = [kernel_text(blocks, ['base', a, b], slots, kn) for (a, b), kn in zip(chunk, knames)]
        yield dict(id=f'{fam}:batch{k // BATCH}|{xf}({opt_id(opts)})', sources=[['cmod.f90', module_text(blocks, kernels)]],
                   driver=batch_driver(knames), xform=xf, opts=opts, family=fam, variant=n, switches=[],
                   pairs=[list(pr) for pr in chunk], knames=knames)


UA_BATCH = 8


def ua_batch(members):
    """K call-tree cases as K renamed modules umod_1..K in one directory (one Scheduler run, one build)"""
    sources, uses, calls = [], [], []
    for k, c in enumerate(members, 1):
        sources.append([f'umod_{k}.f90', c['sources'][0][1].replace('umod', f'umod_{k}')])
        uses.append(f'  use umod_{k}, only: top_{k} => top\n')
        calls.append(f"""    x = g - 2
    y = 3*g
    r = g
    a = (/ 0.5, 1.5, -1.0, 2.0, 0.25 /) * real(g)
    call top_{k}(x, y, r, a)
    write(*,'(A,I0,1X,I0,1X,I0,1X,I0)') 'R ', {k}, x, y, r
    write(*,'(A,5(1X,ES14.7))') 'A', a
""")
    driver = ('program drv\n' + ''.join(uses) + '  implicit none\n  integer :: x, y, r, g\n  real :: a(5)\n  do g = 1, 4\n'
              + ''.join(calls) + '  end do\nend program drv\n')
    c0 = members[0]
    return dict(id=f'ua:batch[{c0["id"]}..x{len(members)}]', sources=sources, driver=driver, xform=c0['xform'],
                opts=c0['opts'], family='ua', variant=c0['variant'], switches=[], members=members,
                knames=[f'umod_{k}' for k in range(1, len(members) + 1)])


def batch_worker(bc):
    """-> dict(fallback=bool, changed=[bool per kernel]); anything but a clean pass sends the pairs of the batch to
    individual runs (so verdicts and replays always refer to single-kernel programs)"""
    from loki import fgen
    xform.quiet()
    try:
        orig = xform.build_run(bc['sources'], bc['driver'], base=worker.base, flags=FLAGS, timeout=300)
        if not orig['ok']:
            return dict(fallback=True, why='original')

        def texts(files):
            if bc['family'] == 'ua':
                return {m.name.lower(): fgen(m) for sf in files.values() for m in sf.modules}
            return {r.name.lower(): fgen(r) for sf in files.values() for r in sf.all_subroutines
                    if r.name.lower().startswith('kern')}
        files = xform.parse_sources(bc)
        before = texts(files)
        apply(bc, files)
        after = texts(files)
        new = [[f, files[f].to_fortran()] for f, _ in bc['sources']]
        res = xform.build_run(new, bc['driver'], base=worker.base, flags=FLAGS, timeout=300)
        if not res['ok'] or xform.norm_out(orig['out']) != xform.norm_out(res['out']):
            return dict(fallback=True, why='differs')
        return dict(fallback=False, changed=[before[k] != after.get(k) for k in bc['knames']])
    except Exception as ex:  # pylint: disable=broad-except
        return dict(fallback=True, why=f'{type(ex).__name__}')


def run_pairs(ctx, singles, by_id):
    """d = 2: every pair of blocks / switch settings that hold on their own (a block that violates alone makes every
    superset violate with its signature, so it is reported at d = 1 and not combined further)."""
    batches, subsumed, healthy_blocks = [], 0, {}
    for fam, (blocks, xfs) in BLOCK_FAMILIES.items():
        names = [k for k in blocks if k != 'base']
        for n, (xf, opts) in enumerate(xfs):
            healthy = [b for b in names if by_id[case_id(fam, f'base+{b}', xf, opts)]['verdict'] in GOOD]
            healthy_blocks[f'{fam}/{n}'] = len(healthy)
            subsumed += len(names) * (len(names) - 1) // 2 - len(healthy) * (len(healthy) - 1) // 2
            batches += list(pair_batches(fam, n, healthy))
    bres = ctx.pmap(batch_worker, batches, chunksize=1)
    cases, results, fallback = [], [], []
    for bc, br in zip(batches, bres):
        for k, (a, b) in enumerate(bc['pairs']):
            case = block_case(bc['family'], ['base', a, b], bc['variant'])
            if br['fallback']:
                fallback.append(case)
            else:
                cases.append(case)
                results.append(dict(verdict='ok' if br['changed'][k] else 'unchanged-ok', changed=br['changed'][k],
                                    detail='', id=case['id'], batched=True))
    # call-tree template: pairs of switch settings; UA_BATCH renamed copies of the module per Scheduler run
    ua_cases = {n: [] for n in range(len(UA_XF))}
    for dev in deviations(UA_MENU, 2):
        if len(dev) != 2:
            continue
        for n, (xf, opts) in enumerate(UA_XF):
            if all(by_id[case_id('ua', f'{k}={v}', xf, opts)]['verdict'] in GOOD for k, v in dev.items()):
                label = '+'.join(f'{k}={v}' for k, v in dev.items())
                ua_cases[n].append(dict(id=case_id('ua', label, xf, opts), sources=[['umod.f90', ua_build(dev)]],
                                        driver=UA_DRIVER, xform=xf, opts=opts, family='ua', variant=n,
                                        switches=[f'{k}={v}' for k, v in dev.items()]))
            else:
                subsumed += 1
    ua_batches = []
    for n, lst in ua_cases.items():
        for k in range(0, len(lst), UA_BATCH):
            ua_batches.append(ua_batch(lst[k:k + UA_BATCH]))
    ures = ctx.pmap(batch_worker, ua_batches, chunksize=1)
    for bc, br in zip(ua_batches, ures):
        for k, case in enumerate(bc['members']):
            if br['fallback']:
                fallback.append(case)
            else:
                cases.append(case)
                results.append(dict(verdict='ok' if br['changed'][k] else 'unchanged-ok', changed=br['changed'][k],
                                    detail='', id=case['id'], batched=True))
    batches, bres = batches + ua_batches, bres + ures
    fres = w2_xgroup.judge_grouped(ctx, fallback, group_worker)
    info = dict(batches=len(batches), batches_fallen_back=sum(1 for r in bres if r['fallback']),
                pairs_in_clean_batches=len(cases), pairs_run_individually=len(fallback),
                pairs_subsumed_by_a_violating_single=subsumed, healthy_blocks=healthy_blocks)
    return cases + fallback, results + fres, info


def run(ctx):
    d = 1 if ctx.quick else 2
    cases = make_cases(1)
    worker.base = str(ctx.scratch)
    ctx.reset_pool()
    results = w2_xgroup.judge_grouped(ctx, cases, group_worker)
    by_id = {r['id']: r for r in results}
    pair_info = None
    if d == 2:
        pc, pr, pair_info = run_pairs(ctx, cases, by_id)
        cases, results = cases + pc, results + pr
    results, flaky = w2_xgroup.confirm_violations(ctx, cases, results, group_worker)
    by_id = {**by_id, **{r['id']: r for r in results}}
    xform.summarise(ctx, cases, results, sigfn(by_id), min_changed=40)
    per_family = {}
    for c, r in zip(cases, results):
        f = per_family.setdefault(c['family'], dict(cases=0, changed_ok=0, refused=0, violating=0))
        f['cases'] += 1
        f['changed_ok'] += int(r['verdict'] == 'ok' and bool(r.get('changed')))
        f['refused'] += int(r['verdict'] == 'refused')
        f['violating'] += int(r['verdict'] not in ('ok', 'unchanged-ok', 'refused'))
    for fam, f in per_family.items():
        ctx.require(f['changed_ok'] >= 5, f'vacuous: family {fam} changed only {f["changed_ok"]} programs')
    ctx.cov.update(
        exhaustive=True,
        bound=dict(max_blocks=d, blocks=dict(cp=len(CP_BLOCKS) - 1, dc=len(DC_BLOCKS) - 1, uv=len(UV_BLOCKS) - 1,
                                             ua={k: len(v) for k, v in UA_MENU.items()}),
                   xforms=dict(cp=len(CP_XF), dc=len(DC_XF), uv=len(UV_XF), ua=len(UA_XF)), inputs=36),
        per_family=per_family, flaky_verdicts=flaky, pairs=pair_info,
        rule=f'per template all combinations of <= {d} feature blocks x the transformation variants'
             + (' (pairs: only of blocks that hold on their own for that variant; pairs containing a block that violates '
                f'alone carry its signature and are counted as subsumed; {BATCH} pair-kernels per compiled module, a module '
                'that does not pass cleanly is re-run pair by pair)' if d == 2 else '')
             + '; 36 inputs per run (4 for the call-tree template); non-trivial = the transformation changed the generated '
               'code and the program still prints the original output',
        samples=[dict(id=cases[0]['id']), dict(id=cases[-1]['id'], text=cases[-1]['sources'][0][1])],
    )
    ctx.assumptions += ['gfortran -O0 -fcheck=bounds -finit-integer=-9999 -finit-real=nan defines behaviour',
                        'only standard-conforming programs are generated (every read preceded by a write)']


def replay(case):
    r = w2_xgroup.replay_case(case, apply, flags=FLAGS)
    if r['verdict'] == 'HARNESS':
        raise RuntimeError(r['detail'])
    return None if r['verdict'] in ('ok', 'unchanged-ok', 'refused') else f'{r["verdict"]}: {r["detail"]}'
