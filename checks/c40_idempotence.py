"""C40  Normalising transformations are idempotent.

ENUM, no compiler.  For every listed normaliser T and every program p of the streams below:
T is applied in place to every routine (sanitise_imports also to every module) of the freshly parsed p,
(text1, canon1) = (fgen, vf.ircanon.canon_ir) are recorded, T is applied a second time and
(text2, canon2) must equal (text1, canon1).  T raising on the *first* application makes the property vacuous for
that p (counted as `inapplicable`, never a violation); T raising only on the *second* application is a violation
(T(T(p)) is not T(p)).

Normalisers (statement of C40 -> entry point):
  associate resolution            do_resolve_associates
  array-notation resolution       resolve_vector_notation (resolve_implicit_rhs_ranges +/-), resolve_vector_dimension
  range-index normalisation       normalize_range_indexing, normalize_array_shape_and_access
  lower-casing                    convert_to_lower_case
  import sanitising               sanitise_imports
  sequence-association resolution do_resolve_sequence_association (calls enriched with the callees of the case)
  dead-code removal               do_remove_dead_code (use_simplify +/-)
  single-variable declarations    single_variable_declaration (group_by_shape +/-)

Streams (each enumerated completely for the tier's bound; availability is reported in the coverage):
  c29     distinct programs of checks/c29_associates.make_cases(d)
  c30     distinct programs of checks/c30_array_notation.make_cases(d)
  c32,c34 dead-code / sequence-association modules: imported opportunistically (make_cases(d)) when they exist
  mf      the C01 mini-Fortran kernel stream vf.mfgen.valid_stream(L, nest), 40 kernels per module
  own     small deviation-bounded templates of this module for the normalisers that the streams above would leave
          idle: imports (only-lists with used/unused/renamed/kind-only/type/procedure symbols, module- and
          member-level use), dead code (constant conditions in IF / ELSE IF / inline IF / SELECT CASE), sequence
          association (element actuals to array dummies: rank 1/2, lower bound 0, loop subscripts, keywords), range
          declarations (`a(1:n)`, `d(1:n,0:m)`, `z(0:n)`, locals with constant bounds: work for the range-index normalisers)
  upper   every program of the *quick* bound spelled in upper case, judged with the two normalisers that fold case
          themselves (convert_to_lower_case, sanitise_imports), so that lower-casing has work to do
d = 1 / L,nest = 1,2 (quick);  d = 2 / L,nest = 2,2 (thorough).  A template stream whose d=2 expansion exceeds
800 distinct programs is taken at d=1 in the thorough tier as well (reported per stream in the coverage).
"""
import logging
import re

from vf import mf, mfgen
from vf.explore import deviations, seeded_order
from vf.ircanon import canon_ir, first_diff

PROPERTY = 'C40'
LEVEL = 'exploration'
META = dict(
    engine='enum',
    technique='bounded-exhaustive program streams x all listed normalisers; text and structural-IR comparison of one vs two applications',
    level_text='every program of the C29/C30(/C32/C34) template streams (<= d switches), the MF kernel stream (L, nest) and own '
               'import/dead-code/sequence-association templates x 13 normaliser variants: fgen(T(T(p))) == fgen(T(p)) and the '
               'canonical IR is unchanged by the second application',
    level_note='structural identity is judged by the harness canonicaliser (vf/ircanon.py), not by Loki ==; no compiler involved',
)
BATCH = 40


def _quiet():
    logging.disable(logging.CRITICAL)


# ---------------------------------------------------------------------------- normalisers
def _t_assoc(r):
    from loki.transformations.sanitise.associates import do_resolve_associates
    do_resolve_associates(r)


def _t_rvn(r):
    from loki.transformations.array_indexing import resolve_vector_notation
    resolve_vector_notation(r)


def _t_rvn_noimp(r):
    from loki.transformations.array_indexing import resolve_vector_notation
    resolve_vector_notation(r, resolve_implicit_rhs_ranges=False)


def _t_rvd(r):
    from loki import Dimension
    from loki.transformations.array_indexing import resolve_vector_dimension
    resolve_vector_dimension(r, Dimension(name='horizontal', index='i', lower='1', upper='n', size='n'),
                             derive_qualified_ranges=True)


def _t_nri(r):
    from loki.transformations.array_indexing import normalize_range_indexing
    normalize_range_indexing(r)


def _t_nasa(r):
    from loki.transformations.array_indexing import normalize_array_shape_and_access
    normalize_array_shape_and_access(r)


def _t_lower(r):
    from loki.transformations.utilities import convert_to_lower_case
    convert_to_lower_case(r)


def _t_imports(u):
    from loki.transformations.utilities import sanitise_imports
    sanitise_imports(u)


def _t_seq(r):
    from loki.transformations.sanitise.sequence_associations import do_resolve_sequence_association
    do_resolve_sequence_association(r)


def _t_dead(r):
    from loki.transformations.remove_code import do_remove_dead_code
    do_remove_dead_code(r, use_simplify=True)


def _t_dead_nosimp(r):
    from loki.transformations.remove_code import do_remove_dead_code
    do_remove_dead_code(r, use_simplify=False)


def _t_single(r):
    from loki.transformations.utilities import single_variable_declaration
    single_variable_declaration(r)


def _t_single_shape(r):
    from loki.transformations.utilities import single_variable_declaration
    single_variable_declaration(r, group_by_shape=True)


NORMALISERS = {   # name -> (function, also applied to modules, statement heading)
    'resolve_associates': (_t_assoc, False, 'associate resolution'),
    'resolve_vector_notation': (_t_rvn, False, 'array-notation resolution'),
    'resolve_vector_notation(noimplicit)': (_t_rvn_noimp, False, 'array-notation resolution'),
    'resolve_vector_dimension': (_t_rvd, False, 'array-notation resolution'),
    'normalize_range_indexing': (_t_nri, False, 'range-index normalisation'),
    'normalize_array_shape_and_access': (_t_nasa, False, 'range-index normalisation'),
    'convert_to_lower_case': (_t_lower, False, 'lower-casing'),
    'sanitise_imports': (_t_imports, True, 'import sanitising'),
    'resolve_sequence_association': (_t_seq, False, 'sequence-association resolution'),
    'remove_dead_code': (_t_dead, False, 'dead-code removal'),
    'remove_dead_code(nosimplify)': (_t_dead_nosimp, False, 'dead-code removal'),
    'single_variable_declaration': (_t_single, False, 'single-variable declarations'),
    'single_variable_declaration(group_by_shape)': (_t_single_shape, False, 'single-variable declarations'),
}


UPPER_NORMALISERS = ('convert_to_lower_case', 'sanitise_imports')   # the two that fold case themselves


# ---------------------------------------------------------------------------- own templates
IMP_PROVIDERS = '''module imod
  implicit none
  integer, parameter :: jprb = selected_real_kind(6)
  integer, parameter :: nmax = 4
  integer :: counter = 0
  real :: scale = 2.0
  real :: shift = 0.5
  type :: pt
    real :: x
  end type pt
contains
  subroutine bump(z)
    real, intent(inout) :: z
    z = z + 1.0
  end subroutine bump
  function dbl(z)
    real, intent(in) :: z
    real :: dbl
    dbl = 2.0 * z
  end function dbl
end module imod
module jmod
  implicit none
  integer, parameter :: jpim = selected_int_kind(9)
  integer :: other = 1
  integer :: another = 2
end module jmod
'''
# block -> (module-level use lines, routine-level use lines, routine declarations, routine body, contained member)
IMP_BLOCKS = {
    'base': ([], ['use imod, only: scale'], [], ['x = x * scale'], []),
    'unused_in_only': ([], ['use imod, only: shift, counter'], [], ['x = x + shift'], []),
    'all_unused': ([], ['use jmod, only: other'], [], [], []),
    'whole_module': ([], ['use jmod'], [], ['k = another'], []),
    'rename_used': ([], ['use imod, only: cnt => counter'], [], ['k = cnt'], []),
    'rename_unused': ([], ['use jmod, only: oth => other, another'], [], ['k = k + another'], []),
    'kind_in_decl': ([], ['use imod, only: jprb'], ['real(kind=jprb) :: w'], ['w = 1.0', 'x = x + w'], []),
    'kind_in_literal': ([], ['use jmod, only: jpim'], [], ['k = k + 2_jpim'], []),
    'type_only': ([], ['use imod, only: pt'], ['type(pt) :: v'], ['v%x = x', 'x = v%x + 1.0'], []),
    'proc_call': ([], ['use imod, only: bump'], [], ['call bump(x)'], []),
    'func_call': ([], ['use imod, only: dbl'], [], ['x = dbl(x)'], []),
    'dim_only': ([], ['use imod, only: nmax'], ['real :: w2(nmax)'], ['w2(:) = x', 'x = w2(1)'], []),
    'module_level_used': (['use imod, only: shift, counter'], [], [], ['x = x - shift'], []),
    'module_level_unused': (['use jmod, only: other, another'], [], [], [], []),
    'member_uses_parent_import': ([], ['use imod, only: counter, nmax'], [], ['call inner()'],
                                  ['subroutine inner()', '  k = k + counter', 'end subroutine inner']),
    'duplicate_import': (['use imod, only: scale'], ['use imod, only: scale, shift'], [], [], []),
    'upper_case_import': ([], ['USE IMOD, ONLY: SHIFT, NMAX'], [], ['x = x + Shift'], []),
}


def imports_program(blocks):
    mod_use, use, decl, body, member = [], [], [], [], []
    for b in blocks:
        mu, u, d, bd, mem = IMP_BLOCKS[b]
        mod_use += mu
        use += u
        decl += d
        body += bd
        member += mem
    lines = ['module kmod'] + ['  ' + x for x in mod_use] + ['  implicit none', 'contains', '  subroutine kern(x, k)']
    lines += ['    ' + x for x in use] + ['    real, intent(inout) :: x', '    integer, intent(inout) :: k']
    lines += ['    ' + x for x in decl] + ['    ' + x for x in body]
    if member:
        lines += ['  contains'] + ['    ' + x for x in member]
    lines += ['  end subroutine kern', 'end module kmod']
    return [['imod.f90', IMP_PROVIDERS], ['kmod.f90', '\n'.join(lines) + '\n']]


DEAD_BLOCKS = {
    'base': ['if (.true.) then', '  x = x + 1.0', 'else', '  x = x - 1.0', 'end if'],
    'false_else': ['if (.false.) then', '  x = 0.0', 'else', '  x = x * 2.0', 'end if'],
    'false_noelse': ['if (.false.) then', '  x = 0.0', 'end if'],
    'inline_false': ['if (.false.) x = 3.0'],
    'inline_true': ['if (.true.) x = x + 0.5'],
    'const_compare': ['if (1 == 1) then', '  k = k + 1', 'end if', 'if (1 > 2) then', '  k = 0', 'end if'],
    'elseif_chain': ['if (1 > 2) then', '  k = 0', 'else if (k > 0) then', '  k = k + 2', 'else if (.true.) then', '  k = 5',
                     'else', '  k = 7', 'end if'],
    'nested_in_live': ['if (k > 0) then', '  if (.false.) then', '    x = 0.0', '  else', '    x = x + 2.0', '  end if', 'end if'],
    'live_in_dead': ['if (.true.) then', '  if (k > 1) then', '    x = x + 4.0', '  end if', 'end if'],
    'or_true': ['if (k > 0 .or. .true.) then', '  x = x + 0.25', 'end if'],
    'and_false': ['if (k > 0 .and. .false.) then', '  x = 9.0', 'else', '  x = x + 0.75', 'end if'],
    'select_const': ['select case (2)', 'case (1)', '  k = 10', 'case (2)', '  k = k + 20', 'case default', '  k = 30', 'end select'],
    'select_var': ['select case (k)', 'case (1)', '  if (.true.) x = 1.0', 'case default', '  if (.false.) x = 2.0', 'end select'],
    'in_loop': ['do i = 1, 3', '  if (.true.) then', '    k = k + i', '  end if', '  if (i > 2) k = k + 1', 'end do'],
    'logical_var_named_true': ['if (true) then', '  x = x + 8.0', 'end if'],
    # constant conditions nested inside a pruned branch: one pass must clean the branch it keeps
    'const_in_true': ['if (.true.) then', '  if (.false.) then', '    x = 0.0', '  else', '    x = x + 16.0', '  end if', 'end if'],
    'const_in_false_else': ['if (.false.) then', '  x = 0.0', 'else', '  if (.true.) x = x + 32.0', '  if (1 > 2) x = 0.0', 'end if'],
    'const_in_elseif': ['if (k > 100) then', '  k = 0', 'else if (.true.) then', '  if (1 > 2) k = -1', '  k = k + 3', 'end if'],
    'const_in_select_const': ['select case (1)', 'case (1)', '  if (.false.) k = 99', '  k = k + 4', 'case default', '  k = 0',
                              'end select'],
}


def dead_program(blocks):
    lines = ['module dmod', '  implicit none', 'contains', '  subroutine kern(x, k, true)', '    real, intent(inout) :: x',
             '    integer, intent(inout) :: k', '    logical, intent(in) :: true', '    integer :: i']
    for b in blocks:
        lines += ['    ' + x for x in DEAD_BLOCKS[b]]
    lines += ['  end subroutine kern', 'end module dmod']
    return [['dmod.f90', '\n'.join(lines) + '\n']]


SEQ_HEAD = '''module smod
  implicit none
contains
  subroutine inner1(k, z)
    integer, intent(in) :: k
    real, intent(inout) :: z(k)
    z(1) = z(1) + 1.0
    z(k) = z(k) * 2.0
  end subroutine inner1
  subroutine inner2(k, l, z)
    integer, intent(in) :: k, l
    real, intent(inout) :: z(k, l)
    z(1, 1) = z(1, 1) + 1.0
    z(k, l) = z(k, l) * 2.0
  end subroutine inner2
  subroutine inner0(z)
    real, intent(inout) :: z
    z = z + 0.5
  end subroutine inner0
  subroutine kern(n, m, a, c, d)
    integer, intent(in) :: n, m
    real, intent(inout) :: a(n), c(n, m), d(0:n-1, m)
    integer :: i, j
'''
SEQ_BLOCKS = {
    'base': ['call inner1(n, a(1))'],
    'offset_start': ['call inner1(n - 1, a(2))'],
    'rank2_to_rank1': ['call inner1(n, c(1, 1))', 'call inner1(n, c(1, 2))'],
    'rank2_to_rank2': ['call inner2(n, m, c(1, 1))'],
    'lower_bound_0': ['call inner1(n, d(0, 1))', 'call inner1(n - 1, d(1, 2))'],
    'loop_subscripts': ['do j = 1, m', '  do i = 1, n - 1', '    call inner1(2, c(i, j))', '  end do', 'end do'],
    'keyword_args': ['call inner1(k=n, z=a(1))', 'call inner1(z=a(2), k=2)'],
    'already_section': ['call inner1(n, a(1:n))', 'call inner1(n, c(:, 1))'],
    'scalar_dummy': ['call inner0(a(2))', 'call inner0(c(2, 1))'],
    'whole_array': ['call inner1(n, a)', 'call inner2(n, m, c)'],
    'expression_subscript': ['call inner1(2, a(n - 1))', 'call inner1(2, c(n - 1, m))'],
}


def seq_program(blocks):
    body = []
    for b in blocks:
        body += ['    ' + x for x in SEQ_BLOCKS[b]]
    return [['smod.f90', SEQ_HEAD + '\n'.join(body) + '\n  end subroutine kern\nend module smod\n']]


RNG_BLOCKS = {   # block -> (dummy/local declarations, body)
    'base': (['real, intent(inout) :: a(1:n)'], ['a(1) = a(n) + 1.0', 'a(2:n) = 0.5']),
    'rank2': (['real, intent(inout) :: c(1:n, 1:m)'], ['c(1, 1) = c(n, m)', 'c(:, 2) = 1.5']),
    'mixed_bounds': (['real, intent(inout) :: d(1:n, 0:m)'], ['d(1, 0) = d(n, m)', 'd(2:n, 1) = d(2:n, 0)']),
    'lower_0': (['real, intent(inout) :: z(0:n)'], ['z(0) = z(n) * 2.0', 'z(1:n) = z(0:n-1) + 1.0']),
    'lower_neg': (['real, intent(inout) :: y(-1:n-2)'], ['y(-1) = y(n-2)', 'y(:) = y(:) + 0.25']),
    'local_const': (['real :: w(1:4)'], ['w(:) = 1.0', 'w(1:2) = w(3:4)']),
    'local_lower_2': (['real :: v(2:5)'], ['v(2) = 3.0', 'v(3:5) = v(2)']),
    'plain': (['real, intent(inout) :: p(n)'], ['p(1:n) = 2.0']),
    'strided': (['real, intent(inout) :: s(0:n)'], ['s(0:n:2) = 4.0']),
    'in_call': (['real, intent(inout) :: q(0:n)'], ['call sub(n, q(0))', 'call sub(n, q(1:n))', 'call sub(n + 1, q)']),
}


def range_program(blocks):
    lines = ['module rmod', '  implicit none', 'contains', '  subroutine sub(k, x)', '    integer, intent(in) :: k',
             '    real, intent(inout) :: x(k)', '    x(k) = x(1)', '  end subroutine sub', '  subroutine kern(n, m, '
             + ', '.join(RNG_BLOCKS[b][0][0].split('::')[1].split('(')[0].strip() for b in blocks
                         if 'intent' in RNG_BLOCKS[b][0][0]) + ')', '    integer, intent(in) :: n, m']
    for b in blocks:
        lines += ['    ' + x for x in RNG_BLOCKS[b][0]]
    for b in blocks:
        lines += ['    ' + x for x in RNG_BLOCKS[b][1]]
    lines += ['  end subroutine kern', 'end module rmod']
    return [['rmod.f90', '\n'.join(lines) + '\n']]


OWN = {'rangedecl': (RNG_BLOCKS, range_program), 'imports': (IMP_BLOCKS, imports_program), 'deadcode': (DEAD_BLOCKS, dead_program), 'seqassoc': (SEQ_BLOCKS, seq_program)}


def own_programs(d):
    out = []
    for tname, (blocks, build) in OWN.items():
        names = [k for k in blocks if k != 'base']
        for dev in deviations({k: [True] for k in names}, d):
            sel = ['base'] + [k for k in names if k in dev]
            out.append(dict(stream='own', pid=f'{tname}:{"+".join(sel)}', sources=build(sel),
                            switches=[f'{tname}:{k}' for k in sorted(dev)]))
    return out


# ---------------------------------------------------------------------------- streams
OPTIONAL_STREAMS = {'c29': 'c29_associates', 'c30': 'c30_array_notation', 'c32': 'c32_', 'c34': 'c34_'}


def _import_stream_module(prefix):
    import importlib
    from pathlib import Path
    hits = sorted(Path(__file__).parent.glob(prefix + '*.py'))
    if len(hits) != 1:
        raise ImportError(f'no unique module {prefix}*')
    mod = importlib.import_module(f'checks.{hits[0].stem}')
    if not hasattr(mod, 'make_cases'):
        raise ImportError(f'{hits[0].stem} has no make_cases')
    return mod


STREAM_CAP = 800     # a template stream whose d=2 expansion has more distinct programs than this is taken at d=1 (stated in coverage)


def _distinct(cases, sname):
    seen = {}
    for c in cases:
        key = tuple(tuple(x) for x in c['sources']) + tuple(tuple(x) for x in c.get('extra', ()))
        if key in seen:
            continue
        sw = c.get('switches', [])
        sw = [f'{k}={v}' for k, v in sw.items()] if isinstance(sw, dict) else [str(x) for x in sw]
        seen[key] = dict(stream=sname, pid=c['id'].split('|', 1)[0], sources=[list(x) for x in c.get('extra', ())] +
                         [list(x) for x in c['sources']], switches=sw)
    return list(seen.values())


def template_programs(d):
    """distinct programs of the group-T template streams -> (list of program dicts, availability dict)"""
    out, avail = [], {}
    for sname, prefix in OPTIONAL_STREAMS.items():
        try:
            mod = _import_stream_module(prefix)
            progs = _distinct(mod.make_cases(d), sname)
            used_d = d
            if d > 1 and len(progs) > STREAM_CAP:
                full = len(progs)
                progs = _distinct(mod.make_cases(1), sname)
                used_d = 1
        except ImportError as ex:
            avail[sname] = f'unavailable ({ex})'
            continue
        except Exception as ex:  # pylint: disable=broad-except
            avail[sname] = f'unavailable (make_cases raised {type(ex).__name__}: {str(ex)[:120]})'
            continue
        out += progs
        avail[sname] = f'{len(progs)} programs (<= {used_d} switches' + (
            f'; the {full} programs of d={d} exceed the cap of {STREAM_CAP})' if used_d != d else ')')
    return out, avail


def mf_programs(L, nest):
    kernels = [(f'k{n:05d}', name, body) for n, (name, body, _) in enumerate(mfgen.valid_stream(L, nest))]
    out = []
    for s in range(0, len(kernels), BATCH):
        chunk = kernels[s:s + BATCH]
        out.append(dict(stream='mf', pid=f'mf[{s}:{s + len(chunk)}]', kernels=[[k, nm, body] for k, nm, body in chunk]))
    return out, len(kernels)


_WORD = re.compile(r"[A-Za-z_]\w*")


def upper_variant(prog):
    p = dict(prog)
    p['origin'] = prog['stream']
    p['stream'] = 'upper'
    p['pid'] = 'UPPER:' + prog['pid']
    p['upper'] = True
    return p


def program_sources(prog):
    if 'kernels' in prog:
        text = mf.module_text('kmod', [(k, body) for k, _nm, body in prog['kernels']])[0]
        src = [['kmod.f90', text]]
    else:
        src = prog['sources']
    if prog.get('upper'):
        src = [[f, _upper(t)] for f, t in src]
    return src


def _upper(text):
    # upper-case everything except character literals and comments/pragmas
    out = []
    for line in text.split('\n'):
        code, sep, com = line.partition('!')
        parts = re.split(r"('[^']*'|\"[^\"]*\")", code)
        out.append(''.join(p if i % 2 else p.upper() for i, p in enumerate(parts)) + sep + com)
    return '\n'.join(out)


# ---------------------------------------------------------------------------- judging
def parse_all(sources):
    from loki import Sourcefile, Frontend
    files, defs = {}, []
    for fname, text in sources:
        sf = Sourcefile.from_source(text, frontend=Frontend.FP, definitions=defs)
        files[fname] = sf
        defs = defs + list(sf.modules) + list(sf.routines)
    return files


def _routines_for_T(files, with_modules):
    """application order: members are reached through their parents by the transformations that recurse; we apply
    T to every module procedure and free routine (and to modules when the normaliser accepts them)."""
    out = []
    for sf in files.values():
        if with_modules:
            out += list(sf.modules)
        out += list(sf.all_subroutines)
    return out


def snapshot(files, canon=True):
    snap = {}
    for fname, sf in files.items():
        snap[('file', fname)] = (sf.to_fortran(), canon_ir(sf) if canon else None)
        for r in sf.all_subroutines:
            snap[('routine', r.name.lower())] = (r.to_fortran(), canon_ir(r) if canon else None)
    return snap


def judge(sources, tname):
    """-> dict(status, did, units=[(unit, kind, detail)])   status in ok | inapplicable | parse-error"""
    _quiet()
    fn, with_modules, _ = NORMALISERS[tname]
    try:
        files = parse_all(sources)
    except Exception as ex:  # pylint: disable=broad-except
        return dict(status='parse-error', detail=f'{type(ex).__name__}: {str(ex)[:200]}', did=False, units=[])
    if tname == 'resolve_sequence_association':
        from vf import xform
        xform.enrich_all(files)
    snap0 = snapshot(files, canon=False)
    try:
        for u in _routines_for_T(files, with_modules):
            fn(u)
    except Exception as ex:  # pylint: disable=broad-except
        return dict(status='inapplicable', detail=f'{type(ex).__name__}: {str(ex)[:200]}', did=False, units=[])
    try:
        snap1 = snapshot(files)
    except Exception as ex:  # pylint: disable=broad-except
        return dict(status='inapplicable', detail=f'fgen after first application: {type(ex).__name__}: {str(ex)[:200]}',
                    did=False, units=[])
    changed_units = sorted(k[1] for k in snap1 if k[0] == 'routine' and snap0.get(k, (None,))[0] != snap1[k][0])
    did = any(snap0[k][0] != snap1[k][0] for k in snap1 if k in snap0) or set(snap0) != set(snap1)
    try:
        for u in _routines_for_T(files, with_modules):
            fn(u)
        snap2 = snapshot(files)
    except Exception as ex:  # pylint: disable=broad-except
        import traceback
        tb = traceback.format_exc().strip().splitlines()
        where = next((ln.strip() for ln in reversed(tb) if ln.strip().startswith('File "') and '/loki/' in ln), '')
        return dict(status='ok', did=did, changed=changed_units,
                    units=[('<all>', 'second-application-raises', f'{type(ex).__name__}: {str(ex)[:200]} @ {where}')])
    units = []
    bad_routines = set()
    for key in snap1:
        if key[0] != 'routine':
            continue
        a, b = snap1[key], snap2.get(key)
        if b is None:
            units.append((key[1], 'unit-lost', 'routine missing after second application'))
            bad_routines.add(key[1])
            continue
        if a[0] != b[0]:
            la, lb = a[0].splitlines(), b[0].splitlines()
            n = next((i for i, (x, y) in enumerate(zip(la, lb)) if x != y), min(len(la), len(lb)))
            units.append((key[1], 'text-differs', f'{la[n].strip() if n < len(la) else "<eof>"!r} -> '
                                                  f'{lb[n].strip() if n < len(lb) else "<eof>"!r}'))
            bad_routines.add(key[1])
        elif a[1] != b[1]:
            units.append((key[1], 'ir-differs', first_diff(a[1], b[1]) or 'differs'))
            bad_routines.add(key[1])
    if not bad_routines:
        for key in snap1:
            if key[0] != 'file':
                continue
            a, b = snap1[key], snap2[key]
            if a[0] != b[0]:
                la, lb = a[0].splitlines(), b[0].splitlines()
                n = next((i for i, (x, y) in enumerate(zip(la, lb)) if x != y), min(len(la), len(lb)))
                units.append((f'<file {key[1]}>', 'text-differs', f'{la[n].strip() if n < len(la) else "<eof>"!r} -> '
                                                                  f'{lb[n].strip() if n < len(lb) else "<eof>"!r}'))
            elif a[1] != b[1]:
                units.append((f'<file {key[1]}>', 'ir-differs', first_diff(a[1], b[1]) or 'differs'))
    return dict(status='ok', did=did, changed=changed_units, units=units)


def worker(item):
    prog, tname = item
    try:
        res = judge(program_sources(prog), tname)
    except Exception as ex:  # pylint: disable=broad-except
        res = dict(status='harness', detail=f'{type(ex).__name__}: {str(ex)[:300]}', did=False, units=[])
    res['pid'] = prog['pid']
    res['T'] = tname
    return res


def _single_kernel_case(prog, kname, tname):
    k, nm, body = next(x for x in prog['kernels'] if x[0] == kname)
    return dict(kind='mf', name=nm, body=body, T=tname, upper=bool(prog.get('upper')))


def run(ctx):
    d, L, nest = (1, 1, 2) if ctx.quick else (2, 2, 2)
    tprogs, avail = template_programs(d)
    own = own_programs(d)
    mfp, nk = mf_programs(L, nest)
    avail['mf'] = f'{nk} kernels in {len(mfp)} modules'
    avail['own'] = f'{len(own)} programs'
    # upper-case stream: quick bound of everything
    if ctx.quick:
        up_src = own + tprogs + mfp
    else:
        t1, _ = template_programs(1)
        m1, _ = mf_programs(1, 2)
        up_src = own_programs(1) + t1 + m1
    upper = [upper_variant(p) for p in up_src]
    avail['upper'] = f'{len(upper)} programs'
    progs = own + tprogs + mfp + upper
    items = [(p, t) for p in own + tprogs + mfp for t in NORMALISERS] + [(p, t) for p in upper for t in UPPER_NORMALISERS]
    order = seeded_order(list(range(len(items))), ctx.seed)
    res = ctx.pmap(worker, [items[i] for i in order], chunksize=4)
    results = [None] * len(items)
    for i, r in zip(order, res):
        results[i] = r

    harness = [r for r in results if r['status'] in ('harness', 'parse-error')]
    ctx.require(not harness, f'{len(harness)} programs could not be parsed/judged, first: '
                             f'{harness[0]["pid"] if harness else ""}: {harness[0].get("detail") if harness else ""}')

    # ---- attribution: single-switch / single-form failures explain bigger programs; an upper-case variant failing
    # exactly as its lower-case twin is the same finding, otherwise it is marked `case=upper`
    flat = []          # (prog, T, unit, kind, detail, name)   name = MF form name or template pid
    for (p, t), r in zip(items, results):
        for unit, kind, det in r['units']:
            if 'kernels' in p:
                nm = next((x[1] for x in p['kernels'] if x[0] == unit), None)
            else:
                nm = p['pid'].split(':', 1)[1] if p.get('upper') else p['pid']
            flat.append((p, t, unit, kind, det, nm))
    lower_fail = {(nm, t, kind) for p, t, unit, kind, det, nm in flat if not p.get('upper')}

    def suffix(p, t, kind, nm):
        return ' case=upper' if p.get('upper') and (nm, t, kind) not in lower_fail else ''
    single = set()     # (T, switch-or-form, kind, suffix)
    for p, t, unit, kind, det, nm in flat:
        if 'kernels' in p:
            if nm is not None and '+' not in nm:
                single.add((t, nm.split('[')[0], kind, suffix(p, t, kind, nm)))
        elif len(p['switches']) <= 1:
            single.add((t, p['switches'][0] if p['switches'] else 'base', kind, suffix(p, t, kind, nm)))
    for p, t, unit, kind, det, nm in flat:
        sfx = suffix(p, t, kind, nm)
        if 'kernels' in p:
            if nm is None:      # a whole-module effect in an MF module: attribute to the module
                ctx.violation(f'{kind} T={t} stream=mf unit={unit}{sfx}', dict(kind='prog', prog=p, T=t), det)
                continue
            parts = [x.split('[')[0] for x in nm.split('+')]
            culprit = next((x for x in parts if (t, x, kind, sfx) in single), None)
            sig = f'{kind} T={t} form={culprit}{sfx}' if culprit else f'{kind} T={t} forms={nm}{sfx}'
            ctx.violation(sig, _single_kernel_case(p, unit, t), det)
        else:
            sws = p['switches'] or ['base']
            culprit = 'base' if (t, 'base', kind, sfx) in single else next((x for x in sws if (t, x, kind, sfx) in single), None)
            origin = p.get('origin', p['stream'])
            src = nm.split(':')[0] if origin == 'own' else origin
            sig = (f'{kind} T={t} stream={src} block={culprit}{sfx}' if culprit
                   else f'{kind} T={t} stream={src} blocks={"+".join(sws)}{sfx}')
            ctx.violation(sig, dict(kind='prog', prog=p, T=t), det)

    # ---- coverage and vacuity guards
    per_T = {}
    for (p, t), r in zip(items, results):
        e = per_T.setdefault(t, dict(programs=0, changed_by_first_application=0, inapplicable=0, violating=0))
        e['programs'] += 1
        e['changed_by_first_application'] += 1 if r.get('did') else 0
        e['inapplicable'] += 1 if r['status'] == 'inapplicable' else 0
        e['violating'] += 1 if r['units'] else 0
    for t, e in per_T.items():
        ctx.require(e['changed_by_first_application'] >= 3,
                    f'vacuous: {t} changed only {e["changed_by_first_application"]} programs on its first application')
    inappl = [f'{r["T"]} on {r["pid"]}: {r["detail"]}' for r in results if r['status'] == 'inapplicable']
    nontrivial = sum(1 for r in results if r.get('did'))
    ctx.cov.update(
        evaluations=len(items), distinct_nontrivial=nontrivial, exhaustive=True,
        programs=len(progs), normalisers=len(NORMALISERS), streams=avail, per_normaliser=per_T,
        inapplicable=len(inappl), inapplicable_examples=inappl[:10],
        bound=dict(d=d, L=L, nest=nest),
        rule=f'every program of every available stream (template streams <= {d} switches; MF kernels L<={L}, nest<={nest}; own '
             f'templates <= {d} blocks; upper-case variants of the quick bound) x {len(NORMALISERS)} normaliser variants; '
             'non-trivial = the first application changed the generated text',
        samples=[dict(pid=progs[0]['pid'], T=items[0][1]), dict(pid=own[-1]['pid'], text=own[-1]['sources'][-1][1])],
    )
    ctx.assumptions += ['idempotence is judged on in-place re-application to the same IR objects (T(T(p)) as a user would call it)',
                        'a normaliser raising on its first application makes the property vacuous for that program (counted)']


def replay(case):
    _quiet()
    t = case['T']
    if case.get('kind') == 'mf':
        prog = dict(stream='mf', pid='replay', kernels=[['k00000', case['name'], case['body']]], upper=case.get('upper', False))
        r = judge(program_sources(prog), t)
        units = [u for u in r['units'] if u[0] in ('k00000', '<all>') or u[0].startswith('<file')]
    else:
        r = judge(program_sources(case['prog']), t)
        units = r['units']
    if r['status'] in ('parse-error', 'harness'):
        raise RuntimeError(r.get('detail'))
    return '; '.join(f'{u}: {k}: {d}' for u, k, d in units) or None
