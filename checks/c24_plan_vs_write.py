"""C24  Planning mode predicts exactly the files a conversion writes.

ENUM, differential.  A case is (project, configuration, pipeline, entry path):

  project        every call DAG on <= 3 procedures x 16 file/module layouts x 3 import styles (vf/batchgen.py) x the way a
                 free-standing callee is declared at the call site (implicit interface | INTERFACE block, vf/batchgen2.py);
                 thorough adds the projects with one feature (type-bound, generic, module variable, recursion, ...)
  configuration  deviations (<= 1 quick, <= 2 thorough) from {all kernels `role=kernel`, root `role=driver`, replicate off, no
                 library, mode `idem`, output directory given, no root path, default FileWriteTransformation}:
                   role j=driver | replicate (default / routine j) | lib (default / routine j) | mode (other name / name with
                   a dash / routine-level mode) | output_dir=None (write next to the sources) | plan root path given |
                   FileWrite suffix | FileWrite include_module_var_imports (+ enable_imports) | ignore j | block j | disable j |
                   strict off
  pipeline       no-op | DependencyTransformation (+- module suffix) | ModuleWrapTransformation | ModuleWrap + Dependency |
                 DuplicateKernel k (+- duplicate_subgraph) | RemoveKernel k | DuplicateKernel k + RemoveKernel k' |
                 DuplicateKernel k + Dependency      (k, k' over all kernels), always followed by the FileWriteTransformation
  entry path     API (Scheduler.process / write_cmake_plan) and, for the <= 1-deviation subset, the command line
                 `loki_transform plan` / `loki_transform convert` through click's CliRunner with a generated TOML config

Oracle -- ground truth is what the real conversion does on disk, not a second Loki traversal:
  1. PLAN: Scheduler(full_parse=False), every step and the file write with ProcessingStrategy.PLAN, write_cmake_plan; the
     three CMake lists are read back from the plan *file*.
  2. CONVERSION on the same sources: Scheduler(full_parse=True), every step and the file write for real; W = the files
     that exist afterwards and did not exist before (output directory empty at the start).
  3. LOKI_SOURCES_TO_APPEND    == W                                                     (as sets of resolved paths)
     LOKI_SOURCES_TO_TRANSFORM == the original files a written file derives from.  Derivation is read off the text: every
                                  generated procedure writes a marker `<name>` and every module declares a variable
                                  `mv_<module>`; both survive renaming, wrapping and duplication, so a written file derives
                                  from the originals whose markers it contains.
     LOKI_SOURCES_TO_REMOVE    == the originals that are *replaced*: a file derived from them was written under their own
                                  stem (not a duplicate under a new name) and the configuration does not replicate them.
                                  Where the `replicate` flags of the units of one file disagree the file is don't-care.
     per-library lists (`..._<lib>`): every written file whose units all have the same, unambiguous library (routine-level
                                  entry, else inherited from the only caller chain, else default) must be in that library's
                                  APPEND list and in no other; files with an ambiguous library are don't-care.
  A conversion that raises gives no ground truth (counted as `conversion_failed`; whether those sources link is C25's
  business); a plan run that raises while the conversion succeeds is a violation.

Signatures: every failing case is shrunk (drop configuration switches, pipeline steps, edges, procedures; simpler layout /
import style / declaration style) to a minimal failing case; signature = failure class of the core + pipeline step kinds +
the project/config attributes the core still needs.
"""
import collections
import json
import os
import re
import shutil
import tempfile
from pathlib import Path

from vf import batchgen as bg
from vf import batchgen2 as b2
from vf import batchrun as br
from vf.explore import shrink

PROPERTY = 'C24'
LEVEL = 'exploration'
META = dict(
    engine='enum',
    technique='differential: CMake plan file produced in planning mode (no full parse) vs the files the real conversion writes '
              'into an empty directory, bounded-exhaustive over projects x configuration deviations x pipelines; CLI replay',
    level_text='every call DAG on <=3 procedures x 16 layouts x 3 import styles x 2 call-site declaration styles; 23 pipelines '
               'built from Dependency/ModuleWrap/DuplicateKernel(+-subgraph)/RemoveKernel + FileWrite; configuration deviations '
               '<=1 (quick) / <=2 (thorough) over role, replicate, lib, mode, output_dir, root path, FileWrite options, '
               'ignore/block/disable; APPEND/TRANSFORM/REMOVE lists == written / derived-from / replaced-not-replicated files',
    level_note='ground truth is the directory listing and the text of the written files (markers); the CLI path '
               '(loki_transform plan/convert via CliRunner) is replayed on the <=1-deviation subset',
)

_CFG = {}
MODE = 'idem'


# ----------------------------------------------------------------------------- pipelines / configurations
def pipelines(n, level):
    """JSON-able pipelines over kernel indices 1..n-1.  level 0: core set, 1: all"""
    ks = list(range(1, n))
    out = [[], [['dep', None]], [['dep', '_mod']], [['wrap']], [['wrap'], ['dep', '_mod']]]
    for k in ks:
        for sub in (False, True):
            out.append([['dup', k, sub]])
        out.append([['rem', k]])
    if level >= 1:
        for k in ks:
            for sub in (False, True):
                for k2 in ks:
                    out.append([['dup', k, sub], ['rem', k2]])
                out.append([['dup', k, sub], ['dep', None]])
    return out


CORE_PIPES = lambda n: [[], [['dep', None]], [['wrap'], ['dep', '_mod']]] + ([[['dup', 1, True]], [['rem', 1]],
                                                                               [['dup', 1, False], ['rem', 1]]] if n > 1 else [])


PIPES3 = lambda n: [[]] + ([[['dup', 1, True]], [['dup', 1, False], ['rem', 1]]] if n > 1 else [])
PIPES3E = lambda n: [[['dep', None]]] + ([[['dup', 1, True]], [['rem', 1]]] if n > 1 else [])


def config_menu(n):
    """[(switch, [values])] -- each value is one deviation"""
    ks = list(range(1, n))
    return [(s, v) for s, v in [
        ('role', ks),
        ('replicate', ['default'] + list(range(n))),
        ('lib', ['default'] + list(range(n))),
        ('mode', ['alt', 'dash'] + ks[:1]),
        ('outdir', ['none']),
        ('root', ['given']),
        ('suffix', ['.F90']),
        ('modimports', [True]),
        ('ignore', ks),
        ('block', ks),
        ('disable', ks),
        ('strict0', [True]),
    ] if v]


def enumerate_cspecs(n, d):
    menu = config_menu(n)
    yield []
    import itertools
    for k in range(1, d + 1):
        for combo in itertools.combinations(range(len(menu)), k):
            for vals in itertools.product(*[menu[c][1] for c in combo]):
                yield [[menu[c][0], v] for c, v in zip(combo, vals)]


def make_setup(project, cspec):
    """-> dict(config, mode, outdir(bool), root(bool), fw=dict)"""
    P = [project.base(f'p{i}') for i in range(project.n)]
    default = dict(role='kernel', expand=True, strict=True, enable_imports=False, mode=MODE)
    routines = {P[0]: dict(role='driver')}
    st = dict(mode=MODE, outdir=True, root=False, fw={})
    for sw, v in cspec:
        if sw == 'role':
            routines.setdefault(P[v], {})['role'] = 'driver'
        elif sw == 'replicate':
            if v == 'default':
                default['replicate'] = True
            else:
                routines.setdefault(P[v], {})['replicate'] = True
        elif sw == 'lib':
            if v == 'default':
                default['lib'] = 'liba'
            else:
                routines.setdefault(P[v], {})['lib'] = 'libb'
        elif sw == 'mode':
            if v == 'alt':
                st['mode'] = 'alt'
            elif v == 'dash':
                st['mode'] = 'a-b'
            else:
                routines.setdefault(P[v], {})['mode'] = 'pr'
        elif sw == 'outdir':
            st['outdir'] = False
        elif sw == 'root':
            st['root'] = True
        elif sw == 'suffix':
            st['fw']['suffix'] = v
        elif sw == 'modimports':
            st['fw']['include_module_var_imports'] = True
            default['enable_imports'] = True
        elif sw in ('ignore', 'block', 'disable'):
            default[sw] = list(default.get(sw, [])) + [P[v]]
        elif sw == 'strict0':
            default['strict'] = False
        else:
            raise KeyError(sw)
    default['mode'] = st['mode']
    st['config'] = dict(default=default, routines=routines)
    return st


def real_steps(project, pl):
    out = []
    for s in pl:
        if s[0] in ('dup', 'rem'):
            s = [s[0], project.base(f'p{s[1]}')] + list(s[2:])
        out.append(list(s))
    return out


# ----------------------------------------------------------------------------- running both modes
_PLAN_RE = re.compile(r'set\(\s*(\w+)\s*(.*?)\s*\)', re.DOTALL)


def read_plan(path, base):
    lists = {}
    for k, v in _PLAN_RE.findall(Path(path).read_text()):
        ent = []
        for tok in v.split():
            p = Path(tok)
            if not p.is_absolute():
                p = Path(base) / p
            ent.append(str(Path(os.path.normpath(p))))
        lists[k] = ent
    return lists


def listing(d):
    return {str(p) for p in Path(d).rglob('*') if p.is_file()}


def run_api(project, src, out, st, steps, planfile):
    """-> (plan_lists | ('raised', msg), written | ('raised', msg))"""
    from loki.batch import Scheduler, ProcessingStrategy
    from loki.transformations.build_system import FileWriteTransformation
    outdir = out if st['outdir'] else None
    try:
        s = Scheduler(paths=[src], config=json.loads(json.dumps(st['config'])), full_parse=False, output_dir=outdir)
        for step in steps:
            s.process(b2.make_step(step), proc_strategy=ProcessingStrategy.PLAN)
        s.process(FileWriteTransformation(**st['fw']), proc_strategy=ProcessingStrategy.PLAN)
        s.write_cmake_plan(planfile, rootpath=src if st['root'] else None)
        plan = read_plan(planfile, src)
    except Exception as e:   # pylint: disable=broad-except
        plan = ('raised', f'{type(e.__cause__ or e).__name__}: {e.__cause__ or e}')
    before = listing(src) | listing(out)
    try:
        s = Scheduler(paths=[src], config=json.loads(json.dumps(st['config'])), full_parse=True, output_dir=outdir)
        for step in steps:
            s.process(b2.make_step(step))
        s.process(FileWriteTransformation(**st['fw']))
        written = (listing(src) | listing(out)) - before
    except Exception as e:   # pylint: disable=broad-except
        written = ('raised', f'{type(e.__cause__ or e).__name__}: {e.__cause__ or e}')
    return plan, written


def run_cli(project, src, out, st, steps, planfile, cfgfile):
    from click.testing import CliRunner
    from loki.cli.loki_transform import cli
    cfg = json.loads(json.dumps(st['config']))
    trafos, names = {}, []
    for k, step in enumerate(steps):
        name, tab = b2.step_toml(step, k)
        trafos[name] = tab
        names.append(name)
    if st['fw']:
        trafos['FileWriteTransformation'] = dict(classname='FileWriteTransformation', module='loki.transformations.build_system',
                                                 options=dict(st['fw']))
    cfg['transformations'] = trafos
    cfg['pipelines'] = {st['mode']: dict(transformations=names)}
    Path(cfgfile).write_text(b2.toml_dump(cfg))
    common = ['--mode', st['mode'], '--config', str(cfgfile), '--source', str(src), '--log-level', 'error']
    if st['outdir']:
        common += ['--build', str(out)]
    if st['root']:
        common += ['--root', str(src)]
    try:
        r = CliRunner().invoke(cli, ['plan'] + common + ['--plan-file', str(planfile)], catch_exceptions=True)
        if r.exit_code != 0 or r.exception is not None:
            e = r.exception
            plan = ('raised', f'{type(getattr(e, "__cause__", None) or e).__name__}: {getattr(e, "__cause__", None) or e}')
        else:
            plan = read_plan(planfile, src)
        before = listing(src) | listing(out)
        r = CliRunner().invoke(cli, ['convert'] + common, catch_exceptions=True)
        if r.exit_code != 0 or r.exception is not None:
            e = r.exception
            written = ('raised', f'{type(getattr(e, "__cause__", None) or e).__name__}: {getattr(e, "__cause__", None) or e}')
        else:
            written = (listing(src) | listing(out)) - before
    finally:
        bg.quiet_loki()
    return plan, written


# ----------------------------------------------------------------------------- oracle
_RE_MODVAR = re.compile(r'(?im)^\s*integer\s*::\s*(mv_[a-z0-9_]+)')


def tokens_of(text):
    return b2.markers_of(text) | set(m.lower() for m in _RE_MODVAR.findall(text))


def predicted_lib(project, config, j):
    """'<lib>' | None (no library) | '?' (depends on the discovery path)"""
    P = [project.base(f'p{i}') for i in range(project.n)]
    routines = config['routines']
    explicit = {i: routines.get(P[i], {}).get('lib') for i in range(project.n)}
    default = config['default'].get('lib')
    drivers = [i for i in range(project.n) if routines.get(P[i], {}).get('role') == 'driver']
    memo = {}

    def lib(i, stack=()):
        if explicit[i]:
            return explicit[i]
        if i in drivers:
            return default
        parents = [a for a in range(project.n) if i in project.procs[a].calls and a != i and a not in stack]
        vals = {lib(a, stack + (i,)) for a in parents}
        if not vals:
            return default
        return vals.pop() if len(vals) == 1 else '?'
    return lib(j)


def judge(project, src, st, plan, written, orig_files):
    """-> (failclass, detail) | None"""
    if isinstance(written, tuple):
        return None
    if isinstance(plan, tuple):
        return (f'plan-raised {bg.role_text(project, plan[1])[:80]}', f'planning mode raised {plan[1]} while the conversion wrote {sorted(written)}')
    for k in ('LOKI_SOURCES_TO_TRANSFORM', 'LOKI_SOURCES_TO_APPEND', 'LOKI_SOURCES_TO_REMOVE'):
        if k not in plan:
            return ('plan-file-lacks-list', f'{k} missing from the plan file')
    rel = lambda p: os.path.relpath(p, os.path.dirname(str(src)))
    W = {str(Path(os.path.normpath(w))) for w in written}
    A, T, R = (set(plan[k]) for k in ('LOKI_SOURCES_TO_APPEND', 'LOKI_SOURCES_TO_TRANSFORM', 'LOKI_SOURCES_TO_REMOVE'))
    orig = {str(Path(os.path.normpath(Path(src) / f))): t for f, t in orig_files.items()}
    otok = {f: tokens_of(t) for f, t in orig.items()}
    wtok = {}
    for w in W:
        try:
            wtok[w] = tokens_of(Path(w).read_text())
        except OSError:
            wtok[w] = set()
    derives = {w: {f for f in orig if otok[f] & wtok[w]} for w in W}
    stem = lambda p: os.path.basename(p).split('.')[0]

    def kind_of(w):
        fs = derives.get(w, set())
        if any(stem(f) == stem(w) for f in fs):
            return 'transformed-original'
        return 'duplicate-under-new-name' if fs else 'unrelated'
    if W - A:
        w = sorted(W - A)[0]
        return (f'append-lacks-written-file kind={kind_of(w)}',
                f'the conversion wrote {rel(w)} but LOKI_SOURCES_TO_APPEND is {sorted(map(rel, A))}')
    if A - W:
        a = sorted(A - W)[0]
        return ('append-lists-unwritten-file' + (' never-written-stem' if stem(a) not in {stem(w) for w in W} else ' other-name'),
                f'LOKI_SOURCES_TO_APPEND lists {rel(a)}, the conversion wrote {sorted(map(rel, W))}')
    Texp = set().union(*derives.values()) if derives else set()
    if Texp - T:
        f = sorted(Texp - T)[0]
        ws = sorted(rel(w) for w in W if f in derives[w])
        only_dup = all(stem(w) != stem(f) for w in W if f in derives[w])
        return ('transform-lacks-original' + (' only-duplicate-written' if only_dup else ''),
                f'{ws} derive from {rel(f)} but LOKI_SOURCES_TO_TRANSFORM is {sorted(map(rel, T))}')
    if T - Texp:
        f = sorted(T - Texp)[0]
        return ('transform-lists-underived-file' + ('' if f in orig else ' not-an-original'),
                f'LOKI_SOURCES_TO_TRANSFORM lists {rel(f)}; no written file derives from it (written: {sorted(map(rel, W))})')
    # replaced rather than replicated
    P = [project.base(f'p{i}') for i in range(project.n)]
    cfg = st['config']
    drep = bool(cfg['default'].get('replicate', False))
    rep_of = lambda i: bool(cfg['routines'].get(P[i], {}).get('replicate', drep))
    for f in sorted(orig):
        rf = os.path.relpath(f, str(src))
        procs_in_f = [pr.idx for pr in project.procs if pr.file == rf]
        vals = {rep_of(i) for i in procs_in_f}
        if any(m.file == rf for m in project.modules.values()):
            vals.add(drep)
        replaced = any(f in derives[w] and stem(w) == stem(f) for w in W)
        if replaced and len(vals) > 1:
            continue        # units of one file disagree about `replicate`: don't-care
        want = replaced and vals == {False}
        if want and f not in R:
            return ('remove-lacks-replaced-original',
                    f'{rel(f)} is replaced by a written file and not replicated, LOKI_SOURCES_TO_REMOVE is {sorted(map(rel, R))}')
        if not want and f in R:
            why = 'replicated' if replaced else 'not-replaced'
            return (f'remove-lists-{why}-original', f'LOKI_SOURCES_TO_REMOVE lists {rel(f)} which is {why} (written: {sorted(map(rel, W))})')
    for f in sorted(R - set(orig)):
        return ('remove-lists-nonexistent-file', f'LOKI_SOURCES_TO_REMOVE lists {rel(f)}, which is not an original source')
    # per-library lists
    libs = {v for v in [cfg['default'].get('lib')] + [r.get('lib') for r in cfg['routines'].values()] if v}
    for lib in sorted(libs):
        key = f'LOKI_SOURCES_TO_APPEND_{lib}'
        AL = set(plan.get(key, []))
        if AL - A:
            return ('library-append-not-in-global-list', f'{key} has {sorted(map(rel, AL - A))} which the global list lacks')
        for w in sorted(W):
            if kind_of(w) != 'transformed-original':
                continue
            f = next(f for f in derives[w] if stem(f) == stem(w))
            rf = os.path.relpath(f, str(src))
            # every unit of the original file counts (a unit may have been dropped from the written text): units of one
            # file with different libraries make the file's library a matter of item order -> don't-care
            preds = {predicted_lib(project, cfg, pr.idx) for pr in project.procs if pr.file == rf}
            if len(preds) != 1 or '?' in preds:
                continue
            pl = preds.pop()
            if pl == lib and w not in AL:
                return ('library-append-lacks-file', f'{rel(w)} belongs to library {lib} but {key} is {sorted(map(rel, AL))}')
            if pl != lib and w in AL:
                return ('library-append-lists-foreign-file', f'{rel(w)} belongs to library {pl} but is listed in {key}')
    return None


def run_case(case, base=None):
    """-> dict(kind=ok|fail|convfail|na, fc, detail, nwritten, ndup, nremoved)"""
    project = b2.build_project2(case['p'])
    if project is None:
        return dict(kind='na')
    if any(s[0] in ('dup', 'rem') and s[1] >= project.n for s in case['pl']):
        return dict(kind='na')
    d = Path(tempfile.mkdtemp(prefix='c24_', dir=base or ('/dev/shm' if Path('/dev/shm').is_dir() else None)))
    try:
        bg.quiet_loki()
        src, out = d / 'src', d / 'out'
        project.write(src)
        out.mkdir()
        st = make_setup(project, case.get('c', []))
        steps = real_steps(project, case['pl'])
        with bg.discovery_order(None):     # `list(set(paths))` in Scheduler._discover: order pinned (sorted)
            if case.get('path') == 'cli':
                plan, written = run_cli(project, src, out, st, steps, d / 'plan.cmake', d / 'loki.config')
            else:
                plan, written = run_api(project, src, out, st, steps, d / 'plan.cmake')
        res = dict(kind='ok', fc=None, detail=None, nwritten=0, ndup=0, nremoved=0)
        if isinstance(written, tuple):
            res['kind'] = 'convfail'
            res['detail'] = written[1]
            return res
        bad = judge(project, src, st, plan, written, project.files)
        res['nwritten'] = len(written)
        stems = {os.path.basename(f).split('.')[0] for f in project.files}
        res['ndup'] = sum(1 for w in written if os.path.basename(w).split('.')[0] not in stems)
        res['nremoved'] = 1 if len(written) < len(project.files) else 0
        res['lists'] = None if isinstance(plan, tuple) else tuple(len(set(plan.get(k, ()))) for k in
                                                                 ('LOKI_SOURCES_TO_APPEND', 'LOKI_SOURCES_TO_TRANSFORM', 'LOKI_SOURCES_TO_REMOVE'))
        if bad:
            res.update(kind='fail', fc=bad[0] + (' path=cli' if case.get('path') == 'cli' else ''), detail=bad[1])
        return res
    finally:
        shutil.rmtree(d, ignore_errors=True)


def _cpu():
    import resource
    a, b = resource.getrusage(resource.RUSAGE_SELF), resource.getrusage(resource.RUSAGE_CHILDREN)
    return a.ru_utime + a.ru_stime + b.ru_utime + b.ru_stime


def setup_process():
    from vf import lokiperf
    lokiperf.speedup()      # memoises inspect.getfullargspec per visitor method: no behavioural change
    bg.quiet_loki()


def work(unit):
    setup_process()
    res = collections.Counter()
    fails, shapes = [], set()
    why = collections.Counter()
    t0 = _cpu()
    for case in unit:
        r = run_case(case, _CFG.get('scratch'))
        res['cases'] += 1
        res[r['kind']] += 1
        if r['kind'] in ('ok', 'fail'):
            res['written'] += r['nwritten']
            res['with_duplicate_file'] += 1 if r['ndup'] else 0
            res['with_fewer_files'] += r['nremoved']
            if r.get('lists'):
                shapes.add(r['lists'])
        if r['kind'] == 'fail':
            fails.append((r['fc'], case, r['detail']))
        if r['kind'] == 'convfail':
            project = b2.build_project2(case['p'])
            why[bg.role_text(project, r['detail'])[:100] + ' | ' + '+'.join(b2.step_label(s) for s in case['pl'])] += 1
    res['cpu'] = _cpu() - t0
    return dict(res=dict(res), fails=fails, shapes=sorted(shapes), why=dict(why))


# ----------------------------------------------------------------------------- shrinking / signatures
def norm_case(case):
    return dict(p=b2.pspec2_json(case['p']), c=sorted([list(x) for x in case.get('c', [])], key=repr),
                pl=[list(s) for s in case['pl']], path=case.get('path', 'api'))


def smaller(case):
    c = norm_case(case)
    if c['path'] == 'cli':
        yield dict(c, path='api')
    for k in range(len(c['c'])):
        yield dict(c, c=c['c'][:k] + c['c'][k + 1:])
    for k in range(len(c['pl'])):
        yield dict(c, pl=c['pl'][:k] + c['pl'][k + 1:])
    for k, s in enumerate(c['pl']):
        if s[0] == 'dup' and s[2]:
            yield dict(c, pl=c['pl'][:k] + [[s[0], s[1], False]] + c['pl'][k + 1:])
        if s[0] == 'dep' and s[1]:
            yield dict(c, pl=c['pl'][:k] + [['dep', None]] + c['pl'][k + 1:])
        if s[0] in ('dup', 'rem') and s[1] > 1:
            yield dict(c, pl=c['pl'][:k] + [[s[0], 1] + s[2:]] + c['pl'][k + 1:])
    if c['p'].get('decl', 'implicit') != 'implicit':
        yield dict(c, p=dict(c['p'], decl='implicit'))
    used = [s[1] for s in c['pl'] if s[0] in ('dup', 'rem')] + [v for s, v in c['c'] if isinstance(v, int) and not isinstance(v, bool)]
    for sm in bg.smaller_cases(dict(p={k: v for k, v in c['p'].items() if k != 'decl'}, c=[], o=None)):
        if sm['p']['n'] <= max(used + [0]):
            continue
        yield dict(c, p=dict(sm['p'], decl=c['p'].get('decl', 'implicit')))


def fails_as(case):
    r = run_case(case)
    _LAST['detail'] = r.get('detail')
    return r.get('fc') if r['kind'] == 'fail' else None


_LAST = {}


def signature_of(fc, core):
    c = norm_case(core)
    p = c['p']
    a = ['pipeline=' + ('+'.join(b2.step_label(s) for s in c['pl']) or 'none')]
    if p['layout'] != 'free':
        a.append(f'layout={p["layout"]}')
    if p['imp'] != 'only':
        a.append(f'import={p["imp"]}')
    if p.get('decl', 'implicit') != 'implicit':
        a.append(f'decl={p["decl"]}')
    for f in sorted({f[0] for f in p['features']}):
        a.append(f'feature={f}')
    for s, v in c['c']:
        a.append(f'config={s}' + (f':{v}' if isinstance(v, str) else ''))
    return f'{fc} | ' + ' '.join(a)


def shrink_one(item):
    fc, case = item

    def still(c):
        try:
            return fails_as(c) is not None
        except Exception:   # pylint: disable=broad-except
            return False
    core = shrink(norm_case(case), still, smaller, budget=40)
    got = fails_as(core)
    return core, got or fc, _LAST.get('detail') or ''


def attr_key(case):
    c = norm_case(case)
    p = c['p']
    return json.dumps([b2.layout_class(p), p['imp'], p.get('decl'), sorted(f[0] for f in p['features']),
                       [b2.step_label(s) for s in c['pl']], sorted(s for s, _ in c['c']), c['path']])


# ----------------------------------------------------------------------------- driver
def chunks(lst, k):
    return [lst[i:i + k] for i in range(0, len(lst), k)]


def run(ctx):
    from vf.explore import seeded_order
    _CFG['scratch'] = str(ctx.scratch)
    ctx.reset_pool()
    setup_process()
    names = ctx.seed % len(bg.NAME_POOLS)
    f0 = list(b2.enumerate_projects2(3, names=names))
    core_layouts = ('free', 'ownmod', 'shared', 'mixed', 'allmod', 'bundle_mixed', 'onefile', 'casedirs')
    core = [s for s in f0 if s['imp'] == 'only' and s['layout'] in core_layouts and s['n'] == 3 and len(s['edges']) >= 2]
    chain, full = [[0, 1], [1, 2]], [[0, 1], [0, 2], [1, 2]]
    core2 = [s for s in core if s['edges'] in (chain, full)]
    corefull = [s for s in core if s['edges'] == full]
    dev = lambda n, k: [c for c in enumerate_cspecs(n, k) if len(c) == k]
    mk = lambda ps, pls, cs, path='api': [dict(p=s, c=c, pl=pl, path=path) for s in ps for pl in pls(s['n']) for c in cs(s['n'])]
    allpipes, single = (lambda n: pipelines(n, 1)), (lambda n: pipelines(n, 0))
    stages = [('A: every project (call DAG on <=3 procedures x layout x import style x declaration style) x every pipeline; '
               'base configuration; API', mk(f0, allpipes, lambda n: [[]]))]
    if ctx.quick:
        stages += [
            ('B: core projects (n=3, chain and complete DAG, ONLY imports, 8 layouts, both declaration styles) x 6 core pipelines x '
             'exactly one configuration deviation; API', mk(core2, CORE_PIPES, lambda n: dev(n, 1))),
            ('C: CLI replay (loki_transform plan / convert via CliRunner): core projects with the complete DAG x 6 core pipelines x '
             '<= 1 configuration deviation', mk(corefull, CORE_PIPES, lambda n: dev(n, 0) + dev(n, 1), 'cli')),
        ]
    else:
        f1 = [dict(s, decl='implicit') for s in bg.enumerate_projects(3, feature_budget=1, names=names)
              if s['features'] and s['n'] >= 2 and len(s['edges']) == s['n'] * (s['n'] - 1) // 2]
        corekeys = {json.dumps(s, sort_keys=True) for s in core}
        rest = [s for s in f0 if json.dumps(s, sort_keys=True) not in corekeys]
        stages += [
            ('B1: core projects (n=3, >=2 edges, ONLY imports, 8 layouts, both declaration styles) x 6 core pipelines x exactly one '
             'configuration deviation; API', mk(core, CORE_PIPES, lambda n: dev(n, 1))),
            ('B2: core projects with the complete DAG x 3 pipelines (none, dup+subgraph, dup+rem) x exactly two configuration '
             'deviations; API', mk(corefull, PIPES3, lambda n: dev(n, 2))),
            ('C: CLI replay (loki_transform plan / convert via CliRunner): core projects with the chain or complete DAG x 6 core '
             'pipelines x <= 1 configuration deviation', mk(core2, CORE_PIPES, lambda n: dev(n, 0) + dev(n, 1), 'cli')),
            ('D: complete-DAG projects with exactly one feature (type-bound, generic, module variable, recursion, external, ...) x '
             'single-step pipelines and wrap+dep; base configuration and FileWrite include_module_var_imports; API',
             mk(f1, single, lambda n: [[], [['modimports', True]]])),
            ('E: all other projects x 3 pipelines (dep, dup+subgraph, rem) x exactly one configuration deviation; API',
             mk(rest, PIPES3E, lambda n: dev(n, 1))),
        ]
    d = 1 if ctx.quick else 2
    total = collections.Counter()
    failures, done, shapes = [], [], set()
    why = collections.Counter()
    for title, cases in stages:
        units = seeded_order(chunks(cases, 6), ctx.seed)
        t0 = ctx.elapsed()
        results = ctx.pmap(work, units, chunksize=1)
        stc = collections.Counter()
        for r in results:
            stc.update(r['res'])
            failures.extend(r['fails'])
            shapes.update(tuple(x) for x in r['shapes'])
            why.update(r['why'])
        total.update(stc)
        done.append(dict(stage=title, cases=stc['cases'], judged=stc['ok'] + stc['fail'], conversion_failed=stc['convfail'],
                         failing=stc['fail'], wall_s=round(ctx.elapsed() - t0, 1), cpu_s=round(stc['cpu'], 1)))
        if os.environ.get('VERIF_PROGRESS'):
            import sys
            print(f'[C24] {done[-1]}', file=sys.stderr, flush=True)
    ctx.require(total['ok'] + total['fail'] >= 1000, f'vacuous: only {total["ok"] + total["fail"]} judged cases')
    ctx.require(total['with_duplicate_file'] >= 50 and total['with_fewer_files'] >= 50,
                f'vacuous: item-creating / item-removing pipelines had no effect on the written files '
                f'({total["with_duplicate_file"]}, {total["with_fewer_files"]})')
    buckets = {}
    for fc, case, det in failures:
        buckets.setdefault((fc, attr_key(case)), []).append((case, det))
    simple = lambda cd: (len(cd[0]['c']), len(cd[0]['pl']), cd[0]['p']['n'], len(cd[0]['p']['edges']),
                         bg.LAYOUTS.index(cd[0]['p']['layout']), json.dumps(norm_case(cd[0]), sort_keys=True))
    reps = [(fc, min(lst, key=simple)[0]) for (fc, ak), lst in sorted(buckets.items())]
    cores = ctx.pmap(shrink_one, reps, chunksize=1) if reps else []
    first = {}
    rest = []
    for ((fc, ak), lst), (core_case, core_fc, core_det) in zip(sorted(buckets.items()), cores):
        sig = signature_of(core_fc, core_case)
        if sig not in first:
            first[sig] = (sig, core_case, core_det)
        rest += [(sig, case, det) for case, det in lst]
    for sig, case, det in list(first.values()) + rest:
        ctx.violation(sig, case, det)
    ctx.cov.update(
        evaluations=total['cases'], distinct_nontrivial=total['ok'] + total['fail'], exhaustive=True,
        rule='case = (project, configuration, pipeline, entry path): one planning run (no full parse) and one real conversion '
             'of the same sources; distinct_nontrivial = cases whose conversion succeeded, so that the three CMake lists were '
             'compared with the directory listing and the markers in the written files',
        bound=dict(stages=done, nmax=3, layouts=bg.LAYOUTS, imports=bg.IMPORT_STYLES, decls=list(b2.DECLS),
                   config_deviation=d, config_switches=[s for s, _ in config_menu(3)], pipelines_n3=len(pipelines(3, 1)),
                   name_pool=names),
        samples=[dict(case=dict(p=core[0], c=[['replicate', 1]], pl=[['dup', 1, True], ['rem', 1]], path='api'),
                      config=make_setup(b2.build_project2(core[0]), [['replicate', 1]])['config'])],
        cli_cases=sum(st['cases'] for st in done if st['stage'].startswith('C:')),
        conversion_failed=total['convfail'], conversion_failure_reasons=dict(why.most_common(12)), files_written=total['written'],
        cases_with_duplicate_file=total['with_duplicate_file'], cases_with_fewer_files_than_sources=total['with_fewer_files'],
        distinct_plan_shapes=len(shapes), failure_buckets=len(buckets), cpu_s=round(total['cpu'], 1),
    )
    ctx.assumptions += [
        'derivation of a written file from an original is read off the generated markers (`<proc>` strings, `mv_<module>` variables)',
        '"replaced" = a derived file was written under the stem of the original; files whose units disagree on `replicate` '
        'and written files with a path-dependent library are don\'t-care',
        'a conversion that raises yields no ground truth and is only counted (C25 judges those pipelines)',
        'paths in the plan file are compared after normalisation relative to the source root; list order and repetitions are not judged',
    ]


def replay(case):
    setup_process()
    fc = fails_as(case)
    return f'{fc}: {_LAST.get("detail")}' if fc else None
