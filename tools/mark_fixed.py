#!/venv/bin/python
"""Developer tool: flip known-finding entries to status=fixed after the lead committed the fix in /repo.
usage: mark_fixed.py <ID> <commit> <signature-substring> [more substrings...]"""
import json, sys
from pathlib import Path
ROOT = Path(__file__).resolve().parent.parent
pid, commit, subs = sys.argv[1], sys.argv[2], sys.argv[3:]
f = ROOT / 'known_findings' / f'{pid}.json'
d = json.loads(f.read_text())
n = 0
for e in d:
    if e.get('status') == 'open' and any(s in e['signature'] for s in subs):
        e['status'] = 'fixed'
        e['commit'] = commit
        if not e['what'].startswith('fixed:'):
            e['what'] = f'fixed: property={pid} {commit} ' + e['what']
        n += 1
f.write_text(json.dumps(d, indent=1) + '\n')
print(f'{pid}: {n} entries marked fixed by {commit}')
