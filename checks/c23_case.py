"""C23  Batch processing does not depend on the letter case of names.

Part A (item-level laws, pure enumeration).  For every item class and every ordered pair of spellings of a
name that differ only in letter case (all 2^k case patterns of the name parts scope / local / binding):
`a == b`, `a == b.name`, `hash(a) == hash(b)`, `b in {a}`, `{a: 1}[b]`, `b in nx.DiGraph` holding a,
`item_cache[b.name] is a`, and `SchedulerConfig.match_item_keys(name, [key])` for every spelling of name and key.

Part B (differential).  Projects/configurations from vf/batchgen.py; the base is spelled all lower-case.  Every
variant within <= 2 case deviations is compared with the base: a deviation upper-cases one name at one site --
a procedure / module / type / binding / generic name in its definition, in the use sites inside one caller,
in the configuration entries, in the seed list; the file suffix (`.f90` -> `.F90`); the name-valued options of
the DuplicateKernel pipeline (kernel name, duplication suffix).  Observed, with names lower-cased (the
generated sources contain no upper-case text other than the deviations; marker literals are lower-case):
the dependency graph (items, kinds, ignore flags, edges), the processing log of a probe transformation
(item order, role, mode, targets; item graph and file graph), the graph and the by-name graph membership of
every item after the pipeline, and the written files (names and text).
Oracle: every observation of the variant equals that of the base.  Both runs use the same file discovery order.
"""
import collections
import itertools
import shutil
import tempfile
from pathlib import Path

from vf import batchgen as bg
from vf import batchrun as br

PROPERTY = 'C23'
LEVEL = 'exploration'
META = dict(
    engine='enum',
    technique='differential: every <=2-site letter-case variant of a generated project/config/option set vs its all-lower-case '
              'base on the real Scheduler + DuplicateKernel/FileWrite pipelines; exhaustive item-level ==/hash/membership laws',
    level_text='item zoo: every item class x every case pattern pair; projects: complete call DAG on 3 procedures x layouts x '
               'import styles x features x 2 configurations x every set of <=2 case deviations (bounds in the evidence): graph, '
               'processing log, post-pipeline graph and written code equal the base up to letter case',
    level_note='differential against the lower-case run of the same implementation (no reference model needed: the property is a '
               'relation between two runs); item laws are judged directly',
)

_CFG = {}


# ----------------------------------------------------------------------------- part A: item laws
def case_patterns(parts):
    """all spellings of the joined name where each part is lower, UPPER or Capitalised"""
    forms = [lambda s: s.lower(), lambda s: s.upper(), lambda s: s.capitalize()]
    out = []
    for combo in itertools.product(forms, repeat=len(parts)):
        out.append([f(p) for f, p in zip(combo, parts)])
    return out


def zoo():
    """(class name, [spellings])"""
    def join2(x):
        return f'{x[0]}#{x[1]}'
    z = []
    z.append(('ModuleItem', [p[0] for p in case_patterns(['phys_mod'])]))
    z.append(('FileItem', [p[0] for p in case_patterns(['/src/dir/phys_mod.f90'])]))
    z.append(('ProcedureItem', [join2(p) for p in case_patterns(['phys_mod', 'kern_a'])]))
    z.append(('ProcedureItem', ['#' + p[0] for p in case_patterns(['kern_a'])]))
    z.append(('TypeDefItem', [join2(p) for p in case_patterns(['phys_mod', 'state_t'])]))
    z.append(('InterfaceItem', [join2(p) for p in case_patterns(['phys_mod', 'gen_k'])]))
    z.append(('ProcedureBindingItem', [f'{p[0]}#{p[1]}%{p[2]}' for p in case_patterns(['phys_mod', 'state_t', 'run'])]))
    z.append(('ExternalItem', [join2(p) for p in case_patterns(['ext_mod', 'far_k'])]))
    return z


def item_laws(cls_name, na, nb):
    """-> list of violated law names for items a (name na) and b (name nb) of class cls_name"""
    import networkx as nx
    from loki.batch import item as I
    from loki.batch.item_factory import ItemFactory
    from loki.batch.configure import SchedulerConfig
    cls = getattr(I, cls_name)
    a, b = cls(na, source=None), cls(nb, source=None)
    bad = []
    if not a == b or not b == a:
        bad.append('eq')
    if not a == nb or not b == na:
        bad.append('eq-str')
    if hash(a) != hash(b):
        bad.append('hash')
    if b not in {a}:
        bad.append('set-membership')
    try:
        if {a: 1}[b] != 1:
            bad.append('dict-lookup')
    except KeyError:
        bad.append('dict-lookup')
    g = nx.DiGraph()
    g.add_node(a)
    if b not in g:
        bad.append('graph-membership')
    g.add_node(b)
    if len(g) != 1:
        bad.append('graph-duplicate-node')
    f = ItemFactory()
    f.item_cache[a.name] = a
    if f.item_cache.get(b.name) is not a or b.name not in f:
        bad.append('cache-lookup')
    if cls_name != 'FileItem':
        if not SchedulerConfig.match_item_keys(na, [nb]):
            bad.append('match-item-keys')
        local = nb[nb.index('#') + 1:] if '#' in nb else nb
        if not SchedulerConfig.match_item_keys(na, [local]):
            bad.append('match-item-keys-local')
    return bad


def run_item_laws(ctx):
    n = 0
    kinds = collections.Counter()
    for cls_name, names in zoo():
        for na, nb in itertools.permutations(names, 2):
            n += 1
            for law in item_laws(cls_name, na, nb)[:1]:      # later laws are consequences of the first broken one
                kinds[law] += 1
                # minimal witness: the pair that differs in the fewest characters comes first in the zoo order
                ctx.violation(f'item-law {law}', dict(kind='item', cls=cls_name, a=na, b=nb, law=law),
                              f'{cls_name}({na!r}) vs {cls_name}({nb!r}): law `{law}` does not hold')
    return n, kinds


# ----------------------------------------------------------------------------- part B: differential
MAN_ITEMS = dict(filter='all', reverse=False, ignored=True, filegraph=False, recurse=False, mode=None)
MAN_FILES = dict(filter='proc+mod', reverse=True, ignored=False, filegraph=True, recurse=True, mode=None)


def lower_order(project):
    """discovery order = files sorted by lower-cased relative path (same for base and variant)"""
    files = project.sorted_files
    want = sorted(files, key=lambda f: (f.lower(), f))
    return [files.index(f) for f in want]


def observe_all(case, workdir):
    """Everything the property talks about for one (project, configuration, options), names lower-cased."""
    from loki.batch import Pipeline, ProcessingStrategy
    from loki.transformations.build_system import FileWriteTransformation
    from loki.transformations.dependency import DuplicateKernel
    from checks.c22_sched_process import make_probe
    project = bg.build_project(case['p'])
    opt = case.get('opt') or {}
    src, out = Path(workdir) / 'src', Path(workdir) / 'out'
    shutil.rmtree(workdir, ignore_errors=True)
    out.mkdir(parents=True)
    project.write(src)
    made = bg.make_config(project, case.get('c', []))
    made['full_parse'] = True
    obs = collections.OrderedDict()
    rootstr = str(src).lower() + '/'

    def low(x):
        if isinstance(x, str):
            return x.lower().replace(rootstr, '')
        if isinstance(x, (list, tuple)):
            return tuple(low(v) for v in x)
        return x
    try:
        sched = bg.build_scheduler(src, project, made, lower_order(project), output_dir=out)
    except Exception as e:   # pylint: disable=broad-except
        obs['construct'] = 'raised ' + type(e).__name__ + ': ' + low(str(e))
        return obs, project
    obs['construct'] = 'ok'
    g = bg.observe_graph(sched)
    obs['graph-items'] = tuple(sorted(g['nodes'].items()))
    obs['graph-edges'] = tuple(sorted(g['edges']))
    for tag, man in (('log-items', MAN_ITEMS), ('log-files', MAN_FILES)):
        log = []
        try:
            sched.process_transformation(make_probe(man, log), proc_strategy=ProcessingStrategy.SEQUENCE)
            obs[tag] = low(log)
        except Exception as e:   # pylint: disable=broad-except
            obs[tag] = 'raised ' + type(e.__cause__ or e).__name__ + ': ' + low(str(e.__cause__ or e))
    try:
        if opt.get('pipeline') == 'dup':
            kern = project.base('p1')
            kern = kern.upper() if opt.get('kernel_upper') else kern
            suffix = '_DUP' if opt.get('suffix_upper') else '_dup'
            sched.process(Pipeline(classes=(DuplicateKernel, FileWriteTransformation),
                                   duplicate_kernels=(kern,), duplicate_suffix=suffix))
        else:
            sched.process(FileWriteTransformation())
        obs['pipeline'] = 'ok'
    except Exception as e:   # pylint: disable=broad-except
        obs['pipeline'] = 'raised ' + type(e.__cause__ or e).__name__ + ': ' + low(str(e.__cause__ or e))
        return obs, project
    g = bg.observe_graph(sched)
    obs['after-items'] = tuple(sorted(g['nodes'].items()))
    obs['after-edges'] = tuple(sorted(g['edges']))
    graph = sched.sgraph._graph   # pylint: disable=protected-access
    cls_of = {it.name.lower(): type(it) for it in sched.items}
    # graph membership by name: an item of the same class spelled in lower case must be found
    obs['after-membership'] = tuple(sorted(
        k for k, cls in cls_of.items() if (cls(k, source=None) if cls.__name__ != 'ExternalItem' else cls(k, None)) in graph))
    obs['after-cache'] = tuple(sorted(low(k) for k, it in sched.item_factory.item_cache.items()
                                      if sched.item_factory.item_cache.get(it.name.lower()) is it))
    files = {}
    for f in sorted(out.rglob('*')):
        if f.is_file():
            files[str(f.relative_to(out)).lower()] = f.read_text().lower()
    obs['written-names'] = tuple(sorted(files))
    obs['written-text'] = tuple(sorted(files.items()))
    return obs, project


def base_of(case):
    p = dict(bg.pspec_json(case['p']))
    p['casing'] = []
    if p['layout'] == 'F90':
        p['layout'] = 'free'
    opt = dict(case.get('opt') or {})
    opt.pop('kernel_upper', None)
    opt.pop('suffix_upper', None)
    return dict(p=p, c=case.get('c', []), o=None, opt=opt)


def site_kinds(case):
    ks = sorted({f'{c[0][0]}:{c[1].split("@")[0]}' for c in bg.pspec_json(case['p'])['casing']})
    opt = case.get('opt') or {}
    if bg.pspec_json(case['p'])['layout'] == 'F90':
        ks.append('file:suffix')
    ks += [f'opt:{k}' for k in ('kernel_upper', 'suffix_upper') if opt.get(k)]
    return ks


_BASE_CACHE = {}


def diff_case(case, workdir, use_cache=True):
    """-> (failclass, detail) | None"""
    b = base_of(case)
    key = bg.case_key(b) + repr(sorted((b.get('opt') or {}).items()))
    if use_cache and key in _BASE_CACHE:
        bobs = _BASE_CACHE[key]
    else:
        bobs, _ = observe_all(b, Path(workdir) / 'base')
        if use_cache:
            if len(_BASE_CACHE) > 200:
                _BASE_CACHE.clear()
            _BASE_CACHE[key] = bobs
    vobs, project = observe_all(case, Path(workdir) / 'var')
    for aspect in bobs:
        if aspect not in vobs:
            return (f'{aspect}: missing in variant (variant stopped at {list(vobs)[-1]}={str(list(vobs.values())[-1])[:80]})'
                    if False else f'variant fails where base works: {bg.role_text(project, str(list(vobs.values())[-1]))[:90]}',
                    f'base reached {aspect}, the variant stopped: {list(vobs.items())[-1]}')
        if bobs[aspect] != vobs[aspect]:
            bv, vv = bobs[aspect], vobs[aspect]
            if isinstance(bv, tuple) and isinstance(vv, tuple):
                only_b = [x for x in bv if x not in vv][:3]
                only_v = [x for x in vv if x not in bv][:3]
                det = f'only in base: {only_b}; only in variant: {only_v}' if (only_b or only_v) else \
                    f'same entries in a different order: base {bv} variant {vv}'
            else:
                det = f'base {bv!r} variant {vv!r}'
            return (f'{aspect} differs', f'{aspect}: {str(det)[:1500]}')
    for aspect in vobs:
        if aspect not in bobs:
            return ('base fails where variant works', f'variant reached {aspect}, the base stopped: {list(bobs.items())[-1]}')
    return None


def case_sites(project, cspec):
    """Every (entity, site) at which a name of the project / configuration can be upper-cased."""
    sites = []
    n = project.n
    feats = {f[0]: f for f in project.features}
    made = bg.make_config(project, cspec)
    cfg_text = repr(made['config']).lower()
    for i in range(n):
        sites.append((f'p{i}', 'def'))
        for k in range(n):
            if i in project.procs[k].calls:
                sites.append((f'p{i}', f'use@{k}'))
        if project.base(f'p{i}') in cfg_text:
            sites.append((f'p{i}', 'cfg'))
        if project.base(f'p{i}') in [s.lower().split('#')[-1] for s in made['seeds']]:
            sites.append((f'p{i}', 'seed'))
    for mk, m in project.modules.items():
        sites.append((f'm:{mk}', 'def'))
        users = {k for k in range(n) for j in project.procs[k].calls if project.procs[j].modkey == mk and project.procs[k].modkey != mk}
        for k in sorted(users):
            sites.append((f'm:{mk}', f'use@{k}'))
        if m.name in cfg_text:
            sites.append((f'm:{mk}', 'cfg'))
    for kind, pre in (('typebound', 't'), ('typebound', 'b'), ('generic', 'g')):
        if kind in feats:
            j = feats[kind][1]
            sites.append((f'{pre}{j}', 'def'))
            for k in range(n):
                if j in project.procs[k].calls:
                    sites.append((f'{pre}{j}', f'use@{k}'))
    return sites


def variants(pspec, cspec, pipeline, d):
    """all cases within <= d case deviations of the lower-case base (base itself excluded)"""
    project = bg.build_project(pspec)
    devs = [('site', s) for s in case_sites(project, cspec)]
    if pspec['layout'] == 'free' and project.n >= 2:
        devs.append(('filesuffix', None))
    if pipeline == 'dup':
        devs += [('opt', 'kernel_upper'), ('opt', 'suffix_upper')]
    out = []
    for k in range(1, d + 1):
        for combo in itertools.combinations(devs, k):
            p = dict(bg.pspec_json(pspec))
            opt = dict(pipeline=pipeline)
            casing = []
            for kind, v in combo:
                if kind == 'site':
                    casing.append(list(v))
                elif kind == 'filesuffix':
                    p['layout'] = 'F90'
                else:
                    opt[v] = True
            p['casing'] = casing
            if bg.build_project(p) is None:
                continue
            out.append(dict(p=p, c=cspec, o=None, opt=opt))
    return out


def work(unit):
    bg.quiet_loki()
    wd = Path(_CFG['scratch']) / f'w{__import__("os").getpid()}'
    res = collections.Counter()
    fails = []
    for case in unit:
        res['variants'] += 1
        try:
            bad = diff_case(case, wd)
        except Exception as e:   # pylint: disable=broad-except
            bad = (f'harness: {type(e).__name__}', str(e))
        key = bg.case_key(base_of(case)) + repr(sorted((base_of(case).get('opt') or {}).items()))
        bobs = _BASE_CACHE.get(key, {})
        if bobs.get('pipeline') == 'ok':
            res['base_pipeline_ok'] += 1
        if bad:
            res['fail'] += 1
            fails.append((bad[0], case, bad[1]))
    return dict(res=dict(res), fails=fails)


def fails_as(case):
    if case.get('kind') == 'item':
        return None
    d = Path(tempfile.mkdtemp(prefix='c23_', dir='/dev/shm' if Path('/dev/shm').is_dir() else None))
    try:
        bg.quiet_loki()
        if bg.build_project(case['p']) is None:
            return None
        bad = diff_case(case, d, use_cache=False)
        _LAST['detail'] = bad[1] if bad else None
        return bad[0] if bad else None
    finally:
        shutil.rmtree(d, ignore_errors=True)


_LAST = {}


def smaller(case):
    opt = dict(case.get('opt') or {})
    for k in ('kernel_upper', 'suffix_upper'):
        if opt.get(k):
            o2 = dict(opt)
            del o2[k]
            yield dict(case, opt=o2)
    for c in bg.smaller_cases(case):
        c['opt'] = opt
        if opt.get('pipeline') == 'dup' and (c['p']['n'] < 2 or [0, 1] not in c['p']['edges']):
            continue
        yield c


def shrink_one(item):
    from vf.explore import shrink
    fc, case = item
    def still(c):
        try:
            r = fails_as(c)
        except Exception:   # pylint: disable=broad-except
            return False
        return r is not None
    n = bg.norm_case(case)
    n['opt'] = dict(case.get('opt') or {})
    core = shrink(n, still, smaller, budget=60)
    got = fails_as(core)
    return core, got or fc, _LAST.get('detail') or ''


def case_key(case):
    return bg.case_key(case) + ' opt=' + repr(sorted((case.get('opt') or {}).items()))


def project_menu(quick, names):
    full = [[0, 1], [0, 2], [1, 2]]
    P = lambda layout, imp='only', feats=(): dict(n=3, edges=full, layout=layout, imp=imp, features=[list(f) for f in feats],
                                                   casing=[], names=names)
    menu = [P('free'), P('ownmod'), P('shared', 'bare'), P('ownmod', 'renamed', [('typebound', 2)]),
            P('shared', 'only', [('generic', 2)])]
    if not quick:
        menu += [P('allmod'), P('ownmod', 'bare'), P('mixed', 'renamed'), P('bundle_mixed'), P('onemod'),
                 P('shared', 'bare', [('typebound', 1)]), P('ownmod', 'only', [('generic', 1)]), P('casedirs')]
    return menu


def config_menu(project):
    rich = [['ignore@default', [1, 'plain']], ['seed', ['+', 2, 'plain']], ['role', [1, 'driver']]]
    if project.in_module(2):
        rich.append(['block@r0', [2, 'scoped']])
    else:
        rich.append(['block@r0', [2, 'plain']])
    return [[], sorted(rich, key=repr)]


def run(ctx):
    from vf.explore import seeded_order
    _CFG['scratch'] = str(ctx.scratch)
    ctx.reset_pool()
    bg.quiet_loki()
    names = ctx.seed % len(bg.NAME_POOLS)
    n_laws, law_kinds = run_item_laws(ctx)
    cases = []
    plan = []
    for k, ps in enumerate(project_menu(ctx.quick, names)):
        project = bg.build_project(ps)
        ctx.require(project is not None, f'project menu entry not buildable: {ps}')
        for ci, cs in enumerate(config_menu(project)):
            for pipeline in ('write', 'dup'):
                # quick: pairs of deviations on the first two projects with the write pipeline and on the dup options
                d = 2 if (not ctx.quick or (k < 2 and ci == 1 and pipeline == 'write')) else 1
                vs = variants(ps, cs, pipeline, d)
                if ctx.quick and d == 1 and pipeline == 'dup':
                    vs += [v for v in variants(ps, cs, pipeline, 2)
                           if (v['opt'].get('kernel_upper') or v['opt'].get('suffix_upper')) and v not in vs]
                plan.append(dict(project=dict(layout=ps['layout'], imp=ps['imp'], features=ps['features']),
                                 config=ci, pipeline=pipeline, deviations=d, variants=len(vs)))
                cases += vs
    cases = seeded_order(cases, ctx.seed)
    # keep variants of the same base together so that the per-worker base cache is effective
    cases.sort(key=lambda c: case_key(base_of(c)))
    units = [cases[i:i + 12] for i in range(0, len(cases), 12)]
    deadline = br.stage_deadline(ctx)
    results, completed, ndone = br.staged_run(ctx, work, units, deadline)
    total = collections.Counter()
    failures = []
    for r in results:
        total.update(r['res'])
        failures.extend(r['fails'])
    if not completed:
        ctx.note(f'time cap reached after {ndone}/{len(units)} work units')
    ctx.require(total['variants'] >= 30, 'vacuous: too few variants')
    ctx.require(total['base_pipeline_ok'] > total['variants'] // 2,
                f'vacuous: the pipelines do not run on the lower-case base ({total["base_pipeline_ok"]}/{total["variants"]})')
    harness = [f for f in failures if f[0].startswith('harness')]
    ctx.require(not harness, f'harness exception while comparing: {harness[:1]}')
    # bucket and shrink
    buckets = {}
    for fc, case, det in failures:
        buckets.setdefault((fc, br.attr_key(case) + repr(sorted((case.get('opt') or {}).items()))), []).append((case, det))
    reps = []
    for key, lst in sorted(buckets.items()):
        lst.sort(key=lambda cd: (bg.case_size(cd[0]), repr(sorted((cd[0].get('opt') or {}).items()))))
        reps.append((key[0], lst[0][0]))
    cores = ctx.pmap(shrink_one, reps, chunksize=1) if reps else []
    first = {}
    rest = []
    for (key, lst), (core, core_fc, det) in zip(sorted(buckets.items()), cores):
        sig = br.signature_of(core_fc, core)
        if sig not in first or bg.case_size(core) < bg.case_size(first[sig][1]):
            first[sig] = (sig, core, det)
        rest += [(sig, c, d) for c, d in lst]
    for sig, case, det in list(first.values()) + rest:
        ctx.violation(sig, case, det)
    ctx.cov.update(
        evaluations=n_laws + total['variants'], distinct_nontrivial=total['base_pipeline_ok'] + n_laws,
        exhaustive=bool(completed),
        rule='item laws: every ordered pair of case patterns (lower/UPPER/Capitalised per name part) of every item class; '
             'differential: every set of <= d case deviations (one name at one site, file suffix, option spelling) of each '
             '(project, configuration, pipeline) of the menu vs the lower-case base; non-trivial = the base pipeline ran to '
             'completion and wrote files (so there is a graph, a log and code to compare)',
        bound=dict(plan=plan, item_pairs=n_laws, name_pool=names),
        samples=[cases[0] if cases else None, dict(kind='item', cls='ProcedureItem', a='phys_mod#kern_a', b='PHYS_MOD#kern_a')],
        item_law_pairs=n_laws, item_law_violations=dict(law_kinds), variants=total['variants'],
        failing_variants=total['fail'], failure_buckets=len(buckets),
    )
    ctx.assumptions += [
        'signatures: every failing case is reduced to a minimal failing case (any symptom); signature = symptom of that core + '
        'the attributes it still needs; Loki\'s 30 s wall-clock REGEX-frontend timeout is switched off (load-dependent)',
        'base and variant are run with the same file discovery order (files sorted by lower-cased path)',
        'generated sources contain no string literal whose case could legitimately differ',
    ]


def replay(case):
    if case.get('kind') == 'item':
        bad = item_laws(case['cls'], case['a'], case['b'])
        return f'laws violated: {bad}' if case['law'] in bad else None
    fc = fails_as(case)
    return f'{fc}: {_LAST.get("detail")}' if fc else None
