"""Shared pieces of the scheduler-driven single-column checks (C37 SCC pipelines, C38 temporaries).

* PARKIND        stub `parkind1` module (JPIM/JPRB/JPRM/JWIM/JPLM) - the convention of the repository's own SCC and
                 allocator tests; goes into a case's `extra` sources (compiled first, not processed by Loki, but
                 parsed and handed to the Scheduler as `definitions`, with `parkind1` on the config's ignore list -
                 exactly what loki/transformations/temporaries/tests/test_stack_allocator.py does).
* dimensions()   horizontal / vertical / block Dimension objects as configured in the repository tests.
* scheduler_apply(case, make_transformations)
                 writes the case's sources to a scratch directory, builds a real Scheduler (default role kernel,
                 routine `driver` role driver), processes every transformation / pipeline returned by
                 make_transformations() and returns {filename: transformed text} of the processed files.
* run_case(case, make_transformations, ...)
                 vf.xform.run_case for scheduler-driven cases without its two redundant FP parses of every source
                 (the Scheduler parses the files itself; the "changed" flag compares the Scheduler's own rendering of
                 each file before and after processing).  Builds are the one-file memoised builds of vf.xfast.
                 Verdicts, details and output comparison are those of vf.xform.run_case.
"""
import traceback
import os
import shutil
import tempfile

PARKIND = '''module parkind1
  implicit none
  integer, parameter :: jprb = selected_real_kind(13,300)
  integer, parameter :: jprm = selected_real_kind(6,37)
  integer, parameter :: jpim = selected_int_kind(9)
  integer, parameter :: jwim = selected_int_kind(9)
  integer, parameter :: jplm = jpim
end module parkind1
'''

SCHED_CONFIG = {
    'default': {'mode': 'idem', 'role': 'kernel', 'expand': True, 'strict': True, 'ignore': ['parkind1']},
    'routines': {'driver': {'role': 'driver'}},
}


def dimensions():
    from loki import Dimension
    horizontal = Dimension(name='horizontal', size='nlon', index='jl', bounds=('start', 'end'), aliases=('nproma',),
                           bounds_aliases=('dims%ist', 'dims%iend'))
    vertical = Dimension(name='vertical', size='nz', index='jk')
    block_dim = Dimension(name='block_dim', size='nb', index='b')
    return horizontal, vertical, block_dim


def scheduler_apply(case, make_transformations, seed='driver', prefix='scc_', optional=(), with_base=False):
    """-> {filename: text}; `optional`: source files that need not come back (pure type/constant modules);
    with_base: -> ({filename: text}, {filename: text before processing})"""
    from loki import Frontend, Sourcefile
    from loki.batch import Scheduler, SchedulerConfig
    base = '/dev/shm' if os.path.isdir('/dev/shm') and os.access('/dev/shm', os.W_OK) else None
    tmp = tempfile.mkdtemp(prefix=prefix, dir=base)
    try:
        src = os.path.join(tmp, 'src')
        ext = os.path.join(tmp, 'ext')
        os.mkdir(src)
        os.mkdir(ext)
        definitions = []
        for fname, text in case.get('extra', ()):
            with open(os.path.join(ext, fname), 'w') as fh:
                fh.write(text)
            definitions += list(Sourcefile.from_file(os.path.join(ext, fname), frontend=Frontend.FP, xmods=[tmp]).definitions)
        for fname, text in case['sources']:
            with open(os.path.join(src, fname), 'w') as fh:
                fh.write(text)
        config = SchedulerConfig.from_dict(SCHED_CONFIG)
        scheduler = Scheduler(paths=[src], config=config, seed_routines=[seed], frontend=Frontend.FP,
                              definitions=definitions, xmods=[tmp])
        def render():
            texts = {}
            for item in scheduler.items:
                source = getattr(item, 'source', None)
                path = getattr(source, 'path', None)
                if source is not None and path is not None and os.path.basename(str(path)) not in texts:
                    texts[os.path.basename(str(path))] = source.to_fortran()
            return texts
        before = render() if with_base else None
        for trafo in make_transformations():
            scheduler.process(transformation=trafo)
        out = render()
        names = [f for f, _ in case['sources']]
        missing = [f for f in names if f not in out and f not in optional]
        if missing:
            raise RuntimeError(f'harness: scheduler did not return {missing} (items: {[i.name for i in scheduler.items]})')
        out = {f: t for f, t in out.items() if f in names}
        return (out, before) if with_base else out
    finally:
        shutil.rmtree(tmp, ignore_errors=True)


def run_case(case, make_transformations, base=None, flags=None, keep_files=False, prefix='scc_', optional=()):
    """-> dict(verdict, detail, changed, transformed) exactly as vf.xform.run_case"""
    from vf import xform, xfast
    flags = xform.FLAGS if flags is None else flags
    xform.quiet()
    orig = xfast.merged_build_run(case['sources'], case['driver'], case.get('extra', ()), base=base, flags=flags)
    if not orig['ok']:
        return dict(verdict='HARNESS', detail=f'original fails at {orig["stage"]}: {orig["err"][-600:]}', changed=False)
    first_error = None
    try:
        try:
            ret, before = scheduler_apply(case, make_transformations, prefix=prefix, optional=optional, with_base=True)
        except Exception as ex1:  # pylint: disable=broad-except
            # one retry: Loki is deterministic, so a genuine exception is raised again; a transient failure of the
            # environment (the box is shared) must not masquerade as a verdict - it would only be caught later by the
            # runner's replay guard and abort the whole run as HARNESS-ERROR
            first_error = f'{type(ex1).__name__}: {str(ex1)[:200]}'
            ret, before = scheduler_apply(case, make_transformations, prefix=prefix, optional=optional, with_base=True)
    except Exception as ex:  # pylint: disable=broad-except
        tb = traceback.format_exc().strip().splitlines()
        where = next((ln.strip() for ln in reversed(tb) if ln.strip().startswith('File "') and '/loki/' in ln), '')
        if str(ex).startswith('harness:'):
            return dict(verdict='HARNESS', detail=str(ex), changed=False)
        if xform.is_refusal(ex):
            return dict(verdict='refused', detail=f'{type(ex).__name__}: {str(ex)[:200]}', changed=False)
        return dict(verdict='loki-exception', detail=f'{type(ex).__name__}: {str(ex)[:300]} @ {where}', changed=False)
    new = [[f, ret.get(f) or t] for f, t in case['sources']]
    changed = any(ret.get(f) is not None and ret[f] != before.get(f) for f, _ in case['sources'])
    res = xfast.merged_build_run(new, case['driver'], case.get('extra', ()), base=base, flags=flags)
    out = dict(changed=changed, transformed=new if keep_files else None)
    if first_error:
        out['transient_first_attempt_error'] = first_error
    if not res['ok']:
        kind = 'xform-compile-error' if res['stage'] == 'compile' else 'xform-run-error'
        out.update(verdict=kind, detail=_digest(res['err'] or ''))
        return out
    a, b = xform.norm_out(orig['out']), xform.norm_out(res['out'])
    if a != b:
        n = next((i for i, (x, y) in enumerate(zip(a, b)) if x != y), min(len(a), len(b)))
        out.update(verdict='output-differs',
                   detail=f'first difference at output line {n + 1}: original {a[n] if n < len(a) else "<eof>"!r} '
                          f'vs transformed {b[n] if n < len(b) else "<eof>"!r}')
        return out
    out.update(verdict='ok' if changed else 'unchanged-ok', detail='', nlines=len(a), distinct_lines=len(set(a)))
    return out


def _digest(err):
    """the informative part of a compiler / runtime message (AddressSanitizer reports are long)"""
    lines = err.splitlines()
    if 'AddressSanitizer' in err:
        keep = [ln.strip() for ln in lines if 'ERROR: AddressSanitizer' in ln or ln.startswith(('READ of', 'WRITE of'))
                or 'is located' in ln or 'SUMMARY' in ln]
        return ' | '.join(keep)[:900]
    lines = [ln for ln in lines if not ln.startswith('#') and 'Backtrace' not in ln]
    return '\n'.join(lines)[-900:]
