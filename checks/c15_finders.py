"""C15  Node and expression finders return exactly the matching nodes.

ENUM.  Space: the MF kernel stream (vf/mfgen.py) - every kernel is parsed with FP and searched
with every finder in every mode.  The oracle is the MF AST (known by construction, one statement
per line), never another Loki traversal:
  * FindNodes(cls) for every IR statement class: the lines of the returned nodes, in order, equal
    the pre-order list of MF statements of the corresponding kinds; greedy=True returns exactly
    those without an ancestor of the same kind.
  * FindVariables / FindInlineCalls / FindLiterals (unique=False, with_ir_node=True): per IR node
    (mapped by line) the multiset of names / call names / literal values equals the multiset of
    occurrences in the MF statement's own expressions (header expressions for compound statements).
  * unique=True equals the de-duplication of the unique=False result by the documented key
    (name, parent name, dimensions) and the plain result equals the union of the paired results
    (the modes differ only in the documented way).
  * declarations inside TYPE definitions are not found from the enclosing module.
Weaker readings taken: derived-type parents (`t` in `t%m`) may or may not be reported separately;
PRINT / unit-I/O statements (format strings, unit numbers) are not judged.
"""
import collections
import logging

from vf import mf, mfgen

PROPERTY = 'C15'
LEVEL = 'exploration'
META = dict(
    engine='enum',
    technique='bounded-exhaustive program enumeration; finder results vs occurrences known by construction from the generator AST',
    level_text='every MF kernel up to the length/nesting bound: FindNodes for every statement class (plain and greedy), '
               'FindVariables/FindInlineCalls/FindLiterals in all modes return exactly the occurrences the generator put there; '
               'exhaustive for the bound',
    level_note='oracle = generator AST (one statement per line, mapped through source.lines); derived-type parents and I/O statements not judged',
)
BATCH = 30

KIND2CLS = {
    'asg': 'Assignment', 'secasg': 'Assignment', 'whole': 'Assignment', 'do': 'Loop', 'while': 'WhileLoop',
    'if': 'Conditional', 'if1': 'Conditional', 'select': 'MultiConditional', 'where': 'MaskedStatement',
    'assoc': 'Associate', 'call': 'CallStatement', 'callshadow': 'CallStatement', 'comment': 'Comment', 'pragma': 'Pragma',
}
CLASSES = ['Assignment', 'Loop', 'WhileLoop', 'Conditional', 'MultiConditional', 'MaskedStatement', 'Associate',
           'CallStatement', 'Pragma']


def _quiet():
    logging.disable(logging.CRITICAL)


# ------------------------------------------------------------------ MF side: occurrences by construction
def expr_occ(e, acc):
    """accumulate occurrences of variables / calls / literals in MF expression e"""
    if e is None:
        return
    k = e[0]
    if k == 'i':
        acc['lit'].append(('int', abs(e[1])))
    elif k == 'r':
        acc['lit'].append(('real', e[1]))
    elif k == 'l':
        acc['lit'].append(('log', e[1]))
    elif k == 'v':
        acc['var'].append(e[1])
    elif k == 'e':
        acc['var'].append(e[1])
        expr_occ(e[2], acc)
    elif k == 'c':
        acc['var'].append(f'{e[1]}%{e[2]}')
    elif k == 'ce':
        acc['var'].append(f'{e[1]}%{e[2]}')
        expr_occ(e[3], acc)
    elif k == 'sec':
        acc['var'].append(e[1])
        expr_occ(e[2], acc)
        expr_occ(e[3], acc)
    elif k in ('par', 'neg', 'not'):
        expr_occ(e[1], acc)
    elif k in ('bin', 'cmp'):
        expr_occ(e[2], acc)
        expr_occ(e[3], acc)
    elif k in ('and', 'or'):
        expr_occ(e[1], acc)
        expr_occ(e[2], acc)
    elif k == 'fn':
        acc['call' if e[1] not in ('real', 'int') else 'cast'].append(e[1])
        for a in e[2]:
            expr_occ(a, acc)
    else:
        raise ValueError(e)


def own_exprs(s):
    """expressions that belong to the statement node itself (not to nested statements)"""
    k = s[0]
    if k == 'asg':
        return [s[1], s[2]]
    if k == 'secasg':
        return [('sec', s[1], s[2], s[3]), s[4]]
    if k == 'whole':
        return [('v', s[1]), s[2]]
    if k == 'do':
        return [('v', s[1]), s[2], s[3], s[4]]
    if k == 'while':
        return [s[1]]
    if k == 'if':
        return [s[1][0][0]]          # else-if conditions belong to the nested Conditional nodes
    if k == 'if1':
        return [s[1]]
    if k == 'select':
        out = [s[1]]
        for items, _ in s[2]:
            for it in items:
                if it[0] == 'val':
                    out.append(('i', it[1]))
                else:
                    out += [('i', x) for x in it[1:] if x is not None]
        return out
    if k == 'where':
        return [m for m, _ in s[1]]
    if k == 'assoc':
        out = []
        for n, e in s[1]:
            out += [e, ('v', n)]
        return out
    if k == 'call':
        return list(s[2])
    if k == 'callshadow':
        return [s[1], s[2]]
    return []


def walk(body, path=()):
    """pre-order (path, stmt, ancestors kinds)"""
    for i, s in enumerate(body):
        p = path + (i,)
        yield p, s
        k = s[0]
        if k == 'do':
            yield from walk(s[5], p)
        elif k in ('while', 'assoc'):
            yield from walk(s[2], p)
        elif k == 'if1':
            yield from walk([s[2]], p)
        elif k == 'if':
            for n, (c, b) in enumerate(s[1]):
                yield from walk(b, p + (('b', n),))
            if s[2] is not None:
                yield from walk(s[2], p + (('b', 'else'),))
        elif k == 'select':
            for n, (c, b) in enumerate(s[2]):
                yield from walk(b, p + (('b', n),))
            if s[3] is not None:
                yield from walk(s[3], p + (('b', 'default'),))
        elif k == 'where':
            for n, (c, b) in enumerate(s[1]):
                yield from walk(b, p + (('b', n),))
            if s[2] is not None:
                yield from walk(s[2], p + (('b', 'else'),))


def ancestors_kinds(body, path):
    from checks.c26_dataflow_sets import stmt_at
    out = []
    for n in range(1, len(path)):
        pre = path[:n]
        if isinstance(pre[-1], int):
            st = stmt_at(body, pre)
            if st:
                out.append(KIND2CLS.get(st[0]))
    return out


# ------------------------------------------------------------------ judge
def names_of(exprs):
    return collections.Counter(e.name.lower() for e in exprs)


def judge_batch(batch):
    _quiet()
    from loki import Sourcefile, Frontend, ir, FindNodes, FindVariables, FindInlineCalls, FindLiterals
    from loki.expression import symbols as sym
    text, info = mf.module_text('kmod', [(k, body) for k, (name, body) in batch])
    sf = Sourcefile.from_source(text, frontend=Frontend.FP)
    routines = {r.name.lower(): r for r in sf.all_subroutines}
    out = []
    # TypeDef: declarations of m, v must not be found from the module
    module = sf.modules[0]
    tdv = {v.name.lower() for v in FindVariables().visit(module.spec)}
    tdd = [d for d in FindNodes(ir.VariableDeclaration).visit(module.spec)]
    module_viol = []
    if tdv & {'m', 'v'} or tdd:
        module_viol.append(('typedef-body-searched', f'variables {sorted(tdv)} / declarations {len(tdd)} found inside TYPE from module spec'))
    for k, (name, body) in batch:
        r = routines[k]
        off, line_of = info[k]
        viols = list(module_viol)
        nchk = 0
        has_elseif = any(s[0] == 'if' and len(s[1]) > 1 for _, s in walk(body))
        stm = list(walk(body))
        line_of = dict(line_of)
        for p, s_ in stm:
            if s_[0] == 'if1' and p in line_of:
                line_of[p + (0,)] = line_of[p]     # the inner statement of a one-line IF shares its line
        # ---------------- FindNodes per class
        for cls in CLASSES:
            if cls == 'Conditional' and has_elseif:
                continue    # else-if branches are nested Conditionals without an MF line of their own
            want = [line_of[p] for p, s in stm if KIND2CLS.get(s[0]) == cls and p in line_of]
            got = [n.source.lines[0] for n in FindNodes(getattr(ir, cls)).visit(r.body)]
            nchk += 1
            if got != want:
                viols.append((f'FindNodes({cls}) plain', f'lines {got} != expected pre-order lines {want}'))
            wantg = [line_of[p] for p, s in stm if KIND2CLS.get(s[0]) == cls and p in line_of
                     and cls not in ancestors_kinds(body, p)]
            gotg = [n.source.lines[0] for n in FindNodes(getattr(ir, cls), greedy=True).visit(r.body)]
            nchk += 1
            if gotg != wantg:
                viols.append((f'FindNodes({cls}) greedy', f'lines {gotg} != expected outermost lines {wantg}'))
        # ---------------- expression finders per node
        line2path = {ln: p for p, ln in line_of.items() if not (len(p) > 1 and p[:-1] in line_of and line_of[p[:-1]] == ln)}
        if1 = {p for p, s in stm if s[0] == 'if1'}
        skip_lines = set()
        for p, s in stm:
            if s[0] in ('print', 'iounit') and p in line_of:
                skip_lines |= set(range(line_of[p], line_of[p] + 5))
        for finder, key, conv in (
                (FindVariables, 'var', lambda e: e.name.lower()),
                (FindInlineCalls, 'call', lambda e: e.function.name.lower()),
                (FindLiterals, 'lit', None)):
            pairs = finder(unique=False, with_ir_node=True).visit(r.body)
            per_node = collections.defaultdict(list)
            for node, exprs in pairs:
                src = getattr(node, 'source', None)
                if src is None:
                    continue
                per_node[(src.lines[0], type(node).__name__)] += list(exprs)
            seen_paths = set()
            for (ln, cls), exprs in per_node.items():
                if ln in skip_lines:
                    continue
                path = line2path.get(ln)
                if path is None:
                    continue
                if path in if1 and cls != 'Conditional':
                    path = path + (0,)
                from checks.c26_dataflow_sets import stmt_at
                st = stmt_at(body, path)
                if st is None or st[0] in ('print', 'iounit', 'comment', 'pragma', 'exit', 'cycle'):
                    continue
                if st[0] == 'if' and cls == 'Conditional' and len(st[1]) > 1 and path in seen_paths:
                    continue
                seen_paths.add(path)
                acc = dict(var=[], call=[], lit=[], cast=[])
                for e in own_exprs(st):
                    expr_occ(e, acc)
                nchk += 1
                if key == 'lit':
                    got = collections.Counter()
                    for e in exprs:
                        if isinstance(e, sym.IntLiteral):
                            got[('int', abs(e.value))] += 1
                        elif isinstance(e, sym.FloatLiteral):
                            got[('real', str(e.value))] += 1
                        elif isinstance(e, sym.LogicLiteral):
                            got[('log', bool(e.value))] += 1
                    want = collections.Counter(acc['lit'])
                    if st[0] == 'do' and st[7]:
                        pass
                else:
                    got = collections.Counter(conv(e) for e in exprs)
                    want = collections.Counter(acc[key])
                    if key == 'var':
                        # derived-type parents may be reported separately (not judged)
                        for nm in list(got):
                            if nm == mf.DT_VAR and nm not in want:
                                del got[nm]
                if got != want:
                    miss = want - got
                    extra = got - want
                    kind = 'missing' if miss and not extra else 'extra' if extra and not miss else 'both'
                    viols.append((f'{finder.__name__} {kind} in {cls} stmt={st[0]}',
                                  f'line {ln} `{text.splitlines()[ln - 1].strip()}`: found {dict(got)}, by construction {dict(want)}'))
            # ---------------- modes differ only in the documented way
            flat = finder(unique=False).visit(r.body)
            uniq = finder(unique=True).visit(r.body)
            nchk += 2

            def dkey(v):
                if isinstance(v, (sym.Scalar, sym.Array)):
                    return (v.name, v.parent.name if getattr(v, 'parent', None) else None,
                            v.dimensions if isinstance(v, sym.Array) else None)
                return str(v)
            want_u = {}
            for v in flat:
                want_u[dkey(v)] = v
            if sorted(map(str, want_u)) != sorted(str(dkey(v)) for v in uniq):
                viols.append((f'{finder.__name__} unique != dedup(non-unique)',
                              f'{sorted(str(dkey(v)) for v in uniq)} vs {sorted(map(str, want_u))}'))
            paired = [e for _, ex in pairs for e in ex]
            if collections.Counter(map(str, paired)) != collections.Counter(map(str, flat)):
                viols.append((f'{finder.__name__} with_ir_node union != plain',
                              f'{len(paired)} paired vs {len(flat)} plain occurrences'))
        out.append((k, viols, nchk))
    return out


# ------------------------------------------------------------------ declarations with initialisers (spec search)
INITS = [None, '4', '2*nb + 1', 'max(nb, 3) - nb']
INIT_OCC = {None: ({}, [], []), '4': ({}, [4], []), '2*nb + 1': ({'nb': 1}, [2, 1], []),
            'max(nb, 3) - nb': ({'nb': 2}, [3], ['max'])}


def spec_cases(maxk):
    import itertools
    cases = []
    for param in (True, False):
        for k in range(1, maxk + 1):
            for inits in itertools.product(INITS, repeat=k):
                if param and None in inits:
                    continue
                if not param and all(i is None for i in inits):
                    continue
                cases.append((param, inits))
    return cases


def judge_specs(maxk):
    _quiet()
    from loki import Sourcefile, Frontend, ir, FindNodes, FindVariables, FindInlineCalls, FindLiterals
    from loki.expression import symbols as sym
    cases = spec_cases(maxk)
    lines = ['module smod', 'implicit none', 'contains']
    for n, (param, inits) in enumerate(cases):
        ents = ', '.join(f'e{j}' + (f' = {i}' if i is not None else '') for j, i in enumerate(inits))
        lines += [f'subroutine s{n}(r)', '  integer, intent(out) :: r', '  integer, parameter :: nb = 2',
                  f'  integer{", parameter" if param else ""} :: {ents}', '  r = nb', f'end subroutine s{n}']
    lines.append('end module smod')
    sf = Sourcefile.from_source('\n'.join(lines) + '\n', frontend=Frontend.FP)
    routines = {r.name.lower(): r for r in sf.all_subroutines}
    viols, nchk = [], 0
    for n, (param, inits) in enumerate(cases):
        r = routines[f's{n}']
        decl = [d for d in FindNodes(ir.VariableDeclaration).visit(r.spec) if any(s.name.lower() == 'e0' for s in d.symbols)]
        if len(decl) != 1:
            viols.append(('spec: declaration node not found', f'{param} {inits}'))
            continue
        decl = decl[0]
        want_v = collections.Counter({f'e{j}': 1 for j in range(len(inits))})
        want_l, want_c = collections.Counter(), collections.Counter()
        for i in inits:
            v, l, c = INIT_OCC[i]
            want_v.update(v)
            want_l.update(l)
            want_c.update(c)
        pos = next((j for j, i in enumerate(inits) if i not in (None, '4')), None)
        where = 'none' if pos is None else 'first' if pos == 0 else 'later'
        for scope_name, root in (('declaration', decl), ('spec', r.spec)):
            got_v = collections.Counter(v.name.lower() for v in FindVariables(unique=False).visit(root))
            got_l = collections.Counter(int(x.value) for x in FindLiterals(unique=False).visit(root) if isinstance(x, sym.IntLiteral))
            got_c = collections.Counter(c.function.name.lower() for c in FindInlineCalls(unique=False).visit(root))
            extra = collections.Counter({'nb': 1, 'r': 1}) if scope_name == 'spec' else collections.Counter()
            extra_l = collections.Counter({2: 1}) if scope_name == 'spec' else collections.Counter()
            for finder, got, want in (('FindVariables', got_v, want_v + extra), ('FindLiterals', got_l, want_l + extra_l),
                                      ('FindInlineCalls', got_c, want_c)):
                nchk += 1
                miss = want - got
                unknown = set(got) - set(want)
                if miss or unknown:
                    kind = 'missing' if miss else 'extra'
                    viols.append((f'{finder} {kind} in VariableDeclaration initialiser ({scope_name}, {"parameter" if param else "variable"}, '
                                  f'expression in {where} entity)',
                                  f'`integer{", parameter" if param else ""} :: ' + ', '.join(
                                      f'e{j}' + (f' = {i}' if i is not None else '') for j, i in enumerate(inits)) +
                                  f'`: found {dict(got)}, by construction at least {dict(want)}'))
    return viols, nchk, len(cases)


def run(ctx):
    L, nest = (1, 2) if ctx.quick else (2, 2)
    kernels = [(f'k{n:05d}', (name, body)) for n, (name, body, _) in enumerate(mfgen.valid_stream(L, nest))]
    from vf.explore import seeded_order
    order = seeded_order(kernels, ctx.seed)
    batches = [order[s:s + BATCH] for s in range(0, len(order), BATCH)]
    results = ctx.pmap(judge_batch, batches, chunksize=1)
    byk = dict(kernels)
    nchk = 0
    single = {}
    flat = [(k, v, n) for res in results for k, v, n in res]
    for k, viols, n in flat:
        nchk += n
    for k, viols, n in flat:
        name, body = byk[k]
        for sig, det in viols:
            ctx.violation(sig, dict(name=name, body=body, signature=sig), det)
    sviols, snchk, scases = judge_specs(2 if ctx.quick else 3)
    for sig, det in sviols:
        ctx.violation(sig, dict(kind='spec', signature=sig, maxk=2 if ctx.quick else 3), det)
    nchk += snchk
    ctx.require(nchk > 5000, f'vacuous: {nchk} finder results judged')
    ctx.cov.update(
        evaluations=nchk, distinct_nontrivial=len(kernels) + scases, programs=len(kernels), declaration_cases=scases, exhaustive=True,
        rule=f'MF kernel stream L<={L}, nesting<={nest}; evaluations = (finder, mode, node) results compared with the '
             'generator AST; distinct_nontrivial = distinct kernels',
        samples=[dict(kernel=kernels[0][1][0]), dict(kernel=kernels[-1][1][0])],
        bound=dict(L=L, nest=nest),
    )
    ctx.assumptions += ['one MF statement per line; IR nodes are mapped to statements through source.lines']


def replay(case):
    if case.get('kind') == 'spec':
        for sig, det in judge_specs(case.get('maxk', 3))[0]:
            if sig == case.get('signature'):
                return det
        return None
    res = judge_batch([('k00000', (case['name'], case['body']))])
    want = case.get('signature')
    for k, viols, n in res:
        for sig, det in viols:
            if want is None or sig == want:
                return det
    return None
