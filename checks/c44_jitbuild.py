"""C44  Parallel JIT library builds compile objects after their module dependencies.

SCHED: the unmodified `Lib.build` / `Builder.get_dependency_graph` / `Obj.build` and the unmodified
`loki.jit_build.workqueue` glue (`workqueue()`, `ParallelQueue`, `wait_and_check`) are run against the
virtual worker pool of `vf/vsched.py` (the names `ProcessPoolExecutor`, `Manager`, `execute` in
`loki.jit_build.workqueue` and `execute` in `loki.jit_build.obj` are rebound from here; the compiler
object is the user-supplied seam).  Every compile task has two visible events, *start* (the compiler
begins: it reads the .mod files of the modules the source USEs) and *finish* (outputs published, future
done).  For every generated source tree, every worker count and EVERY schedule of these events
(FIFO hand-out to W workers, handed-out tasks may start in any order) the oracle demands exactly the
statement:

  (a) no compile starts before every object that provides a module it USEs has finished compiling
      (providers are known from the generator: the file that *defines* the module, whatever its name);
  (b) no object is compiled twice;
  (c) the set of compiled objects and the link inputs equal those of the serial (`workers=1`) build,
      and the parallel build does not fail where the serial one succeeds.
  (a) and (b) are also demanded of the serial build ("any number of workers").

Conformance (model <-> implementation): schedules explored on the model are forced on the real
`ProcessPoolExecutor` through a gating fake compiler (`vf.vsched.GATE_SH`); every event the model allows
must be realisable at that point, no task may be handed out earlier than the model allows, and the real
build must produce the same objects/link line.  A real gfortran build (serial and parallel) of the
baseline trees must succeed with identical `nm` symbol tables.
"""
import itertools
import logging
import os
import shutil
import subprocess
import sys
import time
from pathlib import Path

os.environ.setdefault('TQDM_DISABLE', '1')

from vf import vsched
from vf.vsched import Explorer, FixedChooser, Sched, VirtualExecutor, VirtualManager

PROPERTY = 'C44'
LEVEL = 'model_checking'
META = dict(
    engine='sched',
    technique='stateless DFS over all start/finish schedules of a virtual worker pool driving the unmodified Lib.build; '
              'explored schedules forced on the real ProcessPoolExecutor through a gating compiler',
    level_text='every labelled module-dependency DAG on <=4 source files (thorough: + every DAG on 5 files up to relabelling) x W in {2,3} workers x every schedule '
               'of compile start/finish events (plus serial), with single deviations (module name != file stem, second module '
               'in a file, object already up to date)',
    level_note='virtual pool = model of ProcessPoolExecutor (FIFO hand-out, W workers), validated by replaying explored '
               'schedules on the real pool; compile = start (reads inputs) / finish (publishes outputs)',
)

NAME_POOLS = [
    ['alpha', 'beta', 'gamma', 'delta', 'eps'],
    ['kernel', 'phys', 'grid', 'util', 'param'],
    ['m1', 'zz', 'aa', 'q9', 'mid'],
]
FAKE_FC = 'VF_FAKE_FC'

_quiet = logging.getLogger('vf.c44.quiet')
_quiet.addHandler(logging.NullHandler())
_quiet.propagate = False
_quiet.setLevel(logging.CRITICAL)


# ------------------------------------------------------------------------------------------
# case space
# ------------------------------------------------------------------------------------------
def all_dags(n):
    """Every labelled DAG on n nodes as a tuple of sorted tuples: uses[i] = files whose module file i USEs."""
    pairs = [(i, j) for i in range(n) for j in range(i + 1, n)]
    seen = set()
    for mask in range(1 << len(pairs)):
        edges = [p for k, p in enumerate(pairs) if mask >> k & 1]
        for perm in itertools.permutations(range(n)):
            uses = [[] for _ in range(n)]
            for i, j in edges:
                uses[perm[i]].append(perm[j])
            seen.add(tuple(tuple(sorted(u)) for u in uses))
    return sorted(seen, key=lambda d: (sum(map(len, d)), d))


def deviations(uses):
    """single departures from the default layout (module name == file stem, one module per file, nothing built)"""
    n = len(uses)
    out = [None]
    for i in range(n):
        used = any(i in u for u in uses)
        if used:
            out.append(('rename', i))   # module of file i is called <stem>_mod
            out.append(('second', i))   # file i defines <stem> and <stem>_aux; its consumers USE <stem>_aux
        out.append(('uptodate', i))     # <stem>.o exists and is newer than the source
    return out


def make_case(uses, W, dev, seed, main_mode='eager'):
    return dict(uses=[list(u) for u in uses], W=W, dev=list(dev) if dev else None, seed=seed, main_mode=main_mode)


# ------------------------------------------------------------------------------------------
# source trees
# ------------------------------------------------------------------------------------------
class Tree:
    """One generated source tree + the facts the generator knows about it."""

    def __init__(self, case, root):
        self.case = case
        self.uses = [tuple(u) for u in case['uses']]
        self.n = len(self.uses)
        self.dev = tuple(case['dev']) if case.get('dev') else None
        self.names = NAME_POOLS[case.get('seed', 0) % len(NAME_POOLS)][:self.n]
        self.root = Path(root)
        self.src = self.root / 'src'
        self.build = self.root / 'build'
        # which module of file j do consumers import, and which modules does file j define
        self.defines = []
        self.import_name = []
        for j, s in enumerate(self.names):
            if self.dev == ('rename', j):
                self.defines.append([f'{s}_mod'])
                self.import_name.append(f'{s}_mod')
            elif self.dev == ('second', j):
                self.defines.append([s, f'{s}_aux'])
                self.import_name.append(f'{s}_aux')
            else:
                self.defines.append([s])
                self.import_name.append(s)
        self.provider_of = {m: j for j, ms in enumerate(self.defines) for m in ms}
        self.uptodate = {self.names[self.dev[1]]} if self.dev and self.dev[0] == 'uptodate' else set()

    def text(self, i):
        out = []
        for k, m in enumerate(self.defines[i]):
            out.append(f'module {m}')
            if k == 0:
                out += [f'  use {self.import_name[j]}' for j in self.uses[i]]
            out += ['  implicit none', f'  integer :: v_{m} = {i + 1}', f'end module {m}', '']
        return '\n'.join(out)

    def write(self):
        shutil.rmtree(self.root, ignore_errors=True)
        self.src.mkdir(parents=True)
        self.build.mkdir()
        for i, s in enumerate(self.names):
            p = self.src / f'{s}.f90'
            p.write_text(self.text(i))
            os.utime(p, (1_000_000_000, 1_000_000_000))
        return self

    def reset_build(self, build=None):
        build = Path(build or self.build)
        for f in os.listdir(build):
            os.unlink(build / f)
        for s in self.uptodate:
            (build / f'{s}.o').write_bytes(b'')
            os.utime(build / f'{s}.o', (1_500_000_000, 1_500_000_000))

    # ground truth ---------------------------------------------------------------------
    def providers(self, stem):
        i = self.names.index(stem)
        return sorted({self.names[j] for j in self.uses[i]} - {stem})

    def provider_kind(self, consumer, provider):
        j = self.names.index(provider)
        m = self.import_name[j]
        if m == provider:
            return 'module name == file stem'
        return 'module name != file stem'


# ------------------------------------------------------------------------------------------
# the compile model and the harness compiler object
# ------------------------------------------------------------------------------------------
def _parse_cmd(args):
    args = list(args)
    tgt = args[args.index('-o') + 1]
    src = args[-1]
    return Path(src).stem, tgt


class CompileModel:
    """What running the compile command does, as far as the property can see."""

    def __init__(self):
        self.log = []

    def __call__(self, args, **kwargs):          # serial path: loki.jit_build.obj.execute
        stem, tgt = _parse_cmd(args)
        self.log.append(('start', stem))
        Path(tgt).write_bytes(b'')
        self.log.append(('finish', stem))

    def steps(self, args, **kwargs):             # virtual pool: two visible events
        stem, tgt = _parse_cmd(args)
        yield 'start'
        self.log.append(('start', stem))
        yield 'finish'
        Path(tgt).write_bytes(b'')
        self.log.append(('finish', stem))


def _compiler(f90, links):
    from loki.jit_build.compiler import Compiler

    class HarnessCompiler(Compiler):
        F90 = f90
        F90FLAGS = ['-g']

        def link(self, objs, target, shared=True, cwd=None):
            links.append([Path(o).name for o in objs])

    return HarnessCompiler()


def _factory(fn, args, kwargs, index, sched):
    """task factory of the virtual pool: ParallelQueue.execute submits init_call(execute, cmd, log_queue=..)"""
    model = args[0]
    if not isinstance(model, CompileModel):
        raise vsched.HarnessError(f'unexpected task submitted to the pool: {fn} {args}')
    stem, _ = _parse_cmd(args[1])
    return stem, model.steps(*args[1:])


_HOLDER = [None]


def _no_tqdm(iterable, *args, **kwargs):
    return iterable


def _mk_executor(max_workers=None):
    return VirtualExecutor(_HOLDER[0], max_workers)


def _mk_manager():
    return VirtualManager(_HOLDER[0])


def run_build(tree, W, chooser=None, main_mode='eager', real=None):
    """One execution of the real Lib.build.  chooser=None & W==1: serial build; chooser given: virtual pool;
    real=dict(fc=<script>): real process pool.  Returns dict(log, links, error, objects, sched)."""
    import importlib
    wq = importlib.import_module('loki.jit_build.workqueue')       # (the package attribute of that name is the function)
    objmod = importlib.import_module('loki.jit_build.obj')
    libmod = importlib.import_module('loki.jit_build.lib')
    from loki.jit_build import Builder, Lib, Obj

    tree.reset_build()
    model = CompileModel()
    links = []
    sched = None
    binds = [(libmod, 'tqdm', _no_tqdm)]          # progress bar only
    if real is None:
        binds.append((objmod, 'execute', model))
        if chooser is not None:
            sched = Sched(chooser, _factory, main_mode)
            _HOLDER[0] = sched
            binds += [(wq, 'ProcessPoolExecutor', _mk_executor), (wq, 'Manager', _mk_manager),
                      (wq, 'execute', model), (wq, '_initialized', True), (wq, 'QueueListener', vsched.NoListener)]
    fc = real['fc'] if real else FAKE_FC
    error = None
    with vsched.rebound(*binds):
        try:
            builder = Builder(source_dirs=[tree.src], build_dir=tree.build, workers=W,
                              compiler=_compiler(fc, links), logger=_quiet)
            objs = [Obj(source_path=tree.src / f'{s}.f90') for s in tree.names]
            lib = Lib(name='vf', objs=objs, shared=False)
            lib.build(builder=builder, force=False)
        except vsched.HarnessError:
            raise
        except Exception as e:  # pylint: disable=broad-except
            error = f'{type(e).__name__}: {e}'
        finally:
            if sched is not None:
                sched.close()
    objects = sorted(f for f in os.listdir(tree.build) if f.endswith('.o'))
    return dict(log=list(model.log), links=links, error=error, objects=objects, sched=sched)


# ------------------------------------------------------------------------------------------
# oracle
# ------------------------------------------------------------------------------------------
def judge(tree, W, log, links, error, objects, serial):
    """Returns list of (signature, detail).  `serial` is the result of the workers=1 build (None when judging it)."""
    out = []
    pos = {ev: k for k, ev in enumerate(log)}
    started = [s for kind, s in log if kind == 'start']
    for s in sorted(set(started)):
        if started.count(s) > 1:
            out.append(('object compiled more than once',
                        f'workers={W}: {s} compiled {started.count(s)} times: {log}'))
    for s in started:
        for p in tree.providers(s):
            if ('start', p) in pos and not (('finish', p) in pos and pos[('finish', p)] < pos[('start', s)]):
                out.append((f'compile started before the object providing a USEd module finished '
                            f'[provider {tree.provider_kind(s, p)}]',
                            f'workers={W}: {s}.f90 uses a module defined in {p}.f90, but the event order is {log}'))
    if serial is not None:
        if error and not serial['error']:
            out.append(('parallel build fails where the serial build succeeds', f'workers={W}: {error}'))
        elif not error and not serial['error']:
            if sorted(started) != sorted(s for k, s in serial['log'] if k == 'start'):
                out.append(('parallel build compiles a different set of objects than the serial build',
                            f'parallel {sorted(started)} vs serial {sorted(s for k, s in serial["log"] if k == "start")}'))
            if links != serial['links'] or objects != serial['objects']:
                out.append(('parallel build links/produces different objects than the serial build',
                            f'parallel link {links} objects {objects} vs serial link {serial["links"]} objects {serial["objects"]}'))
    return out


# ------------------------------------------------------------------------------------------
# exploring one case
# ------------------------------------------------------------------------------------------
def explore_case(tree, W, main_mode='eager', max_executions=None):
    from loki.jit_build import Obj
    from loki.jit_build.header import Header
    Obj.clear_cache()
    serial = run_build(tree, 1)
    viols = [(sig, dict(tree.case, W=1, schedule=None), det)
             for sig, det in judge(tree, 1, serial['log'], serial['links'], serial['error'], serial['objects'], None)]
    ex = Explorer()
    stats = dict(overlap=0, first=None)
    found = {}

    def run(ch):
        r = run_build(tree, W, ch, main_mode)
        s = r['sched']
        if s.trace != r['log']:
            raise vsched.HarnessError(f'pool trace {s.trace} differs from compile log {r["log"]}')
        stats['overlap'] = max(stats['overlap'], s.overlap)
        for sig, det in judge(tree, W, r['log'], r['links'], r['error'], r['objects'], serial):
            if sig not in found:
                found[sig] = (dict(tree.case, W=W, schedule=[list(c) for c in s.choices]), det)
        r['key'] = tuple(s.trace)
        if stats['first'] is None:
            stats['first'] = dict(schedule=[list(c) for c in s.choices], trace=[list(e) for e in s.trace])
        return r

    done = ex.explore(run, key=lambda r: r['key'], max_executions=max_executions)
    viols += [(sig, case, det) for sig, (case, det) in found.items()]
    st = ex.stats()
    st.update(exhausted=done, overlap=stats['overlap'], serial_error=serial['error'], first=stats['first'],
              traces=sorted(ex.traces))
    return st, viols, serial


# ------------------------------------------------------------------------------------------
# forcing a schedule on the real ProcessPoolExecutor
# ------------------------------------------------------------------------------------------
def real_forced(tree, W, trace, assigned_after, expect, tag, timeout=45.0):
    """Force the event order `trace` (list of (kind, stem)) on the real pool.  Returns None if the real run
    conforms to the model, otherwise a description of the disagreement."""
    from loki.jit_build import Obj
    ctl = str(tree.root / f'ctl_{tag}')
    shutil.rmtree(ctl, ignore_errors=True)
    gates = [f'{k}.{s}' for s in tree.names for k in ('start', 'finish')]
    log_fd = vsched.make_gate_dir(ctl, gates)
    fc = tree.root / 'fakefc.sh'
    if not fc.exists():
        fc.write_text(vsched.GATE_SH)
        fc.chmod(0o755)
    steps = [dict(gate=f'{k}.{s}', confirm=f'did {k}.{s}') for k, s in trace]
    pid, result_path = vsched.fork_controller(ctl, log_fd, steps, timeout)
    os.environ[vsched.GATE_ENV] = ctl
    import importlib
    wq = importlib.import_module('loki.jit_build.workqueue')
    saved_defaults = wq.wait_and_check.__defaults__
    # wait_and_check gives every compile 60 s ("TODO: make this user configurable"); a gated compile on a busy
    # machine may legitimately take longer, and the controller has its own time-outs
    wq.wait_and_check.__defaults__ = (600,) + tuple(saved_defaults[1:])
    try:
        Obj.clear_cache()
        r = run_build(tree, W, real=dict(fc=str(fc)))
    finally:
        wq.wait_and_check.__defaults__ = saved_defaults
        os.environ.pop(vsched.GATE_ENV, None)
        res = vsched.join_controller(pid, result_path, [log_fd])
    shutil.rmtree(ctl, ignore_errors=True)
    if not res['ok']:
        return f'schedule not realisable on the real pool: {res["error"]}'
    if r['error']:
        return f'real build failed: {r["error"]}'
    did = [tuple(line[4:].split('.', 1)) for line in res['log'] if line.startswith('did ')]
    if did != [tuple(e) for e in trace]:
        return f'observed event order {did} differs from forced schedule {trace}'
    k = 0
    for line in res['log']:
        if line.startswith('did '):
            k += 1
        elif line.startswith('at start.'):
            stem = line[len('at start.'):]
            if stem not in assigned_after[min(k, len(assigned_after) - 1)]:
                return (f'real pool handed out {stem} after {k} events, the model only has '
                        f'{assigned_after[min(k, len(assigned_after) - 1)]} handed out then (log {res["log"]})')
    if r['links'] != expect['links'] or r['objects'] != expect['objects']:
        return f'real build produced link {r["links"]} objects {r["objects"]}, model {expect}'
    return None


def gfortran_build(tree, W):
    """Real compiler, real pool, no gates: the tree must build, serial and parallel symbol tables must agree."""
    from loki.jit_build import Builder, Lib, Obj
    from loki.jit_build.compiler import Compiler
    import importlib
    importlib.import_module('loki.jit_build.lib').tqdm = _no_tqdm
    syms = {}
    for tag, workers in (('serial', 1), ('par', W)):
        bd = tree.root / f'gf_{tag}'
        shutil.rmtree(bd, ignore_errors=True)
        bd.mkdir()
        Obj.clear_cache()
        try:
            builder = Builder(source_dirs=[tree.src], build_dir=bd, workers=workers, compiler=Compiler(), logger=_quiet)
            lib = Lib(name='vf', objs=[Obj(source_path=tree.src / f'{s}.f90') for s in tree.names], shared=False)
            lib.build(builder=builder, force=True)
        except Exception as e:  # pylint: disable=broad-except
            return f'gfortran build ({tag}, workers={workers}) failed: {type(e).__name__}: {e}'
        out = subprocess.run(['nm', str(bd / 'libvf.a')], capture_output=True, text=True, check=False)
        if out.returncode:
            return f'nm failed on {tag} library: {out.stderr[:200]}'
        syms[tag] = sorted(' '.join(l.split()[1:]) if len(l.split()) > 2 else l.strip() for l in out.stdout.splitlines() if l.strip())
        if not any(f'{s}_MOD' in l.lower() or f'{s}.o' in l for s in tree.names for l in syms[tag]):
            return f'nm output of {tag} library has no module symbols: {syms[tag][:5]}'
    if syms['serial'] != syms['par']:
        return f'symbol tables differ: serial {syms["serial"]} parallel {syms["par"]}'
    return None


# ------------------------------------------------------------------------------------------
# work units (top-level functions for ctx.pmap)
# ------------------------------------------------------------------------------------------
def _unit_explore(item):
    """item: dict(uid, scratch, uses, dev, seed, workers, full, cap) -> stats, violations, conformance picks"""
    root = Path(item['scratch']) / f'u{item["uid"]}'
    out = dict(uid=item['uid'], uses=item['uses'], dev=item['dev'], per_w={}, viols=[], picks=[], full=None)
    try:
        for W in item['workers']:
            case = make_case(item['uses'], W, item['dev'], item['seed'])
            tree = Tree(case, root).write()
            st, viols, serial = explore_case(tree, W, 'eager', item.get('cap'))
            traces = st.pop('traces')
            out['per_w'][W] = st
            out['viols'] += viols
            out['serial_error'] = serial['error']
            if item['full']:
                stf, violsf, _ = explore_case(tree, W, 'full', item.get('cap'))
                tf = stf.pop('traces')
                out['viols'] += violsf
                out['full'] = out['full'] or {}
                out['full'][W] = dict(stf, same_traces=(tf == traces))
            out['traces_' + str(W)] = traces if item.get('want_traces') else None
    finally:
        shutil.rmtree(root, ignore_errors=True)
    return out


def _unit_real(item):
    """item: dict(uid, scratch, uses, dev, seed, W, trace) -> None | disagreement"""
    vsched.undaemonize()
    root = Path(item['scratch']) / f'r{item["uid"]}'
    try:
        case = make_case(item['uses'], item['W'], item['dev'], item['seed'])
        tree = Tree(case, root).write()
        from loki.jit_build import Obj
        Obj.clear_cache()
        # the model's prediction for exactly this schedule
        r = run_build(tree, item['W'], FixedChooser([tuple(e) for e in item['trace']]), 'eager')
        s = r['sched']
        if [list(e) for e in s.trace] != [list(e) for e in item['trace']]:
            return dict(uid=item['uid'], bad=f'model replay of {item["trace"]} gave {s.trace}')
        with vsched.real_slot(item['scratch'], item.get('slots', 1)):
            for attempt in (1, 2):
                bad = real_forced(tree, item['W'], [tuple(e) for e in item['trace']], s.assigned_after,
                                  dict(links=r['links'], objects=r['objects']), f'{item["uid"]}_{attempt}',
                                  timeout=45.0 * attempt)
                if not bad or 'not realisable' not in bad:
                    break       # a time-out on an overloaded machine gets one more chance with doubled time-outs
        return dict(uid=item['uid'], bad=bad)
    finally:
        shutil.rmtree(root, ignore_errors=True)


def _unit_gfortran(item):
    vsched.undaemonize()
    root = Path(item['scratch']) / f'g{item["uid"]}'
    try:
        tree = Tree(make_case(item['uses'], item['W'], None, item['seed']), root).write()
        with vsched.real_slot(item['scratch'], item.get('slots', 1)):
            return dict(uid=item['uid'], bad=gfortran_build(tree, item['W']))
    finally:
        shutil.rmtree(root, ignore_errors=True)


def is_canonical(uses):
    """representative of its isomorphism class: lexicographically smallest relabelling"""
    n = len(uses)
    me = tuple(tuple(sorted(u)) for u in uses)
    for perm in itertools.permutations(range(n)):
        other = [None] * n
        for i, u in enumerate(uses):
            other[perm[i]] = tuple(sorted(perm[j] for j in u))
        if tuple(other) < me:
            return False
    return True


def mirror(uses):
    """relabel file i as n-1-i"""
    n = len(uses)
    out = [None] * n
    for i, u in enumerate(uses):
        out[n - 1 - i] = tuple(sorted(n - 1 - j for j in u))
    return tuple(out)


def _parity(uses):
    """deterministic 0/1 per DAG (independent of exploration order): spreads W=2 / W=3 over the DAGs"""
    return (sum(len(u) for u in uses) + sum(i * j for i, u in enumerate(uses) for j in u)) % 2


def finish_order_classes(traces):
    """one representative (the first explored) per order of *finish* events"""
    reps = {}
    for t in traces:
        reps.setdefault(tuple(e for e in t if e[0] == 'finish'), t)
    return list(reps.values())


# ------------------------------------------------------------------------------------------
# driver
# ------------------------------------------------------------------------------------------
def run(ctx):
    from vf.explore import seeded_order
    nmax = 4 if ctx.quick else 5
    dev_nmax = 3 if ctx.quick else 4  # deviation menu (<= 1 deviation) on trees of up to 3 / 4 files
    full_nmax = 3                     # unreduced ("main thread may lag") exploration up to 3 files
    scratch = str(ctx.scratch)
    slots = max(1, ctx.nproc // 2 if ctx.nproc <= 4 else ctx.nproc // 4)    # real-pool runs alive at the same time (each: manager + W workers + controller + participants)
    units = []
    for n in range(1, nmax + 1):
        dags = all_dags(n)
        if n == 5:
            # 29281 labelled DAGs on 5 files (2.4 million schedules): one DAG per isomorphism class, in two labellings
            # (the canonical one and its mirror image, i.e. the library lists its sources in opposite orders)
            reps = [d for d in dags if is_canonical(d)]
            dags = sorted(set(reps) | {mirror(d) for d in reps})
        for uses in dags:
            for dev in (deviations(uses) if n <= dev_nmax else [None]):
                units.append(dict(uses=[list(u) for u in uses], dev=list(dev) if dev else None, seed=ctx.seed,
                                  workers=[2, 3], full=(n <= full_nmax and dev is None), scratch=scratch,
                                  want_traces=(dev is None and n <= 4)))
    units = seeded_order(units, ctx.seed)
    for k, u in enumerate(units):
        u['uid'] = k
    t0 = time.time()
    results = ctx.pmap(_unit_explore, units, chunksize=4 if ctx.quick else 16, ordered=True)
    t_explore = time.time() - t0

    schedules = traces = states = transitions = depth = 0
    full_runs = full_cases = 0
    overlap = {2: 0, 3: 0}
    waited = 0
    real_items = []
    gf_items = []
    samples = []
    for u, r in zip(units, results):
        for sig, case, det in r['viols']:
            ctx.violation(sig, case, det)
        for W, st in r['per_w'].items():
            ctx.require(st['exhausted'], f'exploration of {u["uses"]} dev={u["dev"]} W={W} hit the execution cap')
            schedules += st['schedules'] + 1          # + the serial build
            traces += st['distinct_traces']
            states += st['states']
            transitions += st['transitions']
            depth = max(depth, st['max_choice_depth'])
            overlap[W] = max(overlap[W], st['overlap'])
            if len(samples) < 3 and st['schedules'] > 1 and u['dev'] is None and len(u['uses']) >= 3:
                samples.append(dict(uses=u['uses'], W=W, first_schedule=st['first']['schedule'],
                                    trace=st['first']['trace'], schedules=st['schedules']))
        if r['full']:
            for W, stf in r['full'].items():
                ctx.require(stf['same_traces'], f'{u["uses"]} W={W}: eager-main exploration misses event orders that the '
                                                f'unreduced exploration finds (or vice versa)')
                full_runs += stf['schedules']
                full_cases += 1
                schedules += stf['schedules'] + 1     # + its serial reference build
                states += stf['states']
                transitions += stf['transitions']
                depth = max(depth, stf['max_choice_depth'])
        if any(u['uses']):
            waited += 1
        # conformance picks (kept small on purpose: every real-pool run keeps ~8 OS processes alive)
        n = len(u['uses'])
        if u['dev'] is None and n <= 4:
            canonical4 = (n == 4 and is_canonical(u['uses']))
            for W in (2, 3):
                tr = r[f'traces_{W}'] or []
                if n <= 3 and (not ctx.quick or W == 2 + _parity(u['uses'])):
                    picks = finish_order_classes(tr)    # one event order per distinct order of finish events
                elif canonical4 and not ctx.quick and W == 2 + _parity(u['uses']):
                    picks = [tr[-1]]                    # the lexicographically last event order
                else:
                    picks = []
                for t in picks:
                    real_items.append(dict(uses=u['uses'], dev=None, seed=ctx.seed, W=W, trace=[list(e) for e in t],
                                           scratch=scratch))
            if n <= 3 or (canonical4 and not ctx.quick):
                gf_items.append(dict(uses=u['uses'], W=2 + _parity(u['uses']), seed=ctx.seed, scratch=scratch))
    dev_skip = os.environ.get('VF_DEV_SKIP_REAL')      # development only: the run then ends as HARNESS-ERROR
    if dev_skip:
        print(f'DEV: explore {t_explore:.1f}s units={len(units)} schedules={schedules} traces={traces} states={states} '
              f'transitions={transitions} depth={depth} full={full_cases}/{full_runs} real_items={len(real_items)} '
              f'gf_items={len(gf_items)} violations={len(ctx.violations)} sigs={sorted(set(v[0] for v in ctx.violations))}')
        real_items, gf_items = real_items[:int(dev_skip)], gf_items[:int(dev_skip)]
    for k, it in enumerate(real_items):
        it['uid'] = k
        it['slots'] = slots
    for k, it in enumerate(gf_items):
        it['uid'] = k
        it['slots'] = slots

    t0 = time.time()
    real_res = ctx.pmap(_unit_real, real_items, chunksize=2, ordered=True)
    t_real = time.time() - t0
    bad = [(it, r['bad']) for it, r in zip(real_items, real_res) if r['bad']]
    ctx.require(not bad, f'{len(bad)} of {len(real_items)} schedules: real pool does not conform to the virtual pool; '
                         f'first: {bad[0][0]["uses"] if bad else None} W={bad[0][0]["W"] if bad else None} '
                         f'trace={bad[0][0]["trace"] if bad else None}: {bad[0][1] if bad else None}')
    t0 = time.time()
    gf_res = ctx.pmap(_unit_gfortran, gf_items, chunksize=2, ordered=True)
    t_gf = time.time() - t0
    gbad = [(it, r['bad']) for it, r in zip(gf_items, gf_res) if r['bad']]
    ctx.require(not gbad, f'{len(gbad)} of {len(gf_items)} baseline trees do not build with gfortran through the real pool: '
                          f'{gbad[0] if gbad else None}')

    ctx.require(not dev_skip, f'development run (VF_DEV_SKIP_REAL): real {t_real:.1f}s gfortran {t_gf:.1f}s')
    # vacuity guards
    ctx.require(overlap[2] == 2 and overlap[3] == 3, f'no execution ever had W tasks in flight: {overlap}')
    ctx.require(traces > 2 * len(units), 'hardly any case has more than one schedule')
    ctx.require(waited > 0, 'no tree with a module dependency')

    ctx.cov.update(
        states=states, transitions=transitions, traces_validated_against_impl=len(real_items),
        evaluations=schedules, distinct_nontrivial=traces, exhaustive=True,
        schedules_explored=schedules, distinct_traces=traces, max_choice_depth=depth,
        cases=len(units), cases_with_dependencies=waited,
        unreduced_exploration=dict(cases=full_cases, schedules=full_runs,
                                   note='main_mode=full (worker events may fire while the main thread could proceed) on all '
                                        f'baseline trees of <= {full_nmax} files; must yield the same set of event orders'),
        conformance=dict(real_pool_schedules=len(real_items), gfortran_builds=len(gf_items),
                         selection=('one event order per distinct order of finish events for every baseline DAG on <= 3 files, '
                                    + ('W = 2 or 3 by a parity of the edge set' if ctx.quick else
                                       'W in (2,3); plus the lexicographically last event order of one DAG per isomorphism class '
                                       'on 4 files')
                                    + '; gfortran + nm (serial vs parallel build): the same DAGs')),
        wall=dict(explore=round(t_explore, 1), real_pool=round(t_real, 1), gfortran=round(t_gf, 1)),
        rule='cases = every labelled module-dependency DAG on 1..4 files' + ('' if ctx.quick else ' + one DAG per isomorphism class '
             'on 5 files in two labellings') + ' x single deviations; per case the serial build and '
             'every schedule (DFS over all choices of the next start/finish event) for W=2 and W=3; a trace is the sequence '
             'of compile start/finish events; distinct_nontrivial = number of distinct traces summed over (case, W); '
             'states/transitions = distinct (main-thread position, pool state) pairs and (state, event) pairs per (case, W), summed',
        bound=dict(files=nmax, workers=[1, 2, 3], deviations=f'<=1 on trees of <= {dev_nmax} files',
                   deviation_menu=['module name != file stem', 'second module in file (consumers use it)', 'object up to date']),
        samples=samples or [dict(note='no multi-schedule sample')],
    )
    ctx.assumptions += [
        'virtual pool: FIFO hand-out to W workers, a handed-out compile has a start and a finish event, future done at finish',
        'eager main thread (it proceeds as soon as it can) - justified by the unreduced exploration on <= 3 files giving the same event orders',
        'compile semantics: inputs (modules of providers) are read at start, outputs are published at finish',
        'mtime checks in Lib.build/Obj.build: sources dated 2001, up-to-date objects dated 2017, force=False',
        'log funnelling (QueueListener) from workers is not modelled',
    ]


def replay(case):
    import tempfile
    root = Path(tempfile.mkdtemp(prefix='vf_c44_replay_', dir='/dev/shm' if os.path.isdir('/dev/shm') else None))
    try:
        from loki.jit_build import Obj
        W = case['W']
        tree = Tree(dict(case, dev=case.get('dev')), root / 't').write()
        Obj.clear_cache()
        serial = run_build(tree, 1)
        if W == 1 or not case.get('schedule'):
            v = judge(tree, 1, serial['log'], serial['links'], serial['error'], serial['objects'], None)
        else:
            r = run_build(tree, W, FixedChooser([tuple(c) for c in case['schedule']]), case.get('main_mode', 'eager'))
            v = judge(tree, W, r['log'], r['links'], r['error'], r['objects'], serial)
        return '; '.join(f'{s}: {d}' for s, d in v) or None
    finally:
        shutil.rmtree(root, ignore_errors=True)
