"""mini-Fortran (MF): the harness's own AST for the Fortran subset the properties name.

* AST = nested tuples/lists (JSON-able).
* `Printer` renders a kernel to free-form Fortran, one statement per line, and records the
  line number of every statement (so Loki IR nodes map back through `source.lines`).
* `Interp` is the reference interpreter: exact integer / dyadic-rational arithmetic, produces the
  program's output and an event trace (enter/exit of statements, R/W of storage locations).
  It raises `Invalid` for programs that are not fully defined (uninitialised read, subscript
  out of bounds, zero divisor, overflow, inexact real): the generators drop those.
* The declaration frame is fixed (see FRAME); kernels differ only in their body.

Expressions
  ('i', 3)  ('r', '1.5')  ('l', True)  ('v', name)  ('e', arr, idx)  ('c', 't', 'm')  ('ce', 't', 'v', idx)
  ('bin', op, a, b) op in + - * / **   ('neg', a)  ('par', a)  ('cmp', op, a, b)  ('and', a, b) ('or', a, b) ('not', a)
  ('fn', name, [args])   intrinsic (abs min max mod sign sum size lbound ubound real int merge) or fsq
  ('sec', arr, lo, hi)   array section (only as operand of section statements / sum())
Statements
  ('asg', lhs, rhs)                 lhs is ('v',..) ('e',..) ('c',..) ('ce',..)
  ('secasg', arr, lo, hi, rhs)      arr(lo:hi) = rhs        rhs scalar expr or expression over same-length sections
  ('whole', arr, rhs)               arr = scalar rhs
  ('do', var, lo, hi, step|None, body, name|None, label|None)
  ('while', cond, body)
  ('if', [(cond, body), ...], else_body|None)
  ('if1', cond, stmt)
  ('select', expr, [(items, body), ...], default|None)   items: list of ('val', k) | ('rng', lo|None, hi|None)
  ('where', [(mask, body), ...], elsewhere_body|None)    masks/bodies over whole arrays of equal shape
  ('assoc', [(name, expr)], body)
  ('call', name, [args])            helper (internal), ext (module procedure)
  ('exit', name|None)  ('cycle', name|None)
  ('print', [exprs])   ('iounit',)  OPEN/WRITE/CLOSE on a scratch unit   ('comment', text)  ('pragma', text)
"""
from fractions import Fraction

from vf.exprsem import f_add, f_sub, f_mul, f_div, f_pow, f_cmp, intrinsic, Undefined, Unsupported


class Invalid(Exception):
    """The program is not fully defined / outside the exact-arithmetic alphabet."""


# ---------------------------------------------------------------------------- frame
# name -> (type, kind-of-storage, lower bound or None)
INT_SCALARS = ['p', 'q', 'k']
REAL_SCALARS = ['x', 'y']
LOG_SCALARS = ['lg']
INT_ARRAYS = {'ia': 1, 'ib': 0}     # name -> lower bound; extent n (ia(1:n), ib(0:n-1))
REAL_ARRAYS = {'ra': 1}
LOOP_VARS = ['i', 'j']
DT_VAR = 't'                         # type(tt): integer m; real v(3)


def decl_lines(kname, extra_locals=()):
    return [
        f'subroutine {kname}(n, p, q, x, y, lg, ia, ib, ra, t)',
        '  integer, intent(in) :: n',
        '  integer, intent(inout) :: p, q',
        '  real, intent(inout) :: x, y',
        '  logical, intent(inout) :: lg',
        '  integer, intent(inout) :: ia(n), ib(0:n-1)',
        '  real, intent(inout) :: ra(n)',
        '  type(tt), intent(inout) :: t',
        '  integer :: i, j, k',
        *[f'  {d}' for d in extra_locals],
    ]


MODULE_HEAD = '''module {mod}
  implicit none
  type :: tt
    integer :: m
    real :: v(3)
  end type tt
contains
'''

EXT_ROUTINE = '''  subroutine ext(a, b, c, d)
    integer, intent(in) :: a
    integer, intent(out) :: b
    integer, intent(inout) :: c
    integer :: d
    b = a + c
    c = c + 1
    d = d + a
  end subroutine ext
'''

HELPER = '''  subroutine helper(a, b)
    integer, intent(in) :: a
    integer, intent(inout) :: b
    b = b + 2*a + q
  end subroutine helper
  integer function fsq(a)
    integer, intent(in) :: a
    fsq = a*a + 1
  end function fsq
'''


# ---------------------------------------------------------------------------- printer
_PREC = {'or': 1, 'and': 2, 'not': 3, 'cmp': 4, '+': 5, '-': 5, 'neg': 5, '*': 6, '/': 6, '**': 7}


def expr_str(e):
    k = e[0]
    if k == 'i':
        return str(e[1]) if e[1] >= 0 else f'({e[1]})'
    if k == 'r':
        return e[1]
    if k == 'l':
        return '.true.' if e[1] else '.false.'
    if k == 'v':
        return e[1]
    if k == 'e':
        return f'{e[1]}({expr_str(e[2])})'
    if k == 'c':
        return f'{e[1]}%{e[2]}'
    if k == 'ce':
        return f'{e[1]}%{e[2]}({expr_str(e[3])})'
    if k == 'sec':
        lo = '' if e[2] is None else expr_str(e[2])
        hi = '' if e[3] is None else expr_str(e[3])
        return f'{e[1]}({lo}:{hi})'
    if k == 'par':
        return f'({expr_str(e[1])})'
    if k == 'neg':
        return f'-{_sub(e[1], 6)}'
    if k == 'bin':
        op = e[1]
        p = _PREC[op]
        if op == '**':
            return f'{_sub(e[2], p + 1)}**{_sub(e[3], p)}'
        return f'{_sub(e[2], p)} {op} {_sub(e[3], p + 1)}'
    if k == 'cmp':
        return f'{_sub(e[2], 5)} {e[1]} {_sub(e[3], 5)}'
    if k == 'and':
        return f'{_sub(e[1], 2)} .and. {_sub(e[2], 3)}'
    if k == 'or':
        return f'{_sub(e[1], 1)} .or. {_sub(e[2], 2)}'
    if k == 'not':
        return f'.not. {_sub(e[1], 4)}'
    if k == 'fn':
        return f'{e[1]}({", ".join(expr_str(a) for a in e[2])})'
    raise ValueError(e)


def _eprec(e):
    k = e[0]
    if k == 'bin':
        return _PREC[e[1]]
    if k in ('neg', 'cmp', 'and', 'or', 'not'):
        return _PREC[k]
    return 9


def _sub(e, minprec):
    s = expr_str(e)
    return f'({s})' if _eprec(e) < minprec else s


class Printer:
    """Renders statements one per line; self.lines[i] is line i+1; self.stmt_line maps id(path) -> line."""

    def __init__(self, indent=4):
        self.lines = []
        self.where = []   # parallel to self.lines: path tuple of the statement that owns the line (header lines)
        self.ind = indent

    def emit(self, text, path=None):
        self.lines.append(' ' * self.ind + text)
        self.where.append(path)

    def body(self, stmts, path):
        self.ind += 2
        for i, s in enumerate(stmts):
            self.stmt(s, path + (i,))
        self.ind -= 2

    def stmt(self, s, path):
        k = s[0]
        if k == 'asg':
            self.emit(f'{expr_str(s[1])} = {expr_str(s[2])}', path)
        elif k == 'secasg':
            self.emit(f'{expr_str(("sec", s[1], s[2], s[3]))} = {expr_str(s[4])}', path)
        elif k == 'whole':
            self.emit(f'{s[1]} = {expr_str(s[2])}', path)
        elif k == 'do':
            _, var, lo, hi, step, body, name, label = s
            hdr = f'{var} = {expr_str(lo)}, {expr_str(hi)}' + (f', {expr_str(step)}' if step is not None else '')
            if label:
                self.emit(f'do {label} {hdr}', path)
                self.body(body, path)
                self.emit(f'{label} continue')
            else:
                self.emit((f'{name}: ' if name else '') + f'do {hdr}', path)
                self.body(body, path)
                self.emit('end do' + (f' {name}' if name else ''))
        elif k == 'while':
            self.emit(f'do while ({expr_str(s[1])})', path)
            self.body(s[2], path)
            self.emit('end do')
        elif k == 'if':
            for n, (cond, body) in enumerate(s[1]):
                self.emit((f'if ({expr_str(cond)}) then' if n == 0 else f'else if ({expr_str(cond)}) then'),
                          path if n == 0 else None)
                self.body(body, path + (('b', n),))
            if s[2] is not None:
                self.emit('else')
                self.body(s[2], path + (('b', 'else'),))
            self.emit('end if')
        elif k == 'if1':
            save = self.lines, self.where, self.ind
            self.lines, self.where, self.ind = [], [], 0
            self.stmt(s[2], path + (0,))
            inner = self.lines[0].strip()
            self.lines, self.where, self.ind = save
            self.emit(f'if ({expr_str(s[1])}) {inner}', path)
        elif k == 'select':
            self.emit(f'select case ({expr_str(s[1])})', path)
            dpos = s[4] if len(s) > 4 else None     # textual position of CASE DEFAULT (None = last)
            for n, (items, body) in enumerate(s[2]):
                if s[3] is not None and dpos == n:
                    self.ind += 2
                    self.emit('case default')
                    self.body(s[3], path + (('b', 'default'),))
                    self.ind -= 2
                its = []
                for it in items:
                    if it[0] == 'val':
                        its.append(str(it[1]))
                    else:
                        its.append(f'{"" if it[1] is None else it[1]}:{"" if it[2] is None else it[2]}')
                self.ind += 2
                self.emit(f'case ({", ".join(its)})')
                self.body(body, path + (('b', n),))
                self.ind -= 2
            if s[3] is not None and (dpos is None or dpos >= len(s[2])):
                self.ind += 2
                self.emit('case default')
                self.body(s[3], path + (('b', 'default'),))
                self.ind -= 2
            self.emit('end select')
        elif k == 'where':
            for n, (mask, body) in enumerate(s[1]):
                self.emit(f'where ({expr_str(mask)})' if n == 0 else f'elsewhere ({expr_str(mask)})',
                          path if n == 0 else None)
                self.body(body, path + (('b', n),))
            if s[2] is not None:
                self.emit('elsewhere')
                self.body(s[2], path + (('b', 'else'),))
            self.emit('end where')
        elif k == 'assoc':
            self.emit('associate (' + ', '.join(f'{n} => {expr_str(e)}' for n, e in s[1]) + ')', path)
            self.body(s[2], path)
            self.emit('end associate')
        elif k == 'call':
            self.emit(f'call {s[1]}({", ".join(expr_str(a) for a in s[2])})', path)
        elif k == 'callshadow':
            self.emit(f'call ext({expr_str(s[1])}, {expr_str(s[2])})', path)
        elif k == 'exit':
            self.emit('exit' + (f' {s[1]}' if s[1] else ''), path)
        elif k == 'cycle':
            self.emit('cycle' + (f' {s[1]}' if s[1] else ''), path)
        elif k == 'print':
            self.emit("print '(A,10(1X,G0))', 'P'" + ''.join(f', {expr_str(e)}' for e in s[1]), path)
        elif k == 'iounit':
            self.emit("open(unit=27, status='scratch', form='formatted')", path)
            self.emit("write(27, '(I0)') p + 1")
            self.emit('rewind(27)')
            self.emit("read(27, *) q")
            self.emit('close(27)')
        elif k == 'comment':
            self.emit(f'! {s[1]}', path)
        elif k == 'pragma':
            self.emit(f'!$loki {s[1]}', path)
        else:
            raise ValueError(s)


SHADOW = '''  subroutine ext(a, b)
    integer, intent(in) :: a
    integer, intent(inout) :: b
    b = b + 3*a - 1
  end subroutine ext
'''


def uses_shadow(body):
    return "'callshadow'" in repr(body)


def uses_internal(body):
    """does the body call helper / fsq (needs the CONTAINS part)?"""
    txt = repr(body)
    return "'helper'" in txt or "'fsq'" in txt


def kernel_text(kname, body, extra_locals=(), force_contains=False):
    """Returns (text_lines, line_of) where line_of maps statement path -> 1-based line in the kernel text."""
    pr = Printer(indent=2)
    head = decl_lines(kname, extra_locals)
    pr.lines = list(head)
    pr.where = [None] * len(head)
    pr.ind = 2
    for i, s in enumerate(body):
        pr.stmt(s, (i,))
    if force_contains or uses_internal(body) or uses_shadow(body):
        pr.lines.append('contains')
        if force_contains or uses_internal(body):
            pr.lines += [ln[2:] if ln.startswith('  ') else ln for ln in HELPER.rstrip('\n').split('\n')]
        if uses_shadow(body):
            # an internal procedure with the same name as the (earlier) module procedure `ext`
            pr.lines += [ln[2:] if ln.startswith('  ') else ln for ln in SHADOW.rstrip('\n').split('\n')]
    pr.lines.append(f'end subroutine {kname}')
    pr.where += [None] * (len(pr.lines) - len(pr.where))
    line_of = {p: n + 1 for n, p in enumerate(pr.where) if p is not None}
    return pr.lines, line_of


def module_text(mod, kernels, with_ext=True):
    """kernels: list of (kname, body).  Returns (text, {kname: (first_line, line_of)})"""
    lines = MODULE_HEAD.format(mod=mod).rstrip('\n').split('\n')
    if with_ext:
        lines += EXT_ROUTINE.rstrip('\n').split('\n')
    info = {}
    for kname, body in kernels:
        kl, line_of = kernel_text(kname, body)
        off = len(lines)
        lines += ['  ' + ln for ln in kl]
        info[kname] = (off, {p: off + n for p, n in line_of.items()})
    lines.append(f'end module {mod}')
    return '\n'.join(lines) + '\n', info


# ---------------------------------------------------------------------------- inputs / driver
def input_grid():
    """A small complete grid of inputs; each input is a dict."""
    grid = []
    for n in (1, 3, 4):
        for (p, q, x, y, lg) in ((2, 3, Fraction(1, 2), Fraction(2), True),
                                 (-3, 2, Fraction(-3, 2), Fraction(1, 2), False),
                                 (3, -2, Fraction(4), Fraction(-1, 2), True)):
            grid.append(dict(n=n, p=p, q=q, x=x, y=y, lg=lg))
    return grid


def initial_state(inp):
    n = inp['n']
    st = {
        'n': n, 'p': inp['p'], 'q': inp['q'], 'x': inp['x'], 'y': inp['y'], 'lg': inp['lg'],
        'i': None, 'j': None, 'k': None,
        'ia': [1, [((3 * e + inp['p']) % 5) - 1 for e in range(1, n + 1)]],
        'ib': [0, [((2 * e + inp['q']) % 4) + 1 for e in range(0, n)]],
        'ra': [1, [Fraction(((e + inp['p']) % 4) - 1, 2) for e in range(1, n + 1)]],
        't%m': inp['p'] + 1,
        't%v': [1, [Fraction(1, 2), inp['x'], Fraction(-1)]],
    }
    return st


def driver_text(mod, knames, grid=None):
    """Harness-owned PROGRAM (never goes through Loki): runs every kernel on every input and prints
    delimiter-framed results."""
    grid = grid or input_grid()
    L = ['program drv', f'  use {mod}', '  implicit none',
         '  integer :: n, p, q, e, g, e1, e2, e3', '  real :: x, y', '  logical :: lg',
         '  integer, allocatable :: ia(:), ib(:)', '  real, allocatable :: ra(:)', '  type(tt) :: t',
         f'  integer, parameter :: ng = {len(grid)}',
         '  integer, parameter :: gn(ng) = (/ ' + ', '.join(str(g['n']) for g in grid) + ' /)',
         '  integer, parameter :: gp(ng) = (/ ' + ', '.join(str(g['p']) for g in grid) + ' /)',
         '  integer, parameter :: gq(ng) = (/ ' + ', '.join(str(g['q']) for g in grid) + ' /)',
         '  real, parameter :: gx(ng) = (/ ' + ', '.join(f'{float(g["x"])!r}' for g in grid) + ' /)',
         '  real, parameter :: gy(ng) = (/ ' + ', '.join(f'{float(g["y"])!r}' for g in grid) + ' /)',
         '  logical, parameter :: gl(ng) = (/ ' + ', '.join('.true.' if g['lg'] else '.false.' for g in grid) + ' /)']
    L.append('  do g = 1, ng')
    for kn in knames:
        L += ['    call setup()', f"    write(*,'(A,1X,A,1X,I0)') '#BEGIN', '{kn}', g",
              f'    call {kn}(n, p, q, x, y, lg, ia, ib, ra, t)', '    call dump()',
              '    e1 = 0; e2 = 5; e3 = 7', '    call ext(2, e1, e2, e3)',
              "    write(*,'(A,3(1X,I0))') 'X', e1, e2, e3",
              f"    write(*,'(A,1X,A,1X,I0)') '#END', '{kn}', g"]
    L.append('  end do')
    L += ['contains', '  subroutine setup()',
          '    n = gn(g); p = gp(g); q = gq(g); x = gx(g); y = gy(g); lg = gl(g)',
          '    if (allocated(ia)) deallocate(ia, ib, ra)',
          '    allocate(ia(n), ib(0:n-1), ra(n))',
          '    do e = 1, n', '      ia(e) = modulo(3*e + p, 5) - 1', '      ra(e) = real(modulo(e + p, 4) - 1) / 2.0',
          '    end do',
          '    do e = 0, n-1', '      ib(e) = modulo(2*e + q, 4) + 1', '    end do',
          '    t%m = p + 1', '    t%v = (/ 0.5, x, -1.0 /)',
          '  end subroutine setup', '  subroutine dump()',
          "    write(*,'(A,2(1X,I0),2(1X,ES16.9),1X,L1)') 'S', p, q, x, y, lg",
          "    write(*,'(A,20(1X,I0))') 'IA', ia", "    write(*,'(A,20(1X,I0))') 'IB', ib",
          "    write(*,'(A,20(1X,ES16.9))') 'RA', ra", "    write(*,'(A,1X,I0,3(1X,ES16.9))') 'T', t%m, t%v",
          '  end subroutine dump', 'end program drv']
    return '\n'.join(L) + '\n'


def fmt_real(v):
    return f'{float(v):.9E}'.replace('E+', 'E+').rjust(16)


def expected_dump(st, printed):
    """What the driver prints for final state st (plus PRINT lines emitted by the kernel)."""
    def es(v):
        s = f'{float(v):.9E}'
        return s
    out = list(printed)
    out.append('S ' + ' '.join([str(st['p']), str(st['q']), es(st['x']), es(st['y']), 'T' if st['lg'] else 'F']))
    out.append('IA ' + ' '.join(str(v) for v in st['ia'][1]))
    out.append('IB ' + ' '.join(str(v) for v in st['ib'][1]))
    out.append('RA ' + ' '.join(es(v) for v in st['ra'][1]))
    out.append('T ' + ' '.join([str(st['t%m'])] + [es(v) for v in st['t%v'][1]]))
    out.append('X 7 6 9')      # the module procedure ext called by the driver: must still be the module's own
    return out


def normalise_output_block(lines):
    """Make gfortran's output comparable with expected_dump: collapse whitespace, normalise reals."""
    out = []
    for ln in lines:
        toks = ln.split()
        norm = []
        for t in toks:
            if ('E' in t or '.' in t) and t[0] in '+-.0123456789':
                try:
                    norm.append(f'{float(t):.9E}')
                    continue
                except ValueError:
                    pass
            norm.append(t)
        out.append(' '.join(norm))
    return out


def parse_driver_output(text):
    """-> {(kname, g): [normalised lines]}"""
    res, cur, key = {}, None, None
    for ln in text.splitlines():
        if ln.startswith('#BEGIN'):
            _, kn, g = ln.split()
            key, cur = (kn, int(g)), []
        elif ln.startswith('#END'):
            res[key] = normalise_output_block(cur)
            key, cur = None, None
        elif cur is not None:
            cur.append(ln)
    return res


# ---------------------------------------------------------------------------- interpreter
class _Exit(Exception):
    def __init__(self, name):
        self.name = name


class _Cycle(Exception):
    def __init__(self, name):
        self.name = name


MAXINT = 10 ** 6
MAXSTEPS = 4000


def _check(v):
    if isinstance(v, bool):
        return v
    if isinstance(v, int):
        if abs(v) > MAXINT:
            raise Invalid('integer magnitude')
        return v
    if isinstance(v, Fraction):
        d = v.denominator
        if d & (d - 1) or d > 4096 or abs(v) > 8192:
            raise Invalid(f'inexact real {v}')
        return v
    raise Invalid(f'bad value {v!r}')


def type_of_var(name):
    if name in INT_SCALARS or name in LOOP_VARS or name == 'n' or name in INT_ARRAYS or name == 't%m':
        return 'int'
    if name in REAL_SCALARS or name in REAL_ARRAYS or name == 't%v':
        return 'real'
    if name in LOG_SCALARS:
        return 'log'
    return None


class Interp:
    def __init__(self, inp, trace=False):
        self.st = initial_state(inp)
        self.trace = [] if trace else None
        self.printed = []
        self.assoc = []          # stack of dict name -> target lvalue expr (already with evaluated indices)
        self.steps = 0
        self.types = {}

    # -- events
    def ev(self, *e):
        if self.trace is not None:
            self.trace.append(e)

    # -- storage
    def _resolve(self, name):
        for fr in reversed(self.assoc):
            if name in fr:
                return fr[name]
        return None

    def read_loc(self, name, idx=None):
        tgt = self._resolve(name)
        if tgt is not None:
            kind = tgt[0]
            if kind == 'val':
                return tgt[1]
            if kind == 'loc':
                if idx is not None:
                    if tgt[2] is not None:
                        raise Invalid('subscript on element associate')
                    return self.read_loc(tgt[1], idx)
                return self.read_loc(tgt[1], tgt[2])
        if name not in self.st:
            raise Invalid(f'unknown {name}')
        v = self.st[name]
        if isinstance(v, list):
            if idx is None:
                raise Invalid('whole array read in scalar context')
            lb, data = v
            if not isinstance(idx, int) or isinstance(idx, bool) or idx < lb or idx >= lb + len(data):
                raise Invalid(f'subscript {name}({idx}) out of bounds')
            val = data[idx - lb]
        else:
            if idx is not None:
                raise Invalid('subscript on scalar')
            val = v
        if val is None:
            raise Invalid(f'read of undefined {name}')
        self.ev('R', name, idx)
        return val

    def write_loc(self, name, idx, val):
        tgt = self._resolve(name)
        if tgt is not None:
            if tgt[0] == 'val':
                raise Invalid('assignment to expression associate')
            if idx is not None:
                if tgt[2] is not None:
                    raise Invalid('subscript on element associate')
                return self.write_loc(tgt[1], idx, val)
            return self.write_loc(tgt[1], tgt[2], val)
        if name not in self.st or name == 'n':
            raise Invalid(f'cannot write {name}')
        ty = type_of_var(name)
        if ty == 'int':
            if not (isinstance(val, int) and not isinstance(val, bool)):
                raise Invalid('type mismatch (int)')
        elif ty == 'real':
            if isinstance(val, bool):
                raise Invalid('type mismatch (real)')
            val = Fraction(val)
        elif ty == 'log':
            if not isinstance(val, bool):
                raise Invalid('type mismatch (log)')
        val = _check(val)
        v = self.st[name]
        if isinstance(v, list):
            lb, data = v
            if idx is None or not isinstance(idx, int) or idx < lb or idx >= lb + len(data):
                raise Invalid(f'subscript {name}({idx}) out of bounds on write')
            data[idx - lb] = val
        else:
            if idx is not None:
                raise Invalid('subscript on scalar write')
            self.st[name] = val
        self.ev('W', name, idx)

    def _final_loc(self, name, idx):
        tgt = self._resolve(name)
        if tgt is not None and tgt[0] == 'loc':
            return self._final_loc(tgt[1], idx if tgt[2] is None else tgt[2])
        return (name, idx)

    def bounds(self, name):
        tgt = self._resolve(name)
        if tgt is not None and tgt[0] == 'loc' and tgt[2] is None:
            return self.bounds(tgt[1])
        v = self.st.get(name)
        if not isinstance(v, list):
            raise Invalid(f'{name} is not an array')
        return v[0], v[0] + len(v[1]) - 1

    # -- expressions
    def ex(self, e):
        k = e[0]
        if k == 'i':
            return e[1]
        if k == 'r':
            return Fraction(e[1])
        if k == 'l':
            return e[1]
        if k == 'v':
            return self.read_loc(e[1])
        if k == 'e':
            return self.read_loc(e[1], self.ex(e[2]))
        if k == 'c':
            return self.read_loc(f'{e[1]}%{e[2]}')
        if k == 'ce':
            return self.read_loc(f'{e[1]}%{e[2]}', self.ex(e[3]))
        if k == 'par':
            return self.ex(e[1])
        try:
            if k == 'neg':
                return _check(-self._numeric(self.ex(e[1])))
            if k == 'bin':
                a, b = self.ex(e[2]), self.ex(e[3])
                op = e[1]
                if op == '**' and not (isinstance(b, int) and not isinstance(b, bool) and 0 <= b <= 3):
                    raise Invalid('exponent outside alphabet')
                r = {'+': f_add, '-': f_sub, '*': f_mul, '/': f_div, '**': f_pow}[op](a, b)
                return _check(r)
            if k == 'cmp':
                return f_cmp(e[1], self.ex(e[2]), self.ex(e[3]))
            if k == 'and':
                a, b = self.ex(e[1]), self.ex(e[2])
                return self._logical(a) and self._logical(b)
            if k == 'or':
                a, b = self.ex(e[1]), self.ex(e[2])
                return self._logical(a) or self._logical(b)
            if k == 'not':
                return not self._logical(self.ex(e[1]))
            if k == 'fn':
                return self.fn(e[1], e[2])
        except (Undefined, Unsupported, ZeroDivisionError, TypeError) as ex:
            raise Invalid(str(ex)) from ex
        raise Invalid(f'expr {e!r}')

    @staticmethod
    def _numeric(v):
        if isinstance(v, bool):
            raise Invalid('logical in arithmetic')
        return v

    @staticmethod
    def _logical(v):
        if not isinstance(v, bool):
            raise Invalid('non-logical in logical context')
        return v

    def fn(self, name, args):
        if name in ('size', 'lbound', 'ubound'):
            lo, hi = self.bounds(args[0][1])
            return {'size': hi - lo + 1, 'lbound': lo, 'ubound': hi}[name]
        if name == 'sum':
            a = args[0]
            if a[0] == 'v':
                lo, hi = self.bounds(a[1])
                arr = a[1]
            else:
                arr = a[1]
                blo, bhi = self.bounds(arr)
                lo = blo if a[2] is None else self.ex(a[2])
                hi = bhi if a[3] is None else self.ex(a[3])
            tot = 0 if type_of_var(arr) == 'int' else Fraction(0)
            for i in range(lo, hi + 1):
                tot = _check(tot + self.read_loc(arr, i))
            return tot
        vals = [self.ex(a) for a in args]
        if name == 'fsq':
            return _check(vals[0] * vals[0] + 1)
        return _check(intrinsic(name, vals))

    # -- statements
    def run(self, body, path=()):
        for i, s in enumerate(body):
            self.exec(s, path + (i,))

    def exec(self, s, path):
        self.steps += 1
        if self.steps > MAXSTEPS:
            raise Invalid('too many steps')
        self.ev('enter', path)
        try:
            self._exec(s, path)
        finally:
            self.ev('exit', path)

    def lval(self, lhs):
        k = lhs[0]
        if k == 'v':
            return lhs[1], None
        if k == 'e':
            return lhs[1], self.ex(lhs[2])
        if k == 'c':
            return f'{lhs[1]}%{lhs[2]}', None
        if k == 'ce':
            return f'{lhs[1]}%{lhs[2]}', self.ex(lhs[3])
        raise Invalid(f'lvalue {lhs!r}')

    def _sec_values(self, e, n):
        """value list of length n for an elemental rhs over sections / scalars"""
        k = e[0]
        if k == 'sec':
            blo, bhi = self.bounds(e[1])
            lo = blo if e[2] is None else self.ex(e[2])
            hi = bhi if e[3] is None else self.ex(e[3])
            if hi - lo + 1 != n:
                raise Invalid('shape mismatch')
            return [self.read_loc(e[1], i) for i in range(lo, hi + 1)]
        if k == 'v' and isinstance(self.st.get(e[1]), list):
            lo, hi = self.bounds(e[1])
            if hi - lo + 1 != n:
                raise Invalid('shape mismatch')
            return [self.read_loc(e[1], i) for i in range(lo, hi + 1)]
        if k == 'bin':
            a, b = self._sec_values(e[2], n), self._sec_values(e[3], n)
            f = {'+': f_add, '-': f_sub, '*': f_mul, '/': f_div, '**': f_pow}[e[1]]
            try:
                return [_check(f(x, y)) for x, y in zip(a, b)]
            except (Undefined, Unsupported) as ex:
                raise Invalid(str(ex)) from ex
        if k == 'cmp':
            a, b = self._sec_values(e[2], n), self._sec_values(e[3], n)
            return [f_cmp(e[1], x, y) for x, y in zip(a, b)]
        if k == 'par':
            return self._sec_values(e[1], n)
        if k == 'neg':
            return [_check(-x) for x in self._sec_values(e[1], n)]
        v = self.ex(e)
        return [v] * n

    def _exec(self, s, path):
        k = s[0]
        if k == 'asg':
            val = self.ex(s[2])
            name, idx = self.lval(s[1])
            self.write_loc(name, idx, val)
        elif k == 'secasg':
            arr = s[1]
            blo, bhi = self.bounds(arr)
            lo = blo if s[2] is None else self.ex(s[2])
            hi = bhi if s[3] is None else self.ex(s[3])
            n = max(0, hi - lo + 1)
            vals = self._sec_values(s[4], n)     # RHS fully evaluated first
            for off, v in enumerate(vals):
                self.write_loc(arr, lo + off, v)
        elif k == 'whole':
            lo, hi = self.bounds(s[1])
            vals = self._sec_values(s[2], hi - lo + 1)
            for off, v in enumerate(vals):
                self.write_loc(s[1], lo + off, v)
        elif k == 'do':
            _, var, lo, hi, step, body, name, label = s
            lo, hi = self.ex(lo), self.ex(hi)
            st = 1 if step is None else self.ex(step)
            if st == 0:
                raise Invalid('zero step')
            num = hi - lo + st
            trips = abs(num) // abs(st)
            if (num < 0) != (st < 0):
                trips = 0
            v = lo
            self.write_loc(var, None, v)
            try:
                for _ in range(trips):
                    self.ev('iter', path, v)
                    try:
                        self.run(body, path)
                    except _Cycle as c:
                        if c.name is not None and c.name != name:
                            raise
                    v += st
                    self.write_loc(var, None, v)
            except _Exit as x:
                if x.name is not None and x.name != name:
                    raise
        elif k == 'while':
            n = 0
            try:
                while self._logical(self.ex(s[1])):
                    n += 1
                    if n > 50:
                        raise Invalid('while does not terminate')
                    self.ev('iter', path, n)
                    try:
                        self.run(s[2], path)
                    except _Cycle as c:
                        if c.name is not None:
                            raise
            except _Exit as x:
                if x.name is not None:
                    raise
        elif k == 'if':
            for n, (cond, body) in enumerate(s[1]):
                if self._logical(self.ex(cond)):
                    self.run(body, path + (('b', n),))
                    return
            if s[2] is not None:
                self.run(s[2], path + (('b', 'else'),))
        elif k == 'if1':
            if self._logical(self.ex(s[1])):
                self.exec(s[2], path + (0,))
        elif k == 'select':
            v = self.ex(s[1])
            for n, (items, body) in enumerate(s[2]):
                for it in items:
                    if (it[0] == 'val' and v == it[1]) or \
                            (it[0] == 'rng' and (it[1] is None or v >= it[1]) and (it[2] is None or v <= it[2])):
                        self.run(body, path + (('b', n),))
                        return
            if s[3] is not None:
                self.run(s[3], path + (('b', 'default'),))
        elif k == 'where':
            # masks evaluated once, in order; each body statement executes elementwise under its mask
            lo, hi = None, None
            pending = None
            for n, (mask, body) in enumerate(s[1]):
                arrs = _arrays_in(mask)
                blo, bhi = self.bounds(arrs[0])
                m = self._sec_values(mask, bhi - blo + 1)
                if pending is None:
                    pending = [True] * len(m)
                eff = [p and mm for p, mm in zip(pending, m)]
                pending = [p and not mm for p, mm in zip(pending, m)]
                self._where_body(body, eff, path + (('b', n),))
            if s[2] is not None:
                self._where_body(s[2], pending, path + (('b', 'else'),))
        elif k == 'assoc':
            fr = {}
            for name, e in s[1]:
                if e[0] == 'v':
                    fr[name] = ('loc', e[1], None)
                elif e[0] == 'e':
                    fr[name] = ('loc', e[1], self.ex(e[2]))
                elif e[0] == 'c':
                    fr[name] = ('loc', f'{e[1]}%{e[2]}', None)
                elif e[0] == 'ce':
                    fr[name] = ('loc', f'{e[1]}%{e[2]}', self.ex(e[3]))
                else:
                    fr[name] = ('val', self.ex(e))
            self.assoc.append(fr)
            try:
                self.run(s[2], path)
            finally:
                self.assoc.pop()
        elif k == 'call':
            if s[1] == 'helper':
                a = self.ex(s[2][0])
                name, idx = self.lval(s[2][1])
                if self._final_loc(name, idx) == ('q', None):
                    raise Invalid('helper modifies host variable q through its dummy')
                b = self.read_loc(name, idx)
                qv = self.read_loc('q')
                self.write_loc(name, idx, _check(b + 2 * a + qv))
            elif s[1] == 'ext':
                a = self.ex(s[2][0])
                nb, ib_ = self.lval(s[2][1])
                nc, ic = self.lval(s[2][2])
                nd, id_ = self.lval(s[2][3])
                locs = {self._final_loc(nb, ib_), self._final_loc(nc, ic), self._final_loc(nd, id_)}
                if len(locs) < 3:
                    raise Invalid('aliased actual arguments')
                c = self.read_loc(nc, ic)
                self.write_loc(nb, ib_, _check(a + c))
                self.write_loc(nc, ic, _check(c + 1))
                d = self.read_loc(nd, id_)
                self.write_loc(nd, id_, _check(d + a))
            else:
                raise Invalid(f'call {s[1]}')
        elif k == 'callshadow':
            a = self.ex(s[1])
            name, idx = self.lval(s[2])
            b = self.read_loc(name, idx)
            self.write_loc(name, idx, _check(b + 3 * a - 1))
        elif k == 'exit':
            raise _Exit(s[1])
        elif k == 'cycle':
            raise _Cycle(s[1])
        elif k == 'print':
            vals = [self.ex(e) for e in s[1]]
            toks = ['P']
            for v in vals:
                if isinstance(v, bool):
                    toks.append('T' if v else 'F')
                elif isinstance(v, int):
                    toks.append(str(v))
                else:
                    toks.append(f'{float(v):.9E}')
            self.printed.append(' '.join(toks))
        elif k == 'iounit':
            pv = self.read_loc('p')
            self.write_loc('q', None, _check(pv + 1))
        elif k in ('comment', 'pragma'):
            pass
        else:
            raise Invalid(f'stmt {s!r}')

    def _where_body(self, body, mask, path):
        for i, st in enumerate(body):
            p = path + (i,)
            self.ev('enter', p)
            try:
                if st[0] != 'whole':
                    raise Invalid('only whole-array assignments inside WHERE')
                lo, hi = self.bounds(st[1])
                if hi - lo + 1 != len(mask):
                    raise Invalid('WHERE shape mismatch')
                # elemental evaluation restricted to masked elements
                for off in range(len(mask)):
                    if mask[off]:
                        v = self._elem_value(st[2], off)
                        self.write_loc(st[1], lo + off, v)
            finally:
                self.ev('exit', p)

    def _elem_value(self, e, off):
        k = e[0]
        if k == 'v' and isinstance(self.st.get(e[1]), list):
            lo, _ = self.bounds(e[1])
            return self.read_loc(e[1], lo + off)
        if k == 'bin':
            a, b = self._elem_value(e[2], off), self._elem_value(e[3], off)
            try:
                return _check({'+': f_add, '-': f_sub, '*': f_mul, '/': f_div, '**': f_pow}[e[1]](a, b))
            except (Undefined, Unsupported) as ex:
                raise Invalid(str(ex)) from ex
        if k == 'par':
            return self._elem_value(e[1], off)
        if k == 'neg':
            return _check(-self._elem_value(e[1], off))
        return self.ex(e)


def _arrays_in(e):
    out = []
    if isinstance(e, (list, tuple)):
        if len(e) >= 2 and e[0] in ('v', 'sec') and (e[1] in INT_ARRAYS or e[1] in REAL_ARRAYS):
            out.append(e[1])
        for c in e[1:]:
            if isinstance(c, (list, tuple)):
                out += _arrays_in(c)
    return out


def run_kernel(body, inp, trace=False):
    """-> (expected output lines, trace or None).  Raises Invalid."""
    it = Interp(inp, trace=trace)
    try:
        it.run(body)
    except (_Exit, _Cycle) as ex:
        raise Invalid('exit/cycle outside loop') from ex
    except RecursionError as ex:
        raise Invalid('recursion') from ex
    return expected_dump(it.st, it.printed), it.trace


def valid_on_grid(body, grid=None):
    """Expected outputs for every input, or None if the kernel is invalid on some input."""
    outs = []
    for inp in (grid or input_grid()):
        try:
            out, _ = run_kernel(body, inp)
        except Invalid:
            return None
        outs.append(out)
    return outs
