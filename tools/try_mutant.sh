#!/bin/bash
# usage: try_mutant.sh <mutant dir with patch.diff, demo.py> <check ids...>   [BASELINE=1 to also run the pinned suite]
# Applies the patch in a scratch worktree of /repo HEAD, runs the demo on /repo and on the mutant,
# runs the given checks (quick) against the mutant via VERIF_REPO, removes the worktree.
set -u
D="$1"; shift
NAME=$(basename "$D")
WT=/tmp/wt_try_$NAME
git -C /repo worktree remove --force "$WT" >/dev/null 2>&1
git -C /repo worktree add -q "$WT" HEAD || exit 2
if ! git -C "$WT" apply "$D/patch.diff" 2>/tmp/try_$NAME.err; then echo "PATCH-FAILS $(head -3 /tmp/try_$NAME.err)"; git -C /repo worktree remove --force "$WT"; exit 3; fi
mkdir -p /tmp/w; cd /tmp/w
PYTHONPATH=/repo:/repo/lint_rules timeout 600 /venv/bin/python "$D/demo.py" >/tmp/try_${NAME}_demo0.log 2>&1; R0=$?
PYTHONPATH=$WT:$WT/lint_rules timeout 600 /venv/bin/python "$D/demo.py" >/tmp/try_${NAME}_demo1.log 2>&1; R1=$?
echo "$NAME demo: unchanged=$R0 mutant=$R1"
cd /verif
for C in "$@"; do
  VERIF_REPO=$WT timeout 7200 ./check $C --tier ${TIER:-quick} >/tmp/try_${NAME}_$C.log 2>&1; RC=$?
  echo "$NAME check $C exit=$RC $(grep -c '^VIOLATION' /tmp/try_${NAME}_$C.log) violation lines; $(grep -m1 'signature:' /tmp/try_${NAME}_$C.log | cut -c1-160)"
done
if [ "${BASELINE:-0}" = "1" ]; then /verif/tools/baseline.py "$WT" ${BASELINE_ARGS:-} 2>&1 | grep -v condarc | tail -4; fi
git -C /repo worktree remove --force "$WT"
