"""Ground truth: gfortran / gcc runners (batched)."""
import os
import shutil
import subprocess
import tempfile
from pathlib import Path

GFORTRAN = shutil.which('gfortran') or 'gfortran'
GCC = shutil.which('gcc') or 'gcc'
FFLAGS = ['-O0', '-std=gnu', '-w', '-ffree-line-length-none']


def _tmpbase():
    return '/dev/shm' if os.path.isdir('/dev/shm') and os.access('/dev/shm', os.W_OK) else None


class Build:
    """A scratch directory with sources; compile, link, run; removed on close."""

    def __init__(self, base=None, prefix='gf_'):
        self.dir = Path(tempfile.mkdtemp(prefix=prefix, dir=str(base) if base else _tmpbase()))

    def write(self, name, text):
        p = self.dir / name
        p.parent.mkdir(parents=True, exist_ok=True)
        p.write_text(text)
        return p

    def run(self, cmd, timeout=120, stdin=None):
        try:
            r = subprocess.run(cmd, cwd=self.dir, capture_output=True, text=True, timeout=timeout,
                               input=stdin, errors='replace')
            return r.returncode, r.stdout, r.stderr
        except subprocess.TimeoutExpired:
            return -9, '', 'TIMEOUT'

    def fcompile(self, files, exe='a.out', flags=(), timeout=300):
        cmd = [GFORTRAN, *FFLAGS, *flags, *[str(f) for f in files], '-o', exe]
        rc, out, err = self.run(cmd, timeout=timeout)
        return rc == 0, err

    def fsyntax(self, files, flags=()):
        rc, out, err = self.run([GFORTRAN, *FFLAGS, *flags, '-fsyntax-only', *[str(f) for f in files]])
        return rc == 0, err

    def close(self):
        shutil.rmtree(self.dir, ignore_errors=True)

    def __enter__(self):
        return self

    def __exit__(self, *a):
        self.close()


def compile_and_run(sources, flags=(), timeout=60, base=None, stdin=None):
    """sources: list of (filename, text) in compile order. Returns dict(ok, stage, out, err)."""
    with Build(base) as b:
        files = [b.write(n, t).name for n, t in sources]
        ok, err = b.fcompile(files, flags=flags)
        if not ok:
            return dict(ok=False, stage='compile', out='', err=err)
        rc, out, err = b.run(['./a.out'], timeout=timeout, stdin=stdin)
        return dict(ok=rc == 0, stage='run', rc=rc, out=out, err=err)


def fortran_value_repr(v):
    """How the drivers below print a value so that it can be compared exactly."""
    from fractions import Fraction
    if isinstance(v, bool):
        return 'T' if v else 'F'
    if isinstance(v, int):
        return str(v)
    if isinstance(v, Fraction):
        return f'{float(v):.9e}'
    raise TypeError(v)


def eval_fortran_expressions(items, base=None, chunk=300):
    """items: list of (text, env) with env name -> int|Fraction|bool (types by Python type).
    Returns list of str results ('T'/'F', integer text, or %.9e real) or ('ERR', msg) per item.
    Each expression is evaluated by gfortran in its own contained function so that a
    compile error is attributed by bisection."""
    results = [None] * len(items)

    def decl(env):
        lines = []
        for k, v in sorted(env.items()):
            if isinstance(v, bool):
                lines.append(f'  logical :: {k} = {".true." if v else ".false."}')
            elif isinstance(v, int):
                lines.append(f'  integer :: {k} = {v}')
            else:
                lines.append(f'  real(kind=8) :: {k} = {float(v)!r}_8')
        return lines

    def build(idx):
        src = ['program p', '  implicit none']
        for j in idx:
            src.append(f'  call s{j}()')
        src.append('contains')
        for j in idx:
            text, env = items[j]
            src.append(f'subroutine s{j}()')
            src += decl(env)
            src.append(f'  call pr({j}, {text})')
            src.append(f'end subroutine s{j}')
        src += [
            'subroutine pr(j, v)', '  integer, intent(in) :: j', '  class(*), intent(in) :: v',
            '  select type (v)',
            '  type is (integer)', "    write(*,'(A,I0,A,I0)') '#', j, ' ', v",
            '  type is (integer(8))', "    write(*,'(A,I0,A,I0)') '#', j, ' ', v",
            '  type is (real(4))', "    write(*,'(A,I0,A,ES16.9)') '#', j, ' ', real(v,8)",
            '  type is (real(8))', "    write(*,'(A,I0,A,ES16.9)') '#', j, ' ', v",
            '  type is (logical)', "    write(*,'(A,I0,A,L1)') '#', j, ' ', v",
            '  end select', 'end subroutine pr', 'end program p']
        return '\n'.join(src) + '\n'

    def attempt(idx):
        r = compile_and_run([('p.f90', build(idx))], flags=['-ffpe-summary=none'], base=base)
        if r['stage'] == 'compile' and not r['ok']:
            if len(idx) == 1:
                results[idx[0]] = ('ERR', 'compile: ' + r['err'][-400:])
                return
            mid = len(idx) // 2
            attempt(idx[:mid])
            attempt(idx[mid:])
            return
        got = {}
        for line in r['out'].splitlines():
            if line.startswith('#'):
                a, _, b = line[1:].partition(' ')
                got[int(a)] = b.strip()
        if not r['ok'] and len(idx) > 1 and len(got) < len(idx):
            mid = len(idx) // 2
            attempt(idx[:mid])
            attempt(idx[mid:])
            return
        for j in idx:
            if j in got:
                v = got[j]
                if 'E' in v:
                    v = f'{float(v):.9e}'
                results[j] = v
            else:
                results[j] = ('ERR', 'run: ' + (r['err'] or '')[-300:])

    for s in range(0, len(items), chunk):
        attempt(list(range(s, min(len(items), s + chunk))))
    return results
