"""C13  Symbols are classified by their declared type and share it by scope.

ENUM x SEQ (model checking).  A virtual root fans out into the *full product* of
constructions

    declared type D (absent, deferred, deferred data type that carries a shape, intrinsic scalar,
    intrinsic with shape, derived with / without typedef, procedure, derived-type name)
    x  dimensions (absent, None, (i,), (:,))
    x  parent (none, typed derived variable -> scalar member, -> array member, untyped,
               derived type known by name only -> array member)
    x  scope (none, D recorded in the symbol's own scope, D recorded only in the parent scope)
    x  explicit `type=` (absent, each type of the tier's pool)

and from every construction a level-synchronous BFS explores *update histories* on the real
objects (two nested real `Scope`s, real `Variable(...)` products): table assignment, table
deletion, replacing the type recorded for the parent `p` (with / without type definition; nothing is
read afterwards, so stale member entries stay in the table), creation of a further symbol by name (with/without scope, type, subscripts),
`clone(type=...)`, `clone()`, `rescope(scope)`, `clone(scope=None)`.  States are merged on the
canonical projection (raw table contents + set of live symbol descriptors).

Reference model (written from the docstrings of `Variable`, `TypedSymbol`, `clone`, `rescope`,
`SymbolTable`), run in lock-step; it is *relational* where the documentation is silent:

 K1 class   every creating operation yields the class of the documented tier algorithm applied to
            the effective type (explicit `type=`, else the type visible for the name from the scope,
            innermost table first, and - when that entry has no data type - for `p%b` the member type of
            the parent's type definition; for creation by name this is strict, so the class always agrees
            with the symbol's own `.type`):
            procedure type -> ProcedureSymbol; derived type named like the symbol -> DerivedTypeSymbol;
            subscripts given or declared shape -> Array; other known type -> Scalar; else
            DeferredTypeSymbol.
 K2 type    after every transition every live symbol reports: attached -> the type visible for its
            name from its scope in the *current* tables (so a change recorded in a scope is seen by
            every symbol of that name attached to it, whenever it was created); detached -> the
            type it was created with.
 K3 writes  only the documented writes happen: `scope.symbol_attrs[n] = T` changes exactly that entry;
            `Variable(scope=, type=T)` and `clone(type=T)` of an attached symbol record T in that scope;
            creation without `type=`, `clone()`, `clone(scope=None)` and reading `.type` leave every
            visible type unchanged; `rescope` never changes a type already visible in the target
            scope and records the symbol's type there otherwise.
 K4 copies  the type returned for an attached symbol is a copy (mutating it changes nothing).

Weaker readings taken (documented behaviour, not flagged): Loki *caches* the visible type in the
symbol's own scope on creation ("all type information is cached in that scope's SymbolTable"), so a
symbol attached to a child scope shadows later changes of the outer entry; the model therefore
reads the real raw tables after each step and only demands that *visible* types evolve as documented
(None and BasicType.DEFERRED are one equivalence class "unknown").  Sharing is demanded for symbols
attached to the scope whose table changed and for child-scope symbols whose own table has no entry.
"""
import itertools

from vf.explore import seeded_order

PROPERTY = 'C13'
LEVEL = 'model_checking'
META = dict(
    engine='seq',
    technique='full product of symbol constructions x level-synchronous BFS over type-update histories on real '
              'Scope/Variable objects, lock-step relational reference model of the documented tier/scope rules',
    level_text='every construction of the product (declared type x dimensions x parent x scope placement x explicit type) '
               'followed by every update history up to the depth bound (table set/del, creation by name, clone(type=), '
               'clone(), rescope, clone(scope=None)); after every transition class, reported types of all live symbols, '
               'table writes and copy-independence agree with the reference model',
    level_note='runs directly on the implementation (every explored trace is an implementation trace); the model reads the '
               'real raw tables and is relational about undocumented caching; None == DEFERRED ("unknown")',
)

TYPES = ['deferred', 'def_shape', 'int', 'int_in', 'real_shape', 'dt_tdef', 'dt_notdef', 'proc', 'dtname']
D_TYPES = ['none', 'deferred', 'def_shape', 'int', 'real_shape', 'dt_tdef', 'dt_notdef', 'proc', 'dtname']
DIMS = ['absent', 'None', 'idx', 'colon']
PARENTS = ['none', 'typed_b', 'typed_c', 'untyped', 'notdef']
SCOPEMODES = ['none', 'own', 'parent']
MEMBERS = {'b': 'int', 'c': 'real_shape'}
CLASSES = ('ProcedureSymbol', 'DerivedTypeSymbol', 'Array', 'Scalar', 'DeferredTypeSymbol')


# ------------------------------------------------------------------ reference model (pure python)
def known(tag):
    """the data type is known (a DEFERRED data type that only carries a shape is not)"""
    return tag not in (None, 'none', 'deferred', 'def_shape')


def unk(tag):
    """None and plain DEFERRED are one class"""
    return 'unknown' if tag in (None, 'none', 'deferred') else tag


def tier(tag, dims, name):
    """The documented tier algorithm of `Variable` (+ the derived-type-name tier of DerivedTypeSymbol)."""
    if tag == 'proc':
        return 'ProcedureSymbol'
    if tag == 'dtname' and '%' not in name:
        return 'DerivedTypeSymbol'
    if dims in ('idx', 'colon') or tag in ('real_shape', 'def_shape'):
        return 'Array'
    if known(tag):
        return 'Scalar'
    return 'DeferredTypeSymbol'


def chain(R, sidx, key):
    """innermost-first look-up through the scope chain (scope 1 = inner, its parent is scope 0 = outer)"""
    s = sidx
    while s is not None and s >= 0:
        if key in R[s]:
            return R[s][key]
        s = s - 1 if s > 0 else None
    return None


def parent_type(R, pdesc):
    if pdesc is None:
        return None
    return chain(R, pdesc['scope'], 'p') if pdesc['scope'] is not None else pdesc['own']


def visible(R, sidx, name, pdesc, raw=False, obj_only=False):
    """Type visible for `name` from scope `sidx`: table entry innermost-first; for p%m, if that is unknown,
    the member type from the parent's type definition (via the parent object, else via the name `p` in the scope)."""
    stored = chain(R, sidx, name)
    if raw or known(stored) or '%' not in name or pdesc is None:
        return stored
    member = name.split('%')[-1]
    if parent_type(R, pdesc) == 'dt_tdef':
        return MEMBERS[member]
    if not obj_only and pdesc['scope'] != sidx and chain(R, sidx, 'p') == 'dt_tdef':
        return MEMBERS[member]
    return stored


def vall(R, names, pdesc):
    return {(s, n): unk(visible(R, s, n, pdesc if n != 'p' else None)) for s in (0, 1) for n in names}


def rwrite(R, sidx, key, tag):
    R2 = [dict(t) for t in R]
    R2[sidx][key] = tag
    return R2


# ------------------------------------------------------------------ real objects
_G = {}


def _globals():
    """Per-process constants: the type definition `t` with members b (integer) and c (real, shape (3,))."""
    if _G:
        return _G
    from loki import ir
    from loki.expression import symbols as sym
    from loki.types import SymbolAttributes, BasicType, DerivedType, ProcedureType
    tdef = ir.TypeDef(name='t', body=())  # pylint: disable=unexpected-keyword-arg
    b = sym.Variable(name='b', scope=tdef, type=SymbolAttributes(BasicType.INTEGER))
    c = sym.Variable(name='c', scope=tdef,
                     type=SymbolAttributes(BasicType.REAL, shape=(sym.IntLiteral(3),)), dimensions=(sym.IntLiteral(3),))
    tdef._update(body=(ir.VariableDeclaration(symbols=(b,)), ir.VariableDeclaration(symbols=(c,))))  # pylint: disable=protected-access
    _G.update(tdef=tdef, sym=sym, SA=SymbolAttributes, BT=BasicType, DT=DerivedType, PT=ProcedureType,
              dt_t=DerivedType(typedef=tdef))
    return _G


def mk(tag, basename):
    g = _globals()
    SA, BT = g['SA'], g['BT']
    if tag == 'deferred':
        return SA(BT.DEFERRED)
    if tag == 'def_shape':
        return SA(BT.DEFERRED, shape=(g['sym'].IntLiteral(3),))
    if tag == 'int':
        return SA(BT.INTEGER)
    if tag == 'int_in':
        return SA(BT.INTEGER, intent='in')
    if tag == 'real_shape':
        return SA(BT.REAL, shape=(g['sym'].IntLiteral(3),))
    if tag == 'dt_tdef':
        return SA(g['dt_t'])
    if tag == 'dt_notdef':
        return SA(g['DT'](name='u'))
    if tag == 'proc':
        return SA(g['PT'](name='f'))
    if tag == 'dtname':
        return SA(g['DT'](name=basename))
    raise ValueError(tag)


def tag_of(attr):
    """Canonical tag of a real SymbolAttributes (anything unexpected shows up in the tag)."""
    if attr is None:
        return None
    g = _globals()
    BT = g['BT']
    d = dict(attr.__dict__)
    dt = d.pop('dtype')
    extra = ''
    if d.pop('poison', None):
        extra += '!POISONED'
    if dt is BT.DEFERRED:
        base = 'deferred'
        if 'shape' in d:
            d.pop('shape')
            base = 'def_shape'
    elif dt is BT.INTEGER:
        base = 'int_in' if d.pop('intent', None) == 'in' else 'int'
    elif dt is BT.REAL and 'shape' in d:
        d.pop('shape')
        base = 'real_shape'
    elif isinstance(dt, g['PT']):
        base = 'proc'
    elif isinstance(dt, g['DT']):
        base = 'dt_tdef' if dt.typedef is g['tdef'] else 'dt_notdef' if dt.name == 'u' else 'dtname'
    else:
        base = f'other:{dt!r}'
    if d:
        extra += '!' + ','.join(sorted(d))
    return base + extra


class World:
    """Real scopes + live symbols, with the model's descriptors next to them."""

    def __init__(self, cons):
        from loki.types import Scope
        g = _globals()
        sym = g['sym']
        D, dims, parent, scopemode, E = cons
        self.cons = cons
        self.outer = Scope()
        self.inner = Scope(parent=self.outer)
        self.scopes = [self.outer, self.inner]
        self.child = parent != 'none'
        self.name = {'none': 'x', 'typed_b': 'p%b', 'typed_c': 'p%c', 'untyped': 'p%b', 'notdef': 'p%c'}[parent]
        self.basename = self.name.split('%')[-1]
        self.names = [self.name] + (['p', 'p%b', 'p%c'] if self.child else [])
        self.names = list(dict.fromkeys(self.names))
        att = None if scopemode == 'none' else 1
        self.P, self.pdesc = None, None
        if self.child:
            kw = dict(name='p')
            if att is not None:
                kw['scope'] = self.inner
            ptype = {'untyped': None, 'notdef': 'dt_notdef'}.get(parent, 'dt_tdef')
            if ptype:
                kw['type'] = mk(ptype, 'p')
            self.P = sym.Variable(**kw)
            self.pdesc = dict(scope=att, own=ptype)
        if D != 'none' and scopemode != 'none':
            self.scopes[1 if scopemode == 'own' else 0].symbol_attrs[self.name] = mk(D, self.basename)
        self.syms = []     # real symbol objects
        self.descs = []    # model descriptors: dict(cls, dims, scope, own)
        self.first_event = ('new', att, None if E == 'absent' else E, dims)

    # -- observation of the real tables (raw: no clone, no look-up logic of the code under test)
    def raw(self):
        return [{k: tag_of(v) for k, v in dict.items(s.symbol_attrs)} for s in self.scopes]

    def scope_index(self, sc):
        if sc is None:
            return None
        for i, s in enumerate(self.scopes):
            if s is sc:
                return i
        return -1

    def cur_type(self, R, d):
        """model: the type a live symbol reports now"""
        if d['scope'] is None:
            return d['own']
        return visible(R, d['scope'], self.name, self.pdesc)

    def canon(self):
        R = self.raw()
        descs = frozenset((d['cls'], d['dims'], d['scope'], unk(d['own']) if d['scope'] is None else None)
                          for d in self.descs)
        return (self.cons[2], self.cons[3] == 'none', tuple(tuple(sorted((k, v) for k, v in t.items())) for t in R),
                tuple(sorted(descs, key=repr)))

    def distinct(self):
        seen, out = set(), []
        for i, d in enumerate(self.descs):
            k = (d['cls'], d['dims'], d['scope'], unk(d['own']) if d['scope'] is None else None)
            if k not in seen:
                seen.add(k)
                out.append(i)
        return out


def _dims_obj(dims):
    sym = _globals()['sym']
    if dims == 'idx':
        return (sym.Variable(name='i'),)
    if dims == 'colon':
        return (sym.RangeIndex((None, None)),)
    return None


def _diff_v(w, Rgot, Rexp):
    a, b = vall(Rgot, w.names, w.pdesc), vall(Rexp, w.names, w.pdesc)
    return [(k, a[k], b[k]) for k in sorted(a, key=repr) if a[k] != b[k]]


# Root-cause signatures of the two defects of the pinned tree this space contains.  Violations with
# these signatures are *soft*: they are recorded, the model adopts the real outcome (it reads the
# real tables anyway) and exploration continues behind them, so they cannot mask other defects.
SIG_MEMBER_RESET = ("visible child: looking up a derived-type member through its parent overwrote the type recorded "
                    "for p%<member> in the parent's scope with the type definition's")
SIG_RESCOPE_ARRAY = ('class op=rescope: an Array without subscripts stays an Array in a scope that records a '
                     'type without shape')
SOFT = (SIG_MEMBER_RESET, SIG_RESCOPE_ARRAY)


def _visible_problem(w, R, dv, what, detail):
    """Signature for a list of visible-type differences [(scope, name), got, documented]."""
    def is_reset(item):
        (s_, n_), g_, _ = item
        return (w.child and n_ in ('p%b', 'p%c') and g_ == MEMBERS[n_[-1]] and
                'dt_tdef' in (parent_type(R, w.pdesc), chain(R, s_, 'p')))
    other = [x for x in dv if not is_reset(x)]
    if not other:
        (s_, n_), g_, e_ = dv[0]
        return (SIG_MEMBER_RESET, f'{detail}: from scope {s_} name {n_}: visible type {e_} -> {g_}')
    (s_, n_), g_, e_ = other[0]
    rel = 'own-name' if n_ == w.name else 'other-name'
    return (f'visible {what} {rel}: visible type became {g_}, documented {e_}',
            f'{detail}: from scope {s_} name {n_}: visible type {g_}, documented {e_}')


def apply(w, ev):
    """Execute one event on the real objects, compare with the reference model.
    Returns a list of (signature, detail)."""
    op = ev[0]
    if op not in ('set', 'del', 'pset', 'new', 'clone_type', 'clone', 'clone_detach', 'rescope'):
        raise RuntimeError(f'unknown event {ev}')
    out = []
    R = w.raw()
    nm, bn = w.name, w.basename
    kind = 'child' if w.child else 'plain'
    new_desc = None
    new_sym = None
    src_desc = None
    cands = None          # list of (eff, Rexp, exact_write) alternatives allowed by the documentation

    def alternatives(sidx):
        """effective types the documentation allows for `nm` seen from scope sidx: the visible type; where a
        table entry says "unknown" but the parent's type definition knows the member, either reading"""
        a, b = visible(R, sidx, nm, w.pdesc), visible(R, sidx, nm, w.pdesc, raw=True)
        return [a] if unk(a) == unk(b) else [a, b]

    try:
        if op == 'set':
            _, s, T = ev
            w.scopes[s].symbol_attrs[nm] = mk(T, bn)
            R1 = w.raw()
            if R1 != rwrite(R, s, nm, T):
                out.append((f'table op=set type={T}: tables are not the old tables with exactly that entry replaced',
                            f'before {R} after {R1}'))
        elif op == 'pset':
            # replace the type recorded for the parent `p` (with / without type definition); nothing is read afterwards
            _, s, T = ev
            w.scopes[s].symbol_attrs['p'] = mk(T, 'p')
            R1 = w.raw()
            if R1 != rwrite(R, s, 'p', T):
                out.append((f'table op=pset type={T}: tables are not the old tables with exactly that entry replaced',
                            f'before {R} after {R1}'))
        elif op == 'del':
            _, s = ev
            del w.scopes[s].symbol_attrs[nm]
            R1 = w.raw()
            Rexp = [dict(t) for t in R]
            Rexp[s].pop(nm, None)
            if R1 != Rexp:
                out.append(('table op=del: tables are not the old tables without that entry', f'before {R} after {R1}'))
        elif op == 'new':
            _, s, E, dims = ev
            kw = dict(name=nm)
            if s is not None:
                kw['scope'] = w.scopes[s]
            if E is not None:
                kw['type'] = mk(E, bn)
            if dims == 'None':
                kw['dimensions'] = None
            elif dims != 'absent':
                kw['dimensions'] = _dims_obj(dims)
            if w.child:
                kw['parent'] = w.P
            new_sym = _globals()['sym'].Variable(**kw)
            if E is not None:
                cands = [(E, rwrite(R, s, nm, E) if s is not None else R, (s, E) if s is not None else None)]
            elif s is not None:
                # created by name: the class follows the type recorded for the name, i.e. the table entry, and for an
                # entry without data type the member type of the parent's type definition (parent = the object given;
                # if that knows nothing, also the name `p` as seen from the scope)
                a_, b_ = visible(R, s, nm, w.pdesc, obj_only=True), visible(R, s, nm, w.pdesc)
                cands = [(a_, R, None)] + ([(b_, R, None)] if unk(a_) != unk(b_) else [])
            else:
                cands = [(None, R, None)]
            new_desc = dict(dims=dims if dims in ('idx', 'colon') else None, scope=s, own=E if s is None else None)
        else:
            i = ev[1]
            src, d = w.syms[i], w.descs[i]
            src_desc = d
            curs = [d['own']] if d['scope'] is None else alternatives(d['scope'])
            cur = curs[0]
            if op == 'clone_type':
                T = ev[2]
                new_sym = src.clone(type=mk(T, bn))
                att = d['scope']
                cands = [(T, rwrite(R, att, nm, T) if att is not None else R, (att, T) if att is not None else None)]
                new_desc = dict(dims=d['dims'], scope=att, own=T if att is None else None)
            elif op == 'clone':
                new_sym = src.clone()
                cands = [(c, R, None) for c in curs]
                new_desc = dict(dims=d['dims'], scope=d['scope'], own=cur if d['scope'] is None else None)
            elif op == 'clone_detach':
                new_sym = src.clone(scope=None)
                cands = [(c, R, None) for c in curs]
                new_desc = dict(dims=d['dims'], scope=None, own=cur)
            else:
                s2 = ev[2]
                new_sym = src.rescope(w.scopes[s2])
                ex_raw = visible(R, s2, nm, w.pdesc, raw=True)
                ex_all = visible(R, s2, nm, w.pdesc)
                if cur is None:
                    # nothing to record: the result takes whatever the target scope knows
                    cands = [(ex_all, R, None)]
                    if ex_raw != ex_all:
                        cands.append((ex_raw, R, None))
                elif ex_raw is not None:
                    cands = [(ex_raw, R, None)]          # never overwrite an existing entry
                    if known(ex_all) and not known(ex_raw):
                        cands.append((ex_all, R, None))  # unknown entry, but the parent's typedef knows the member
                else:
                    cands = [(c, rwrite(R, s2, nm, c), None) for c in curs]    # insert the symbol's own type
                    if ex_all is not None:
                        cands.append((ex_all, R, None))  # no table entry, but known through the parent's typedef
                new_desc = dict(dims=d['dims'], scope=s2, own=None)
    except (AssertionError, TypeError, ValueError, KeyError, AttributeError, RecursionError) as e:
        out.append((f'exception op={op} {kind}: {type(e).__name__}', f'{ev}: {type(e).__name__}: {e}'))
        return out

    if new_sym is not None:
        R1 = w.raw()
        got_cls = type(new_sym).__name__
        got_scope = w.scope_index(new_sym.scope)
        fits = []
        for eff, Rexp, exact in cands:
            problems = []
            exp_cls = tier(eff, new_desc['dims'], nm)
            if got_cls != exp_cls:
                if (op == 'rescope' and got_cls == 'Array' and src_desc['cls'] == 'Array' and src_desc['dims'] is None
                        and exp_cls in ('Scalar', 'DeferredTypeSymbol')):
                    problems.append((SIG_RESCOPE_ARRAY,
                                     f'{ev}: Array `{nm}` without subscripts rescoped into scope {ev[2]} where the type is '
                                     f'{eff}: tier algorithm gives {exp_cls}, rescope produced {got_cls}'))
                else:
                    problems.append((f'class op={op} {kind} type={unk(eff)} dims={new_desc["dims"]} expected={exp_cls} '
                                     f'got={got_cls}',
                                     f'{ev}: effective type {eff}, subscripts {new_desc["dims"]}: tier algorithm gives '
                                     f'{exp_cls}, Variable produced {got_cls}'))
            if exact is not None and R1[exact[0]].get(nm) != exact[1]:
                problems.append((f'table op={op} {kind} type={exact[1]}: type passed with a scope is not recorded in that scope '
                                 f'(found {R1[exact[0]].get(nm)})',
                                 f'{ev}: expected entry {exact[1]} in scope {exact[0]}, tables {R1}'))
            dv = _diff_v(w, R1, Rexp)
            if dv:
                problems.append(_visible_problem(w, R, dv, f'op={op} {kind}', f'{ev} before {R} after {R1}'))
            fits.append(problems)
        best = min(range(len(fits)), key=lambda j: (sum(1 for p_ in fits[j] if p_[0] not in SOFT), len(fits[j])))
        out.extend(fits[best])
        exp_scope = new_desc['scope']
        if got_scope != exp_scope:
            out.append((f'attach op={op} {kind}: result attached to scope {got_scope}, documented {exp_scope}', f'{ev}'))
        eff = cands[best][0]
        new_desc['cls'] = tier(eff, new_desc['dims'], nm)
        if any(p_[0] == SIG_RESCOPE_ARRAY for p_ in fits[best]):
            new_desc['cls'] = 'Array'      # adopt the real outcome and go on
        if new_desc['cls'] != 'Array':
            new_desc['dims'] = None
        if new_desc['scope'] is None and op not in ('new', 'clone_type'):
            new_desc['own'] = eff
        w.syms.append(new_sym)
        w.descs.append(new_desc)
    return out


def sweep(w, op):
    """K2 + K4 on every live symbol; reading must not change visible types."""
    out = []
    R = w.raw()
    for i, (s, d) in enumerate(zip(w.syms, w.descs)):
        if d['scope'] is None:
            exps = [d['own']]
        else:
            exps = [visible(R, d['scope'], w.name, w.pdesc)]
        try:
            t = s.type
        except (AssertionError, TypeError, ValueError, KeyError, AttributeError, RecursionError) as e:
            out.append((f'exception reading .type after op={op}: {type(e).__name__}', f'symbol #{i} {d}: {e}'))
            continue
        got = tag_of(t)
        where = 'detached' if d['scope'] is None else 'attached'
        R2 = w.raw()
        if unk(got) not in [unk(e) for e in exps]:
            # the read itself may have changed the tables (member reset): judge against the tables after the read
            exp2 = d['own'] if d['scope'] is None else visible(R2, d['scope'], w.name, w.pdesc)
            if unk(got) != unk(exp2):
                out.append((f'type op={op} symbol={where}/{d["cls"]} reports {unk(got)} expected {unk(exps[0])}',
                            f'symbol #{i} {d} of name {w.name}: .type is {got}, reference says {exps[0]}; tables {R}'))
                continue
        if d['scope'] is not None and t is not None:
            t.poison = True
            again = tag_of(s.type)
            if again is not None and 'POISONED' in again:
                out.append((f'copy symbol={where}/{d["cls"]}: returned type is not a copy',
                            f'symbol #{i} {d}: mutating the returned type changed a re-read ({again})'))
        dv = _diff_v(w, R2, R)
        if dv:
            out.append(_visible_problem(w, R, dv, f'op=read-type symbol={where}/{d["cls"]}',
                                        f'reading .type of symbol #{i} {d} after {op}'))
        R = R2
    return out


def enabled(w, cfg):
    R = w.raw()
    U = cfg['U']
    evs = []
    for s in (0, 1):
        for T in U:
            evs.append(('set', s, T))
        if w.name in R[s]:
            evs.append(('del', s))
    for s in (None, 0, 1):
        for E in [None] + cfg['E']:
            for dims in cfg['new_dims']:
                evs.append(('new', s, E, dims))
    if w.child and w.pdesc['scope'] == 1:
        for T in ('dt_tdef', 'dt_notdef'):
            evs.append(('pset', 1, T))
    for i in w.distinct():
        for T in U:
            evs.append(('clone_type', i, T))
        evs.append(('clone', i))
        evs.append(('clone_detach', i))
        for s in (0, 1):
            evs.append(('rescope', i, s))
    return evs


def run_history(hist, strict_prefix=True):
    """hist = (cons, ev1, ev2, ...).  Returns (world, violations of the last step).  Soft violations
    (the two known root causes) in the prefix are skipped; any other violation in the prefix is a
    harness error with strict_prefix (the explorer never extends such a transition) and is returned
    otherwise."""
    cons = tuple(hist[0])
    w = World(cons)
    steps = [w.first_event] + [tuple(e) for e in hist[1:]]
    v = []
    for k, ev in enumerate(steps):
        v = apply(w, ev)
        if not any(x[0] not in SOFT for x in v) and ev[0] != 'pset':
            v = v + sweep(w, ev[0])
        hard = [x for x in v if x[0] not in SOFT]
        if k < len(steps) - 1 and hard:
            if strict_prefix:
                raise RuntimeError(f'divergence in accepted prefix {hist[:k + 1]}: {hard[:2]}')
            return w, hard
    # one entry per signature, hard ones first
    seen, res = set(), []
    for x in sorted(v, key=lambda x: x[0] in SOFT):
        if x[0] not in seen:
            seen.add(x[0])
            res.append(x)
    return w, res


_CFG = {}


def constructions(cfg):
    out = []
    for D, dims, parent, scopemode, E in itertools.product(D_TYPES, DIMS, PARENTS, SCOPEMODES, ['absent'] + cfg['E_cons']):
        if scopemode == 'none' and D != 'none':
            continue       # without a scope nothing can be recorded: D is carried by E
        out.append((D, dims, parent, scopemode, E))
    return out


def _case(hist):
    return dict(history=[list(hist[0])] + [list(e) for e in hist[1:]])


def _outcome(h):
    """-> (canon key or None, [(sig, case, detail)]): the key is None iff the transition must not be extended"""
    w, v = run_history(h)
    vs = [(sig, _case(h), det) for sig, det in v]
    hard = any(sig not in SOFT for sig, _ in v)
    return (None if hard else w.canon()), vs, w


def expand(hist):
    cfg = _CFG
    out = []
    w0, _ = run_history(hist)
    for ev in enabled(w0, cfg):
        key, vs, _ = _outcome(tuple(hist) + (ev,))
        out.append((ev, key, vs))
    return out


def _expand_roots(chunk):
    out = []
    for cons in chunk:
        key, vs, w = _outcome((cons,))
        out.append((cons, key, vs, type(w.syms[-1]).__name__ if w.syms else None))
    return out


def run(ctx):
    import logging
    logging.disable(logging.CRITICAL)
    if ctx.quick:
        cfg = dict(U=['int', 'int_in', 'real_shape', 'proc'], E=['int_in', 'real_shape'],
                   E_cons=['int_in', 'real_shape', 'proc', 'def_shape'], new_dims=['absent', 'idx'], depth=2)
    else:
        cfg = dict(U=['int', 'int_in', 'real_shape', 'proc'], E=['int_in', 'real_shape'],
                   E_cons=TYPES[:], new_dims=['absent', 'idx'], depth=3)
    cfg['constructions'] = seeded_order(constructions(cfg), ctx.seed)
    _CFG.clear()
    _CFG.update(cfg)
    ctx.reset_pool()

    # level 0: the construction product (each construction is one transition from the virtual root)
    cons = cfg['constructions']
    chunks = [cons[i:i + 32] for i in range(0, len(cons), 32)]
    seen, frontier, transitions = {'root'}, [], 0
    classes = {}
    viols = []
    soft_transitions = 0
    for res in ctx.pmap(_expand_roots, chunks):
        for c, key, vs, cls in res:
            transitions += 1
            classes[cls] = classes.get(cls, 0) + 1
            viols.extend(vs)
            soft_transitions += bool(vs and key is not None)
            if key is not None and key not in seen:
                seen.add(key)
                frontier.append((c,))
    n_cons_states = len(seen) - 1
    levels = [(0, len(seen), transitions)]
    # deeper levels: BFS with state merging
    depth_done = 0
    budget = 900 if ctx.quick else 840
    capped = False
    for d in range(cfg['depth']):
        if not frontier:
            break
        frontier = seeded_order(frontier, ctx.seed)
        nxt = []
        step = 4096
        for off in range(0, len(frontier), step):
            if ctx.elapsed() > budget:
                capped = True
                break
            part = frontier[off:off + step]
            for hist, res in zip(part, ctx.pmap(expand, part)):
                for ev, key, vs in res:
                    transitions += 1
                    viols.extend(vs)
                    soft_transitions += bool(vs and key is not None)
                    if key is not None and key not in seen:
                        seen.add(key)
                        nxt.append(tuple(hist) + (ev,))
        if capped:
            levels.append((f'{d + 1} (incomplete)', len(seen), transitions))
            break
        frontier = nxt
        depth_done = d + 1
        levels.append((depth_done, len(seen), transitions))
    # report the shortest (then lexicographically smallest) case of every signature: deterministic across seeds
    viols.sort(key=lambda x: (len(x[1]['history']), repr(x[1]['history'])))
    for sig, case, det in viols:
        ctx.violation(sig, case, det)

    ctx.require(all(classes.get(c, 0) > 0 for c in CLASSES),
                f'vacuity: not every symbol class was produced by the construction product: {classes}')
    ctx.require(len(seen) > 5 * len(cons) or viols, f'vacuity: BFS merged to only {len(seen)} states')
    ctx.cov.update(
        states=len(seen), transitions=transitions, traces_validated_against_impl=transitions,
        evaluations=transitions, distinct_nontrivial=len(seen), exhaustive=not capped,
        rule='virtual root -> every construction of the product D x dims x parent x scope x explicit-type (scope=none carries the '
             'type in `type=`); then BFS over update events '
             f'(set/del in either scope with types {cfg["U"]}; replacing the parent\'s recorded type by one with / without '
             f'typedef; Variable(...) by name with scope in (none, outer, inner), type in '
             f'(absent, {cfg["E"]}), subscripts {cfg["new_dims"]}; clone(type=) / clone() / clone(scope=None) / rescope(outer|inner) '
             'of every distinct live symbol); states merged on raw table contents + set of live-symbol descriptors; every '
             'transition runs on the real objects and is compared with the reference model (class, reported type of every live '
             'symbol, table writes, copy independence); transitions that only show one of the two known root causes are '
             'recorded and explored further with the model adopting the real outcome',
        samples=[_case((cons[0],)), _case(frontier[0]) if frontier else _case((cons[-1], ('set', 0, 'int'))),
                 dict(history=[['int', 'absent', 'none', 'parent', 'absent'], ['set', 0, 'real_shape'], ['new', 1, None, 'absent']])],
        bound=dict(constructions=len(cons), update_depth=depth_done, requested_depth=cfg['depth'],
                   update_types=cfg['U'], explicit_types_in_constructions=cfg['E_cons']),
        levels=[dict(depth=str(a), states=b, transitions=c) for a, b, c in levels],
        construction_classes=classes, distinct_construction_states=n_cons_states,
        transitions_continued_behind_known_root_cause=soft_transitions,
    )
    if capped:
        ctx.note(f'time cap hit: completed update depth {depth_done} of {cfg["depth"]}')
    ctx.assumptions += [
        'reference model written from the docstrings of Variable/TypedSymbol/clone/rescope; None and BasicType.DEFERRED are one '
        'class ("unknown")',
        'caching of the visible type in the symbol\'s own scope on creation/reading is documented behaviour and allowed: the model '
        'reads the real raw tables and only constrains how *visible* types evolve',
        'where a table entry says "unknown" for p%m but the parent\'s type definition knows the member, either reading is accepted',
        'derived-type members are named with their qualified name (p%b) and given their parent object, as the frontends do',
    ]


def replay(case):
    import logging
    logging.disable(logging.CRITICAL)
    hist = [tuple(case['history'][0])] + [tuple(e) for e in case['history'][1:]]
    _, v = run_history(tuple(hist), strict_prefix=False)
    return '; '.join(f'[{s}] {d}' for s, d in v) if v else None
